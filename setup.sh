#!/bin/sh
# Build the two lifters against the system LLVM 14 (offline; ~15 s).
set -e
cd "$(dirname "$0")"
mkdir -p bin .cache
CXXFLAGS="$(llvm-config-14 --cxxflags) -fno-rtti -O1"
LLVMSO=/usr/lib/llvm-14/lib/libLLVM-14.so
for t in x86lift ir2json; do
  if [ ! -x bin/$t ] || [ tools/$t.cc -nt bin/$t ]; then
    clang++ $CXXFLAGS tools/$t.cc -o bin/$t.tmp $LLVMSO
    mv bin/$t.tmp bin/$t
  fi
done
echo "setup ok"
