#include <stdio.h>
#include <stdint.h>
#include <string.h>
void sha256_for_mh_sha256(const uint8_t *input_data, uint32_t *digest, const uint32_t len);
void _sha1_for_mh_sha1(const uint8_t *input_data, uint32_t *digest, const uint32_t len);
int main(void){ uint8_t d[512]; for(int i=0;i<512;i++) d[i]=(uint8_t)(i*7+1); uint32_t dg[8];
 int lens[]={0,3,55,56,64,119,120,512};
 for(unsigned k=0;k<sizeof lens/sizeof lens[0];k++){ sha256_for_mh_sha256(d,dg,lens[k]); printf("sha256 %d ",lens[k]); for(int i=0;i<8;i++) printf("%08x",dg[i]); printf("\n"); }
 for(unsigned k=0;k<sizeof lens/sizeof lens[0];k++){ _sha1_for_mh_sha1(d,dg,lens[k]); printf("sha1 %d ",lens[k]); for(int i=0;i<5;i++) printf("%08x",dg[i]); printf("\n"); }
 return 0; }
