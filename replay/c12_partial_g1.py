# gdb script: run the real dispatcher of <iface> with CPUID leaf 7 reporting AVX512VL (ebx bit 17) absent,
# everything else as this machine reports it, and print what the dispatcher binds.
import gdb
iface = gdb.parse_and_eval("$iface").string() if False else None
import os
iface = os.environ["IFACE"]
gdb.execute("set pagination off")
gdb.execute("break %s_dispatch_init" % iface)
gdb.execute("run")
leaf = None
n = 0
while n < 400:
    n += 1
    pc = int(gdb.parse_and_eval("$pc"))
    insn = gdb.execute("x/i $pc", to_string=True)
    if "cpuid" in insn:
        leaf = int(gdb.parse_and_eval("$eax"))
        gdb.execute("stepi")
        if leaf == 7:
            ebx = int(gdb.parse_and_eval("$ebx")) & 0xffffffff
            gdb.execute("set $rbx = %d" % (ebx & ~(1 << 31)))
            print("cpuid(7): ebx %#x -> %#x (AVX512VL masked)" % (ebx, ebx & ~(1 << 31)))
        continue
    if "ret" in insn.split(":")[-1].split()[:1]:
        break
    gdb.execute("stepi")
slot = gdb.parse_and_eval("*(void**)&%s_dispatched" % iface)
print("BOUND %s -> %s" % (iface, gdb.execute("info symbol %d" % int(slot), to_string=True).strip()))
gdb.execute("kill")
