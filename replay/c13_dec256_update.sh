#!/bin/sh
# usage: c13_dec256_update.sh <repo-tree>   (builds a FIPS static library in a scratch copy; removes it afterwards)
set -e
SRC=${1:-/repo}
W=$(mktemp -d /tmp/c13replay.XXXXXX)
trap 'rm -rf "$W"' EXIT
rsync -a --exclude .git --exclude '*.o' --exclude '*.lo' --exclude .libs "$SRC"/ "$W"/r/
make -C "$W/r" -f Makefile.unx -j16 FIPS_MODE=y lib >/dev/null 2>&1
cc -g -I"$W/r/include" -o "$W/t" "$(dirname "$0")/c13_dec256_update.c" "$W/r/bin/isa-l_crypto.a"
for w in 1 2; do
  echo "== isal_aes_gcm_dec_$( [ $w = 1 ] && echo 128 || echo 256)_update as the first library call"
  gdb -q -batch -ex 'break printf' -ex "run $w" -ex 'printf "self_test_status=%d (2 = self-tests never ran)\n", *(int*)&self_test_status' -ex continue "$W/t" 2>/dev/null | grep -E 'self_test_status=|ret='
done
