/* Replay for C14: key material left in vector registers / dead stack by AES entry points of a SAFE_DATA build.
 * Each probe calls the real function and then inspects xmm registers (captured by inline asm right after the
 * call) or the dead stack below the caller's frame.  Exit status = number of leaks found. */
#include <stdio.h>
#include <stdint.h>
#include <string.h>
#include "isal_crypto_api.h"
#include "aes_keyexp.h"
#include "aes_xts.h"
#include "aes_gcm.h"
#include "aes_cbc.h"

struct xmms { uint8_t r[16][16]; };
#define CAPTURE(x) __asm__ __volatile__( \
        "movdqu %%xmm0, 0(%0)\n movdqu %%xmm1, 16(%0)\n movdqu %%xmm2, 32(%0)\n movdqu %%xmm3, 48(%0)\n" \
        "movdqu %%xmm4, 64(%0)\n movdqu %%xmm5, 80(%0)\n movdqu %%xmm6, 96(%0)\n movdqu %%xmm7, 112(%0)\n" \
        "movdqu %%xmm8, 128(%0)\n movdqu %%xmm9, 144(%0)\n movdqu %%xmm10, 160(%0)\n movdqu %%xmm11, 176(%0)\n" \
        "movdqu %%xmm12, 192(%0)\n movdqu %%xmm13, 208(%0)\n movdqu %%xmm14, 224(%0)\n movdqu %%xmm15, 240(%0)\n" \
        : : "r"((x)->r) : "memory")
#define SCRUB() __asm__ __volatile__("pxor %%xmm0,%%xmm0\n pxor %%xmm1,%%xmm1\n pxor %%xmm2,%%xmm2\n pxor %%xmm3,%%xmm3\n pxor %%xmm4,%%xmm4\n pxor %%xmm5,%%xmm5\n" \
        "pxor %%xmm6,%%xmm6\n pxor %%xmm7,%%xmm7\n pxor %%xmm8,%%xmm8\n pxor %%xmm9,%%xmm9\n pxor %%xmm10,%%xmm10\n pxor %%xmm11,%%xmm11\n pxor %%xmm12,%%xmm12\n pxor %%xmm13,%%xmm13\n pxor %%xmm14,%%xmm14\n pxor %%xmm15,%%xmm15\n" \
        : : : "xmm0","xmm1","xmm2","xmm3","xmm4","xmm5","xmm6","xmm7","xmm8","xmm9","xmm10","xmm11","xmm12","xmm13","xmm14","xmm15")

static int find_in_regs(const struct xmms *x, const uint8_t *pat, const char *what, const char *fn)
{
        for (int i = 0; i < 16; i++)
                if (!memcmp(x->r[i], pat, 16)) { printf("LEAK %-34s xmm%d holds %s\n", fn, i, what); return 1; }
        return 0;
}

/* scan the dead stack below the current frame (noinline so that the callee frames are really below us) */
static __attribute__((noinline)) int find_in_dead_stack(const uint8_t *pat, const char *what, const char *fn)
{
        volatile uint8_t *sp;
        __asm__ __volatile__("mov %%rsp, %0" : "=r"(sp));
        for (long off = 16; off < 8192; off++) {
                volatile uint8_t *p = sp - off;
                int eq = 1;
                for (int k = 0; k < 16 && eq; k++) eq = p[k] == pat[k];
                if (eq) { printf("LEAK %-34s dead stack at rsp-%ld holds %s\n", fn, off, what); return 1; }
        }
        return 0;
}
static __attribute__((noinline)) void scrub_dead_stack(void)
{
        volatile uint8_t buf[8192];
        for (unsigned i = 0; i < sizeof buf; i++) buf[i] = 0x5c;
}

extern void _aes_keyexp_128_sse(const uint8_t *, uint8_t *, uint8_t *);
extern void _aes_keyexp_256_avx(const uint8_t *, uint8_t *, uint8_t *);
extern void _XTS_AES_128_enc_sse(uint8_t *k2, uint8_t *k1, uint8_t *tw, uint64_t n, const uint8_t *in, uint8_t *out);
extern void _XTS_AES_256_dec_avx(uint8_t *k2, uint8_t *k1, uint8_t *tw, uint64_t n, const uint8_t *in, uint8_t *out);
extern void _aes_gcm_init_128_avx_gen2(const struct isal_gcm_key_data *, struct isal_gcm_context_data *, uint8_t *iv, const uint8_t *aad, uint64_t aadlen);

int main(void)
{
        int leaks = 0;
        static uint8_t key[32], k2[32], tw[16], in[64], out[64], enc[240] __attribute__((aligned(16))), dec[240] __attribute__((aligned(16)));
        struct xmms x;
        for (int i = 0; i < 32; i++) { key[i] = 0xa0 + 3 * i; k2[i] = 0x11 + 7 * i; }
        for (int i = 0; i < 16; i++) tw[i] = 0xc3 ^ i;

        /* 1. key expansion: last round key stays in xmm1 */
        SCRUB(); _aes_keyexp_128_sse(key, enc, dec); CAPTURE(&x);
        leaks += find_in_regs(&x, enc + 160, "the last AES-128 round key", "_aes_keyexp_128_sse");
        SCRUB(); _aes_keyexp_256_avx(key, enc, dec); CAPTURE(&x);
        leaks += find_in_regs(&x, enc + 224, "the last AES-256 round key", "_aes_keyexp_256_avx") | find_in_regs(&x, enc + 208, "an AES-256 round key", "_aes_keyexp_256_avx");

        /* 2. XTS: encrypted tweak E_k2(T) left in the function's dead stack frame */
        uint8_t et[16], zero[16] = { 0 }, ks[240] __attribute__((aligned(16))), kd[240] __attribute__((aligned(16)));
        isal_aes_keyexp_128(k2, ks, kd);
        isal_aes_cbc_enc_128(tw, zero, ks, et, 16);           /* AES-ECB(k2, tweak) via CBC with a zero IV */
        scrub_dead_stack(); _XTS_AES_128_enc_sse(k2, key, tw, 64, in, out);
        leaks += find_in_dead_stack(et, "the encrypted tweak E_k2(T)", "_XTS_AES_128_enc_sse");
        isal_aes_keyexp_256(k2, ks, kd);
        isal_aes_cbc_enc_256(tw, zero, ks, et, 16);
        scrub_dead_stack(); _XTS_AES_256_dec_avx(k2, key, tw, 64, in, out);
        leaks += find_in_dead_stack(et, "the encrypted tweak E_k2(T)", "_XTS_AES_256_dec_avx");

        /* 3. GCM gen2 init: GHASH key left in xmm1 */
        static struct isal_gcm_key_data gk; static struct isal_gcm_context_data gc; uint8_t iv[12] = { 1,2,3,4,5,6,7,8,9,10,11,12 };
        isal_aes_gcm_pre_128(key, &gk);
        SCRUB(); _aes_gcm_init_128_avx_gen2(&gk, &gc, iv, in, 20); CAPTURE(&x);
        leaks += find_in_regs(&x, gk.shifted_hkey_1, "the GHASH key (shifted_hkey_1)", "_aes_gcm_init_128_avx_gen2");

        /* 4. GCM key pre-computation (C): decryption schedule, whose last entry is the raw key, left on the stack */
        scrub_dead_stack(); isal_aes_gcm_pre_128(key, &gk);
        leaks += find_in_dead_stack(key, "the raw AES-128 key (end of the unused decryption schedule)", "isal_aes_gcm_pre_128");

        printf(leaks ? "DEFECT REPRODUCED: %d leak(s)\n" : "no key material found (%d)\n", leaks);
        return leaks;
}
