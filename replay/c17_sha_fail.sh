#!/bin/sh
# Replay for C17/P6: when the SHA self-test fails it returns -1, the published status becomes 0xffffffff, which
# asm_check_self_tests_status treats as "not done" (bit 1 set) - every later call re-runs the suites.
SRC=${1:-/repo}
W=$(mktemp -d /tmp/c17replay.XXXXXX); trap 'rm -rf "$W"' EXIT
rsync -a --exclude .git --exclude '*.o' --exclude '*.lo' --exclude .libs "$SRC"/ "$W"/r/
make -C "$W/r" -f Makefile.unx -j16 FIPS_MODE=y DEBUG=y lib >/dev/null 2>&1 || make -C "$W/r" -f Makefile.unx -j16 FIPS_MODE=y lib >/dev/null 2>&1
cat > $W/t.c <<'EOC'
#include <stdio.h>
#include "isal_crypto_api.h"
int main(void){ int a=isal_self_tests(), b=isal_self_tests(), c=isal_self_tests(); printf("isal_self_tests returned %d %d %d\n",a,b,c); return 0; }
EOC
cc -g -I"$W/r/include" -o "$W/t" "$W/t.c" "$W/r/bin/isa-l_crypto.a" || exit 2
FAILVAL=$(grep -A30 '^_sha1_self_test' "$W/r/fips/sha_self_tests.c" | grep -m1 -o 'return -\?[0-9]*;' | tr -dc '0-9-')
echo "failure value used by _sha1_self_test in this tree: $FAILVAL"
FAILVAL=$FAILVAL gdb -q -batch -x "$(dirname "$0")/c17_sha_fail.py" "$W/t" 2>/dev/null | grep -E "AES suite|isal_self_tests returned"
