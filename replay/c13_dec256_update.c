/* Replay for C13 / R13.1: in a FIPS_MODE build, isal_aes_gcm_dec_256_update did cryptographic
 * work although the self-tests had not run (no gate).  Observed through the output buffer and the
 * library's private status word (read by gdb in the driver script; 2 = tests not run yet). */
#include <stdio.h>
#include <string.h>
#include <stdint.h>
#include "isal_crypto_api.h"
#include "aes_gcm.h"

int main(int argc, char **argv)
{
        static struct isal_gcm_key_data key;       /* all-zero key schedule: precomp not needed to see the effect */
        static struct isal_gcm_context_data ctx;
        uint8_t in[32], out[32];
        memset(in, 0x5a, sizeof in);
        memset(out, 0xee, sizeof out);
        int which = argc > 1 ? argv[1][0] : '2';
        int r = which == '1' ? isal_aes_gcm_dec_128_update(&key, &ctx, out, in, 32)
                             : isal_aes_gcm_dec_256_update(&key, &ctx, out, in, 32);
        int touched = 0;
        for (int i = 0; i < 32; i++) touched |= out[i] != 0xee;
        printf("ret=%d output_touched=%d\n", r, touched);
        return 0;
}
