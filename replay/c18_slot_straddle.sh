#!/bin/sh
# Replay for C18/R18.3: the dispatch slots live in sections with alignment 4, so an application link of the
# static archive can place an 8-byte slot across a cache-line boundary (address = 60 mod 64); the first-call
# store `mov [slot], rsi` and the racing `jmp [slot]` of another thread are then not single-copy atomic.
# This script produces such a link and prints the slot's address.
R=${1:-/repo}
D=$(mktemp -d /tmp/c18replay.XXXXXX); trap 'rm -rf "$D"' EXIT
cat > $D/main.c <<'EOC'
#include "sha1_mb.h"
#include <stdlib.h>
int main(void){ ISAL_SHA1_HASH_CTX_MGR *m; if (posix_memalign((void**)&m,16,sizeof *m)) return 1; isal_sha1_ctx_mgr_init(m); return 0; }
EOC
found=0
for n in 4 12 20 28 36 44 52 60 68 76 84 92 100 108 116 124; do
  printf 'char pad_%s[%s] __attribute__((section(".data"), aligned(4))) = {1};\n' $n $n > $D/pad.c
  cc -c -o $D/pad.o $D/pad.c
  cc -I$R/include -o $D/t $D/pad.o $D/main.c $R/.libs/libisal_crypto.a 2>/dev/null || exit 2
  for s in _sha1_ctx_mgr_init_dispatched _sha1_ctx_mgr_submit_dispatched _sha1_ctx_mgr_flush_dispatched; do
    a=$(nm $D/t | awk -v s=$s '$3==s{print $1}')
    [ -z "$a" ] && continue
    m=$(( 0x$a % 64 )); m8=$(( 0x$a % 8 ))
    if [ $m8 -ne 0 ]; then echo "pad=$n  $s at 0x$a : address mod 8 = $m8, mod 64 = $m"; fi
    if [ $m -gt 56 ]; then echo "  -> STRADDLES a cache line (bytes $m..$((m+7)) of a 64-byte line)"; found=1; fi
  done
  [ $found = 1 ] && break
done
[ $found = 1 ] && echo "DEFECT REPRODUCED: a slot straddles a cache line in this link" || echo "no straddling slot produced"
