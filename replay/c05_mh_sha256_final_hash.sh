#!/bin/sh
# Replay for C05 R05.4: the final "standard SHA-256 over the 16 segment digests" of mh_sha256.
# Builds the library with the real Makefile.unx flags from a scratch copy of the tree, calls the library's
# sha256_for_mh_sha256() / _sha1_for_mh_sha1() directly and compares with Python's hashlib.
R=${1:-/repo}; W=/var/tmp/c05r_$$; rm -rf $W; rsync -a --exclude .git --exclude '*.o' --exclude '*.lo' --exclude .libs --exclude bin $R/ $W/ || exit 2
( cd $W && make -f Makefile.unx -j16 lib >/dev/null 2>&1 ) || { echo build failed; rm -rf $W; exit 2; }
gcc -O1 -o $W/replay /verif/replay/c05_mh_sha256_final_hash.c $W/bin/isa-l_crypto.a || { rm -rf $W; exit 2; }
$W/replay > $W/out.txt
python3 - $W/out.txt <<'PY'
import hashlib, sys
d = bytes((i * 7 + 1) & 0xff for i in range(512))
bad = 0
for l in open(sys.argv[1]):
    alg, n, h = l.split(); n = int(n)
    ref = (hashlib.sha256 if alg == 'sha256' else hashlib.sha1)(d[:n]).hexdigest()
    ok = ref == h
    bad += not ok
    print("%-6s len=%-3d %s" % (alg, n, "equals the standard hash" if ok else "DIFFERS from the standard hash (library %s..., standard %s...)" % (h[:16], ref[:16])))
print("DEFECT REPRODUCED" if bad else "no difference")
sys.exit(1 if bad else 0)
PY
rc=$?; rm -rf $W; exit $rc
