/* Replay for C11 / R11.2 on the portable base family (what a CPU without SSE4.1 binds to).  The dispatch
 * slots of the statically linked library are pointed at the base implementations, exactly what
 * the dispatcher would do on such a CPU; every call then goes through the public isal_ API. */
#include <stdio.h>
#include <stdlib.h>
#include "isal_crypto_api.h"
#include "sha1_mb.h"
/* the dispatch slots are local symbols, so the base family is called through its internal entry points and
 * the isal_ wrapper's mapping (sha1_mb.c: non-NONE error of the handed-back context -> API code) is applied by hand */
extern void _sha1_ctx_mgr_init_base(ISAL_SHA1_HASH_CTX_MGR *);
extern ISAL_SHA1_HASH_CTX *_sha1_ctx_mgr_submit_base(ISAL_SHA1_HASH_CTX_MGR *, ISAL_SHA1_HASH_CTX *, const void *, uint32_t, ISAL_HASH_CTX_FLAG);
static int wrapper_rc(ISAL_SHA1_HASH_CTX *cp)
{
        if (cp != NULL && cp->error != ISAL_HASH_CTX_ERROR_NONE) {
                if (cp->error == ISAL_HASH_CTX_ERROR_INVALID_FLAGS) return ISAL_CRYPTO_ERR_INVALID_FLAGS;
                if (cp->error == ISAL_HASH_CTX_ERROR_ALREADY_PROCESSING) return ISAL_CRYPTO_ERR_ALREADY_PROCESSING;
                if (cp->error == ISAL_HASH_CTX_ERROR_ALREADY_COMPLETED) return ISAL_CRYPTO_ERR_ALREADY_COMPLETED;
        }
        return 0;
}
int main(void)
{
        ISAL_SHA1_HASH_CTX_MGR *mgr = NULL;
        ISAL_SHA1_HASH_CTX c;
        static unsigned char buf[256];
        if (posix_memalign((void **) &mgr, 16, sizeof *mgr)) return 2;
        _sha1_ctx_mgr_init_base(mgr);
        isal_hash_ctx_init(&c);
        int r1 = wrapper_rc(_sha1_ctx_mgr_submit_base(mgr, &c, buf, 64, ISAL_HASH_FIRST));
        int r2 = wrapper_rc(_sha1_ctx_mgr_submit_base(mgr, &c, buf, 64, (ISAL_HASH_CTX_FLAG) 8));
        int r3 = wrapper_rc(_sha1_ctx_mgr_submit_base(mgr, &c, buf, 64, ISAL_HASH_UPDATE));
        int r4 = wrapper_rc(_sha1_ctx_mgr_submit_base(mgr, &c, buf, 64, ISAL_HASH_LAST));
        printf("FIRST rc=%d; bad flags rc=%d (expected %d); valid UPDATE rc=%d (expected 0); valid LAST rc=%d (expected 0); ctx.error=%d\n",
               r1, r2, ISAL_CRYPTO_ERR_INVALID_FLAGS, r3, r4, (int) c.error);
        printf((r3 || r4) ? "DEFECT REPRODUCED\n" : "no defect observed\n");
        return (r3 || r4) ? 1 : 0;
}
