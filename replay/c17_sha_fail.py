# gdb script: make the SHA-1 known-answer test report failure (as a corrupted binary would) and count how often
# the AES suite is entered over three calls of isal_self_tests().  Exactly once is required.
import gdb
gdb.execute("set pagination off")
count = {"aes": 0}
class AesBp(gdb.Breakpoint):
    def stop(self):
        count["aes"] += 1
        return False
class ShaFin(gdb.Breakpoint):
    def stop(self):
        return True
AesBp("_aes_self_tests")
b = gdb.Breakpoint("_sha1_self_test")
gdb.execute("run")
while True:
    try:
        frame = gdb.selected_frame()
    except gdb.error:
        break
    if frame.name() == "_sha1_self_test":
        gdb.execute("finish", to_string=True)
        # force the failure value this function itself uses (see its source): the current return statement
        gdb.execute("set $rax = (long)(int)%s" % __import__("os").environ.get("FAILVAL", "-1"))
        try:
            gdb.execute("continue")
        except gdb.error:
            break
    else:
        break
print("AES suite entered %d time(s) during 3 calls of isal_self_tests()" % count["aes"])
