#!/bin/sh
# usage: c02_aad_len_2p29.sh [repo]   (needs a CPU with VAES/AVX-512 for the 64-bit reference family and ~600 MB of memory)
R=${1:-/repo}; W=/var/tmp/c02r_$$; rm -rf $W; rsync -a --exclude .git --exclude '*.o' --exclude '*.lo' --exclude .libs --exclude bin $R/ $W/ || exit 2
( cd $W && make -f Makefile.unx -j16 lib >/dev/null 2>&1 ) || { echo build failed; rm -rf $W; exit 2; }
gcc -O1 -I$W/include -o $W/replay /verif/replay/c02_aad_len_2p29.c $W/bin/isa-l_crypto.a || { rm -rf $W; exit 2; }
echo "-- control: aad_len = 2^29 - 16 (fits 32 bits)"; $W/replay $(( (1<<29) - 16 )) | tail -1
echo "-- aad_len = 2^29"; $W/replay $((1<<29)); rc=$?
rm -rf $W; exit $rc
