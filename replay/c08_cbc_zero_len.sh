#!/bin/sh
# usage: c08_cbc_zero_len.sh [repo]   builds the library from a scratch copy of the tree and runs the replay
R=${1:-/repo}; W=/var/tmp/c08z_$$; rm -rf $W; rsync -a --exclude .git $R/ $W/ || exit 2
( cd $W && make -f Makefile.unx -j16 lib >/dev/null 2>&1 ) || { echo build failed; rm -rf $W; exit 2; }
gcc -O1 -I$W/include -o $W/replay /verif/replay/c08_cbc_zero_len.c $W/bin/isa-l_crypto.a || { rm -rf $W; exit 2; }
$W/replay; rc=$?; rm -rf $W; exit $rc
