#!/bin/sh
# Replay for C12/R12.1: a CPU (or VM) with ZMM state enabled, AVX2, SHA / all group-2 bits but ONE AVX-512 group-1
# bit missing binds an implementation full of EVEX instructions.  Uses the real dispatcher code of the built
# library under gdb; only the cpuid(7).ebx result is altered (AVX512VL cleared).
# usage: c12_partial_g1.sh [repo-with-built-.libs]   (needs a host with AVX-512+SHA / VAES to reach that rung)
R=${1:-/repo}
D=$(mktemp -d /tmp/c12replay.XXXXXX); trap 'rm -rf "$D"' EXIT
cat > $D/t.c <<'EOC'
#include <stdlib.h>
#include "sha1_mb.h"
#include "aes_gcm.h"
int main(void){ ISAL_SHA1_HASH_CTX_MGR *m; ISAL_SHA1_HASH_CTX c, *o; static unsigned char b[64];
 posix_memalign((void**)&m,16,sizeof *m); isal_sha1_ctx_mgr_init(m); isal_hash_ctx_init(&c);
 isal_sha1_ctx_mgr_submit(m,&c,&o,b,64,ISAL_HASH_ENTIRE);
 static struct isal_gcm_key_data k; static unsigned char key[16]; isal_aes_gcm_pre_128(key,&k); return 0; }
EOC
cc -g -I$R/include -o $D/t $D/t.c $R/.libs/libisal_crypto.a || exit 2
for i in _sha1_ctx_mgr_submit _aes_gcm_precomp_128; do
  IFACE=$i gdb -q -batch -x "$(dirname "$0")/c12_partial_g1.py" $D/t 2>/dev/null | grep -E "^cpuid|^BOUND"
done
