/* Replay for C09 R09.6: the three scan-loop implementations must agree for a bound of 2^31 or more.
 * Needs ~4 GiB of memory.  The functions are declared with a 32-bit unsigned bound; the ABI is the same for the
 * original `int` declaration. */
#include <stdio.h>
#include <stdint.h>
#include <stdlib.h>
#include <string.h>
#include "rolling_hashx.h"
typedef uint64_t (*ru_t)(uint32_t *idx, uint32_t max_idx, uint64_t *t1, uint64_t *t2, uint8_t *b1, uint8_t *b2, uint64_t h, uint64_t mask, uint64_t trigger);
uint64_t _rolling_hash2_run_until_base(uint32_t *, uint32_t, uint64_t *, uint64_t *, uint8_t *, uint8_t *, uint64_t, uint64_t, uint64_t);
uint64_t _rolling_hash2_run_until_00(uint32_t *, uint32_t, uint64_t *, uint64_t *, uint8_t *, uint8_t *, uint64_t, uint64_t, uint64_t);
uint64_t _rolling_hash2_run_until_04(uint32_t *, uint32_t, uint64_t *, uint64_t *, uint8_t *, uint8_t *, uint64_t, uint64_t, uint64_t);
int main(void)
{
        uint8_t *buf = malloc(0x90000000ull);
        if (!buf) { puts("cannot allocate the buffer"); return 2; }
        uint64_t x = 88172645463325252ull;
        for (uint64_t i = 0; i < 0x90000000ull; i += 8) { x ^= x << 13; x ^= x >> 7; x ^= x << 17; memcpy(buf + i, &x, 8); }
        struct isal_rh_state2 *st;
        if (posix_memalign((void **) &st, 64, sizeof *st)) return 2;
        isal_rolling_hash2_init(st, 32);
        struct { const char *n; ru_t f; } v[3] = { { "base", _rolling_hash2_run_until_base }, { "_00 (sse)", _rolling_hash2_run_until_00 }, { "_04 (avx2)", _rolling_hash2_run_until_04 } };
        uint32_t lens[] = { 0x7ffff000u, 0x80001000u };
        int bad = 0;
        for (int l = 0; l < 2; l++) {
                uint32_t got[3];
                for (int k = 0; k < 3; k++) {
                        uint32_t idx = 32;
                        uint64_t h = v[k].f(&idx, lens[l], st->table1, st->table2, buf + 32, buf, 0x1234, 0xffffffff, 0x12345678);
                        got[k] = idx;
                        printf("%-10s bound=%#x -> scanned up to %#x (hash %016llx)\n", v[k].n, lens[l], idx, (unsigned long long) h);
                }
                if (got[0] != got[1] || got[0] != got[2]) bad++;
        }
        puts(bad ? "DEFECT REPRODUCED: the base scan loop consumes nothing for a bound >= 2^31" : "all three implementations agree");
        return bad ? 1 : 0;
}
