/* Replay for C08 R08.7: a zero-length AES-CBC call must touch neither buffer.
 * in/out point at the first byte of an inaccessible page (a zero-length buffer that "begins exactly at an
 * unmapped page"); any read or write through them faults.  Build: see c08_cbc_zero_len.sh */
#include <stdio.h>
#include <stdint.h>
#include <string.h>
#include <signal.h>
#include <setjmp.h>
#include <sys/mman.h>
#include <unistd.h>
#include "aes_cbc.h"
#include "aes_keyexp.h"

void _aes_cbc_enc_128_x4(void *in, uint8_t *iv, uint8_t *keys, void *out, uint64_t len);
void _aes_cbc_enc_128_x8(void *in, uint8_t *iv, uint8_t *keys, void *out, uint64_t len);
void _aes_cbc_enc_192_x4(void *in, uint8_t *iv, uint8_t *keys, void *out, uint64_t len);
void _aes_cbc_enc_256_x8(void *in, uint8_t *iv, uint8_t *keys, void *out, uint64_t len);
void _aes_cbc_dec_128_sse(void *in, uint8_t *iv, uint8_t *keys, void *out, uint64_t len);
void _aes_cbc_dec_128_avx(void *in, uint8_t *iv, uint8_t *keys, void *out, uint64_t len);
void _aes_cbc_dec_256_sse(void *in, uint8_t *iv, uint8_t *keys, void *out, uint64_t len);
void _aes_cbc_dec_128_vaes_avx512(void *in, uint8_t *iv, uint8_t *keys, void *out, uint64_t len);

static sigjmp_buf jb;
static void on_segv(int s) { (void) s; siglongjmp(jb, 1); }

typedef void (*body_t)(void *, uint8_t *, uint8_t *, void *, uint64_t);

int main(void)
{
        long pg = sysconf(_SC_PAGESIZE);
        uint8_t *m = mmap(NULL, 4 * pg, PROT_READ | PROT_WRITE, MAP_PRIVATE | MAP_ANONYMOUS, -1, 0);
        mprotect(m + pg, pg, PROT_NONE);
        mprotect(m + 3 * pg, pg, PROT_NONE);
        uint8_t *in = m + pg, *out = m + 3 * pg;       /* zero-length buffers at the start of unmapped pages */
        static struct isal_cbc_key_data kd __attribute__((aligned(16)));
        static uint8_t iv[16] __attribute__((aligned(16)));
        uint8_t key[32] = { 1, 2, 3 };
        isal_aes_keyexp_128(key, kd.enc_keys, kd.dec_keys);
        signal(SIGSEGV, on_segv);
        struct { const char *name; body_t f; uint8_t *keys; } t[] = {
                { "_aes_cbc_enc_128_x4", _aes_cbc_enc_128_x4, kd.enc_keys }, { "_aes_cbc_enc_128_x8", _aes_cbc_enc_128_x8, kd.enc_keys },
                { "_aes_cbc_enc_192_x4", _aes_cbc_enc_192_x4, kd.enc_keys }, { "_aes_cbc_enc_256_x8", _aes_cbc_enc_256_x8, kd.enc_keys },
                { "_aes_cbc_dec_128_sse", _aes_cbc_dec_128_sse, kd.dec_keys }, { "_aes_cbc_dec_128_avx", _aes_cbc_dec_128_avx, kd.dec_keys },
                { "_aes_cbc_dec_256_sse", _aes_cbc_dec_256_sse, kd.dec_keys }, { "_aes_cbc_dec_128_vaes_avx512", _aes_cbc_dec_128_vaes_avx512, kd.dec_keys },
        };
        int bad = 0;
        for (unsigned k = 0; k < sizeof(t) / sizeof(t[0]); k++) {
                if (sigsetjmp(jb, 1) == 0) {
                        t[k].f(in, iv, t[k].keys, out, 0);
                        printf("%-30s len=0: returned without touching in/out\n", t[k].name);
                } else {
                        printf("%-30s len=0: FAULT - accessed memory through in/out\n", t[k].name);
                        bad++;
                }
        }
        if (sigsetjmp(jb, 1) == 0) {
                int rc = isal_aes_cbc_enc_128(in, iv, kd.enc_keys, out, 0);
                printf("isal_aes_cbc_enc_128 (public, dispatched) len=0: rc=%d\n", rc);
        } else {
                printf("isal_aes_cbc_enc_128 (public, dispatched) len=0: FAULT\n");
                bad++;
        }
        printf("%s\n", bad ? "DEFECT REPRODUCED" : "no fault");
        return bad ? 1 : 0;
}
