/* Replay for C09 (defect outside the clauses the static check decides; found while triaging seeded changes):
 * when a hit falls on the very last byte of a run and (max_len - w) is odd, both assembly scan loops handle that
 * byte in their one-byte tail, which advances the index without testing the hash; _rolling_hash2_run then
 * reports offset = max_len + 1 (> max_len), copies its history window from one byte past the buffer and every
 * later boundary shifts.  The portable C loop reports offset = max_len. */
#include <stdio.h>
#include <stdlib.h>
#include <string.h>
#include <stdint.h>
#include "rolling_hashx.h"

int main(void)
{
        enum { W = 32, N = 1 << 16 };
        static uint8_t buf[N + 64];
        struct isal_rh_state2 *st;
        int bad = 0, tried = 0;
        if (posix_memalign((void **) &st, 64, sizeof *st)) return 2;
        srand(7);
        for (int i = 0; i < N + 64; i++) buf[i] = rand();
        for (int trial = 0; trial < 400 && tried < 40; trial++) {
                uint8_t *p = buf + (rand() % 1024);
                uint32_t off = 0, off2 = 0; int match = 0, match2 = 0;
                uint32_t mask = 0x3f, trig = rand() & mask;
                isal_rolling_hash2_init(st, W);
                isal_rolling_hash2_reset(st, p);
                isal_rolling_hash2_run(st, p + W, 40000, mask, trig, &off, &match);      /* reference: where is the first hit */
                if (match != ISAL_FINGERPRINT_RET_HIT || off <= W + 2) continue;
                if (((off - W) & 1) == 0) continue;                                     /* want the hit byte in the one-byte tail */
                tried++;
                isal_rolling_hash2_init(st, W);
                isal_rolling_hash2_reset(st, p);
                isal_rolling_hash2_run(st, p + W, off, mask, trig, &off2, &match2);      /* same stream, run ends exactly on the hit */
                if (off2 != off || match2 != ISAL_FINGERPRINT_RET_HIT) {
                        if (bad < 3) printf("stream %d: first hit at offset %u; a run with max_len=%u reports match=%d offset=%u%s\n", trial, off, off, match2, off2, off2 > off ? "  (> max_len)" : "");
                        bad++;
                }
        }
        printf("%d of %d runs ending exactly on a hit mis-report it\n", bad, tried);
        printf(bad ? "DEFECT REPRODUCED\n" : "no defect observed\n");
        return bad ? 1 : 0;
}
