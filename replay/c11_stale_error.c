/* Replay for C11.
 * (a) R11.3: context A is in flight; a second submit of A is (correctly) rejected with
 *     ALREADY_PROCESSING, which is written into A->error.  Later *valid* submits of other contexts return 0
 *     until the one that happens to hand A back: that valid call is reported as failed (2012).
 * (b) R11.2 (base family only, forced through the legacy-internal symbol is not possible from outside, so
 *     this half only shows on a CPU that dispatches to *_base): FIRST ok -> bad flags -> valid UPDATE.
 */
#include <stdio.h>
#include <stdlib.h>
#include <string.h>
#include "isal_crypto_api.h"
#include "sha1_mb.h"

#define NCTX 40
int main(void)
{
        ISAL_SHA1_HASH_CTX_MGR *mgr = NULL;
        static ISAL_SHA1_HASH_CTX ctx[NCTX];
        ISAL_SHA1_HASH_CTX *out = NULL;
        static unsigned char buf[4096];
        int rc, bad = 0;
        if (posix_memalign((void **) &mgr, 16, sizeof *mgr)) return 2;
        isal_sha1_ctx_mgr_init(mgr);
        for (int i = 0; i < NCTX; i++) isal_hash_ctx_init(&ctx[i]);

        rc = isal_sha1_ctx_mgr_submit(mgr, &ctx[0], &out, buf, 128, ISAL_HASH_FIRST);
        printf("submit A FIRST              -> rc=%d out=%p (A stays in flight)\n", rc, (void *) out);
        rc = isal_sha1_ctx_mgr_submit(mgr, &ctx[0], &out, buf, 64, ISAL_HASH_UPDATE);
        printf("submit A again (invalid)    -> rc=%d (expected %d)\n", rc, ISAL_CRYPTO_ERR_ALREADY_PROCESSING);
        for (int i = 1; i < NCTX; i++) {
                rc = isal_sha1_ctx_mgr_submit(mgr, &ctx[i], &out, buf, 2048, ISAL_HASH_ENTIRE);
                if (rc != 0) {
                        printf("VALID submit of ctx[%d] ENTIRE -> rc=%d  (handed back ctx[%ld], whose stale error is %d)\n",
                               i, rc, out ? (long) (out - ctx) : -1L, out ? (int) out->error : 0);
                        bad++;
                        break;
                }
        }
        while (isal_sha1_ctx_mgr_flush(mgr, &out) == 0 && out != NULL)
                ;
        /* (b) */
        ISAL_SHA1_HASH_CTX c;
        isal_hash_ctx_init(&c);
        rc = isal_sha1_ctx_mgr_submit(mgr, &c, &out, buf, 64, ISAL_HASH_FIRST);
        while (isal_sha1_ctx_mgr_flush(mgr, &out) == 0 && out != NULL)
                ;
        rc = isal_sha1_ctx_mgr_submit(mgr, &c, &out, buf, 64, (ISAL_HASH_CTX_FLAG) 8);
        printf("submit with bad flags       -> rc=%d (expected %d)\n", rc, ISAL_CRYPTO_ERR_INVALID_FLAGS);
        rc = isal_sha1_ctx_mgr_submit(mgr, &c, &out, buf, 64, ISAL_HASH_UPDATE);
        printf("following VALID UPDATE      -> rc=%d (0 expected; non-zero only with the base family)\n", rc);
        printf(bad ? "DEFECT REPRODUCED\n" : "no defect observed\n");
        return bad ? 1 : 0;
}
