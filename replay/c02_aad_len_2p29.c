/* Replay for C02 R02.6: the GHASH length block must carry len(A) as a 64-bit bit count.
 * AAD of 2^29 bytes (= 2^32 bits): the sse / avx_gen2 / avx_gen4 families move only the low 32 bits of
 * len(A)*8 into the length block, the vaes_avx512 family moves 64.  All four are called directly with the same
 * key, IV, AAD and a 16-byte message; the tags must agree (and equal SP 800-38D). */
#include <stdio.h>
#include <stdint.h>
#include <stdlib.h>
#include <string.h>
#include "aes_gcm.h"

#define DECL(fam) \
  void _aes_gcm_precomp_128_##fam(struct isal_gcm_key_data *); \
  void _aes_gcm_enc_128_##fam(const struct isal_gcm_key_data *, struct isal_gcm_context_data *, uint8_t *, const uint8_t *, uint64_t, uint8_t *, const uint8_t *, uint64_t, uint8_t *, uint64_t);
DECL(sse) DECL(avx_gen2) DECL(avx_gen4) DECL(vaes_avx512)
void _aes_keyexp_128_enc(const void *, void *);

typedef void (*pre_t)(struct isal_gcm_key_data *);
typedef void (*enc_t)(const struct isal_gcm_key_data *, struct isal_gcm_context_data *, uint8_t *, const uint8_t *, uint64_t, uint8_t *, const uint8_t *, uint64_t, uint8_t *, uint64_t);

int main(int argc, char **argv)
{
        uint64_t aad_len = argc > 1 ? strtoull(argv[1], 0, 0) : (1ull << 29);
        uint8_t *aad = malloc(aad_len ? aad_len : 1);
        if (!aad) { puts("cannot allocate the AAD"); return 2; }
        for (uint64_t i = 0; i < aad_len; i += 4096) aad[i] = (uint8_t) (i >> 12);
        uint8_t key[16] = { 1, 2, 3, 4, 5, 6, 7, 8, 9, 10, 11, 12, 13, 14, 15, 16 }, iv[12] = { 9, 8, 7, 6, 5, 4, 3, 2, 1, 0, 1, 2 };
        uint8_t pt[16] = "0123456789abcde", ct[16], tag[4][16];
        struct { const char *n; pre_t pre; enc_t enc; } fam[4] = {
                { "sse", _aes_gcm_precomp_128_sse, _aes_gcm_enc_128_sse }, { "avx_gen2", _aes_gcm_precomp_128_avx_gen2, _aes_gcm_enc_128_avx_gen2 },
                { "avx_gen4", _aes_gcm_precomp_128_avx_gen4, _aes_gcm_enc_128_avx_gen4 }, { "vaes_avx512", _aes_gcm_precomp_128_vaes_avx512, _aes_gcm_enc_128_vaes_avx512 } };
        int bad = 0;
        for (int k = 0; k < 4; k++) {
                static struct isal_gcm_key_data kd __attribute__((aligned(64)));
                static struct isal_gcm_context_data cx __attribute__((aligned(64)));
                memset(&kd, 0, sizeof kd);
                _aes_keyexp_128_enc(key, kd.expanded_keys);
                fam[k].pre(&kd);
                fam[k].enc(&kd, &cx, ct, pt, 16, iv, aad, aad_len, tag[k], 16);
                printf("%-12s aad_len=%llu tag=", fam[k].n, (unsigned long long) aad_len);
                for (int i = 0; i < 16; i++) printf("%02x", tag[k][i]);
                printf("\n");
        }
        for (int k = 0; k < 3; k++)
                if (memcmp(tag[k], tag[3], 16)) { printf("%s disagrees with vaes_avx512 (64-bit length block)\n", fam[k].n); bad++; }
        puts(bad ? "DEFECT REPRODUCED" : "all four families agree");
        return bad ? 1 : 0;
}
