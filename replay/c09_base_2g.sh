#!/bin/sh
R=${1:-/repo}; W=/var/tmp/c09r_$$; rm -rf $W; rsync -a --exclude .git --exclude '*.o' --exclude '*.lo' --exclude .libs --exclude bin $R/ $W/ || exit 2
( cd $W && make -f Makefile.unx -j16 lib >/dev/null 2>&1 ) || { echo build failed; rm -rf $W; exit 2; }
gcc -O1 -I$W/include -o $W/replay /verif/replay/c09_base_2g.c $W/bin/isa-l_crypto.a || { rm -rf $W; exit 2; }
$W/replay; rc=$?; rm -rf $W; exit $rc
