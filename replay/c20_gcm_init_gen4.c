/* Replay for C20/R20.1: _aes_gcm_init_{128,256}_avx_gen4 with aad_len == 0 stores xmm2 ^ xmm3 - two registers the
 * function never wrote on that path - into context_data.partial_block_enc_key ("vpxor xmm2, xmm3" where
 * "vpxor xmm2, xmm2" was meant).  Two calls with identical arguments but different caller register contents leave
 * different context objects behind. */
#include <stdio.h>
#include <string.h>
#include <stdint.h>
#include "aes_gcm.h"
extern void _aes_gcm_init_128_avx_gen4(const struct isal_gcm_key_data *, struct isal_gcm_context_data *, uint8_t *iv, const uint8_t *aad, uint64_t aadlen);
static void fill(uint64_t a, uint64_t b)
{
        __asm__ __volatile__("movq %0, %%xmm2\n pshufd $0x44, %%xmm2, %%xmm2\n movq %1, %%xmm3\n pshufd $0x44, %%xmm3, %%xmm3" : : "r"(a), "r"(b) : "xmm2", "xmm3");
}
int main(void)
{
        static struct isal_gcm_key_data k;
        static struct isal_gcm_context_data c1, c2;
        uint8_t key[16] = { 1, 2, 3 }, iv[12] = { 9, 8, 7 };
        isal_aes_gcm_pre_128(key, &k);
        memset(&c1, 0, sizeof c1); memset(&c2, 0, sizeof c2);
        fill(0x1111111111111111ull, 0x2222222222222222ull);
        _aes_gcm_init_128_avx_gen4(&k, &c1, iv, NULL, 0);
        fill(0xaaaaaaaaaaaaaaaaull, 0x5555555555555555ull);
        _aes_gcm_init_128_avx_gen4(&k, &c2, iv, NULL, 0);
        int diff = memcmp(&c1, &c2, sizeof c1) != 0;
        printf("partial_block_enc_key after init #1: %02x%02x%02x%02x...  after init #2: %02x%02x%02x%02x...\n",
               c1.partial_block_enc_key[0], c1.partial_block_enc_key[1], c1.partial_block_enc_key[2], c1.partial_block_enc_key[3],
               c2.partial_block_enc_key[0], c2.partial_block_enc_key[1], c2.partial_block_enc_key[2], c2.partial_block_enc_key[3]);
        printf(diff ? "DEFECT REPRODUCED: same arguments, different context object\n" : "contexts identical\n");
        return diff;
}
