; Positive control for C19: every function below violates exactly one rule and must be reported.
default rel
section .text
global ctl_clobber_rbx:function
ctl_clobber_rbx:            ; R19.2
	mov	rbx, rdi
	add	rax, rbx
	ret
global ctl_rsp_leak:function
ctl_rsp_leak:               ; R19.1
	sub	rsp, 24
	mov	[rsp], rdi
	add	rsp, 16
	ret
global ctl_std:function
ctl_std:                    ; R19.3 (DF)
	std
	ret
global ctl_mxcsr:function
ctl_mxcsr:                  ; R19.3 (MXCSR)
	sub	rsp, 8
	mov	dword [rsp], 0x1f80
	ldmxcsr	[rsp]
	add	rsp, 8
	ret
global ctl_fpcw:function
ctl_fpcw:                   ; R19.3 (x87 control word)
	sub	rsp, 8
	mov	word [rsp], 0x37f
	fldcw	[rsp]
	add	rsp, 8
	ret
global ctl_smash:function
ctl_smash:                  ; R19.4
	mov	[rsp + 8], rdi
	ret
global ctl_join:function
ctl_join:                   ; R19.5
	test	rdi, rdi
	jz	.skip
	push	rsi
.skip:
	xor	eax, eax
	test	rdi, rdi
	jz	.out
	pop	rsi
.out:
	ret
global ctl_partial_restore:function
ctl_partial_restore:        ; R19.2 on one path only
	push	r12
	mov	r12, rdi
	test	rsi, rsi
	jz	.early
	pop	r12
	ret
.early:
	add	rsp, 8
	ret
global ctl_good:function
ctl_good:                   ; clean: must NOT be reported
	push	rbx
	sub	rsp, 32
	mov	[rsp + 8], r12
	mov	rbx, rdi
	mov	r12, rsi
	lea	rax, [rbx + r12]
	mov	r12, [rsp + 8]
	add	rsp, 32
	pop	rbx
	ret
