; Positive control for C14 (arguments: rdi = key, rsi = out).
default rel
section .text
global ctl_key_in_reg:function
ctl_key_in_reg:             ; R14.1: round key left in xmm1
	movdqu	xmm1, [rdi]
	movdqu	xmm2, [rdi + 16]
	pxor	xmm2, xmm1
	movdqu	[rsi], xmm2
	pxor	xmm2, xmm2
	ret
global ctl_key_on_stack:function
ctl_key_on_stack:           ; R14.2: key spilled and never wiped
	sub	rsp, 40
	movdqu	xmm1, [rdi]
	movdqu	[rsp], xmm1
	movdqu	[rsi], xmm1
	pxor	xmm1, xmm1
	add	rsp, 40
	ret
global ctl_clean:function
ctl_clean:                  ; clean: spilled, wiped, cleared
	sub	rsp, 40
	movdqu	xmm1, [rdi]
	movdqu	[rsp], xmm1
	movdqu	[rsi], xmm1
	pxor	xmm1, xmm1
	movdqu	[rsp], xmm1
	add	rsp, 40
	ret
