; Positive control for C20 (one argument in rdi).
default rel
section .text
global ctl_undef_addr:function
ctl_undef_addr:             ; R20.1: r10 was never written
	mov	rax, [rdi + r10]
	ret
global ctl_undef_flags:function
ctl_undef_flags:            ; R20.1: adc without a flag writer
	mov	rax, [rdi]
	adc	rax, 0
	mov	[rdi], rax
	ret
global ctl_undef_store:function
ctl_undef_store:            ; R20.1: xmm5 stored without having been written
	movdqu	[rdi], xmm5
	ret
global ctl_undef_spill:function
ctl_undef_spill:            ; R20.2: slot read on a path that skipped the spill
	sub	rsp, 24
	test	rdi, rdi
	jz	.skip
	mov	[rsp + 8], rdi
.skip:
	mov	rax, [rsp + 8]
	mov	rax, [rax]
	add	rsp, 24
	ret
global ctl_partial_ok:function
ctl_partial_ok:             ; clean: only defined bytes reach the store (palignr / movd idiom of the managers)
	movdqu	xmm2, [rdi]
	palignr	xmm3, xmm2, 8
	pminud	xmm2, xmm3
	movd	eax, xmm2
	and	rax, 15
	mov	[rdi], eax
	xor	eax, eax
	ret
