#!/bin/sh
# Run every registered check on the current tree (quick tier) and summarise; refreshes /verif/evidence.
cd /verif
rc=0
for p in $(python3 -c "import json;print(' '.join(c['property_id'] for c in json.load(open('MANIFEST.json'))['checks']))"); do
  out=$(./check $p --tier ${1:-quick} 2>&1); e=$?
  echo "$p exit=$e $(echo "$out" | tail -1)"
  [ $e -ne 0 ] && rc=1
done
python3-vt - <<'PY'
import json,glob,jsonschema
sch=json.load(open('/root/.vp/EVIDENCE.schema.json'))
for f in sorted(glob.glob('/verif/evidence/C*.json')):
    ev=json.load(open(f)); jsonschema.validate(ev,sch)
    c=ev['coverage']
    assert ev['violations']==0, f
    if ev['level']=='proof': assert c['obligations']==c['discharged'], (f,c['obligations'],c['discharged'])
print('evidence files valid and clean')
PY
exit $rc
