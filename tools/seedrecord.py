import json, os, re, subprocess, sys
# usage: seedrecord.py [NAME[+Cxx+Cyy] ...]   re-run the seed's own check (and the extra checks) and record what detects it
EXTRA = {a.split('+')[0]: a.split('+')[1:] for a in sys.argv[1:]}
for name in sorted(os.listdir('/verif/seeded')):
    if not sys.argv[1:] and not re.match(r'C\d+-a\d+$', name): continue
    if sys.argv[1:] and name not in EXTRA: continue
    mf='/verif/seeded/%s/meta.json'%name
    meta=json.load(open(mf))
    prop=meta['property']
    prev = [c for c in meta.get('detected_by', {}) if c != prop]
    checks = [prop] + sorted(set(prev + EXTRA.get(name, [])))
    out=subprocess.run(['/verif/tools/seedtest.sh','/verif/seeded/%s/patch.diff'%name]+checks,capture_output=True,text=True).stdout
    det={}; cur=None
    for l in out.splitlines():
        mm=re.match(r"== (C\d+) exit=(\d+)\s+(\d+) violation", l)
        if mm:
            cur=mm.group(1); det[cur]={"exit":int(mm.group(2)),"violations":int(mm.group(3)),"first_reports":[]}
        elif cur and l.startswith("  R") and len(det[cur]["first_reports"])<3:
            det[cur]["first_reports"].append(l.strip()[:400])
    meta['detected_by']=det; meta['detected']=any(v['exit']==1 and v['violations']>0 for v in det.values())
    json.dump(meta,open(mf,'w'),indent=1)
    print(name, {k:(v['exit'],v['violations']) for k,v in det.items()})
