#!/usr/bin/env python3
"""tools/seedimport.py <PROP> <k> [extra checks...]: import a verified seeded change from /tmp/seed_<PROP>_out/change_<k>
into /verif/seeded/<PROP>-<k>/ (patch.diff, demonstration, notes, meta.json) and record which checks detect it."""
import json, os, re, shutil, subprocess, sys
prop, k = sys.argv[1], sys.argv[2]
extra = sys.argv[3:]
import os as _os
src = (_os.environ.get("SEED_SRC_FMT") or "/tmp/seed_%s_out/change_%s") % (prop, k)
dst = "/verif/seeded/%s-%s" % (prop, int(k) + int(_os.environ.get("SEED_K_OFFSET", "0")))
verdict = None
for lf in ("/tmp/vw/verify_%s.log" % prop, "/tmp/vw/verify_%sb.log" % prop, "/tmp/vw/verify2_%s.log" % prop):
    if os.path.exists(lf):
        for l in open(lf):
            if l.startswith("VERDICT %s:" % src):
                verdict = l.strip()
if not verdict:
    sys.exit("no verification verdict for %s" % src)
m = re.search(r"tests_exit=(\d+) fail_lines=(\d+) demo_with=(\d+) demo_without=(\d+)", verdict)
te, fl, dw, dwo = map(int, m.groups())
if not (te == 0 and fl == 0 and dw != 0 and dwo == 0):
    sys.exit("not confirmed: " + verdict)
os.makedirs(dst, exist_ok=True)
for f in os.listdir(src):
    p = os.path.join(src, f)
    if os.path.isfile(p) and os.path.getsize(p) < 300000 and not f.startswith("verify_") and not f.endswith(".log") and not f.endswith(".out"):
        shutil.copy(p, os.path.join(dst, f))
checks = [prop] + extra
out = subprocess.run(["/verif/tools/seedtest.sh", os.path.join(dst, "patch.diff")] + checks, capture_output=True, text=True).stdout
det = {}
cur = None
for l in out.splitlines():
    mm = re.match(r"== (C\d+) exit=(\d+)\s+(\d+) violation", l)
    if mm:
        cur = mm.group(1)
        det[cur] = {"exit": int(mm.group(2)), "violations": int(mm.group(3)), "first_reports": []}
    elif cur and l.startswith("  R") or (cur and re.match(r"^  [PG]\d", l)):
        if len(det[cur]["first_reports"]) < 3:
            det[cur]["first_reports"].append(l.strip()[:400])
notes = open(os.path.join(src, "notes.md")).read() if os.path.exists(os.path.join(src, "notes.md")) else ""
needs = ""
mm = re.search(r"(?is)(what it needs[^\n]*\n|needs? (in order )?to manifest[^\n]*\n)(.{0,900})", notes)
if mm:
    needs = re.sub(r"\s+", " ", mm.group(3)).strip()[:700]
meta = {
    "property": prop,
    "breaks": prop,
    "origin": "independent sub-agent given only the property record and a scratch worktree",
    "needs_to_manifest": needs or "see notes.md",
    "confirmed_by": {
        "what_was_run": "tools/seedverify.sh: git apply patch.diff in a scratch worktree; make -f Makefile.unx -j8 check; bash demo.sh <tree>; revert; rebuild; bash demo.sh <tree>",
        "test_suite_with_change": "exit %d, %d 'fail' lines" % (te, fl),
        "demo_exit_with_change": dw,
        "demo_exit_without_change": dwo,
    },
    "detected_by": det,
    "detected": any(v["exit"] == 1 and v["violations"] > 0 for v in det.values()),
}
json.dump(meta, open(os.path.join(dst, "meta.json"), "w"), indent=1)
print(prop, k, "detected" if meta["detected"] else "MISSED", {c: v["violations"] for c, v in det.items()})
