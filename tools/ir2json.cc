// ir2json: LLVM IR module (.ll/.bc) -> JSON facts for the IR rule engines.
// usage: ir2json <in.ll> <out.json>
//
// Values are referenced as small JSON objects:
//   {"k":"i","id":N}          instruction N of the enclosing function
//   {"k":"a","n":index}       argument
//   {"k":"c","v":int}         integer constant (as decimal string if it does not fit in 53 bits)
//   {"k":"null"}              null pointer constant
//   {"k":"g","name":...}      global variable / function
//   {"k":"ce", "op":..., "ops":[...], "off":N?}   constant expression (GEP/bitcast of a global, with byte offset when constant)
//   {"k":"u"}                 undef / poison
//   {"k":"o","s":text}        anything else
#include "llvm/IR/Constants.h"
#include "llvm/IR/DataLayout.h"
#include "llvm/IR/DebugInfoMetadata.h"
#include "llvm/IR/DebugInfo.h"
#include "llvm/IR/Function.h"
#include "llvm/IR/InlineAsm.h"
#include "llvm/IR/InstrTypes.h"
#include "llvm/IR/Instructions.h"
#include "llvm/IR/IntrinsicInst.h"
#include "llvm/IR/LLVMContext.h"
#include "llvm/IR/Module.h"
#include "llvm/IR/Operator.h"
#include "llvm/IRReader/IRReader.h"
#include "llvm/Support/JSON.h"
#include "llvm/Support/SourceMgr.h"
#include "llvm/Support/raw_ostream.h"
#include <map>
using namespace llvm;

static std::string tyStr(Type *T) { std::string s; raw_string_ostream os(s); T->print(os, false, true); return os.str(); }

struct Ctx {
  const DataLayout *DL;
  std::map<const Value *, int> ids;
  std::map<const BasicBlock *, int> bids;
};

static json::Value constInt(const APInt &A) {
  if (A.getBitWidth() <= 64) {
    int64_t s = A.getSExtValue();
    if (s > -(1LL << 52) && s < (1LL << 52)) return json::Object{{"k", "c"}, {"v", s}, {"bits", (int64_t)A.getBitWidth()}, {"z", (int64_t)(A.getBitWidth() <= 52 ? A.getZExtValue() : (uint64_t)0)}, {"zs", toString(A, 10, false)}};
  }
  return json::Object{{"k", "c"}, {"vs", toString(A, 10, true)}, {"zs", toString(A, 10, false)}, {"bits", (int64_t)A.getBitWidth()}};
}

static json::Value ref(Ctx &C, const Value *V, int depth = 0) {
  if (auto *I = dyn_cast<Instruction>(V)) return json::Object{{"k", "i"}, {"id", C.ids[I]}};
  if (auto *A = dyn_cast<Argument>(V)) return json::Object{{"k", "a"}, {"n", (int64_t)A->getArgNo()}};
  if (auto *CI = dyn_cast<ConstantInt>(V)) return constInt(CI->getValue());
  if (isa<ConstantPointerNull>(V)) return json::Object{{"k", "null"}};
  if (isa<UndefValue>(V)) return json::Object{{"k", "u"}};
  if (auto *G = dyn_cast<GlobalValue>(V)) return json::Object{{"k", "g"}, {"name", G->getName().str()}};
  if (auto *BB = dyn_cast<BasicBlock>(V)) return json::Object{{"k", "b"}, {"id", C.bids[BB]}};
  if (auto *CE = dyn_cast<ConstantExpr>(V)) {
    json::Object o{{"k", "ce"}, {"op", CE->getOpcodeName()}};
    json::Array ops;
    if (depth < 6) for (auto &U : CE->operands()) ops.push_back(ref(C, U.get(), depth + 1));
    o["ops"] = std::move(ops);
    if (auto *GEP = dyn_cast<GEPOperator>(CE)) {
      APInt off(64, 0);
      if (GEP->accumulateConstantOffset(*C.DL, off)) o["off"] = off.getSExtValue();
      o["srcty"] = tyStr(GEP->getSourceElementType());
    }
    return std::move(o);
  }
  if (isa<MetadataAsValue>(V)) return json::Object{{"k", "md"}};
  if (isa<InlineAsm>(V)) { return json::Object{{"k", "asm"}, {"s", cast<InlineAsm>(V)->getAsmString()}, {"c", cast<InlineAsm>(V)->getConstraintString()}}; }
  std::string s; raw_string_ostream os(s); V->printAsOperand(os, false);
  return json::Object{{"k", "o"}, {"s", os.str()}};
}

static void structTypes(Module &M, json::Object &root) {
  const DataLayout &DL = M.getDataLayout();
  json::Object sts;
  for (StructType *ST : M.getIdentifiedStructTypes()) {
    if (ST->isOpaque()) continue;
    const StructLayout *SL = DL.getStructLayout(ST);
    json::Array el;
    for (unsigned i = 0; i < ST->getNumElements(); i++)
      el.push_back(json::Object{{"off", (int64_t)SL->getElementOffset(i)}, {"ty", tyStr(ST->getElementType(i))}, {"size", (int64_t)DL.getTypeAllocSize(ST->getElementType(i))}});
    sts[ST->getName().str()] = json::Object{{"size", (int64_t)SL->getSizeInBytes()}, {"elems", std::move(el)}};
  }
  root["structs"] = std::move(sts);
}

static std::string diTypeName(const DIType *T, int depth = 0) {
  if (!T) return "void";
  if (depth > 8) return "...";
  if (auto *D = dyn_cast<DIDerivedType>(T)) {
    switch (D->getTag()) {
    case dwarf::DW_TAG_pointer_type: return diTypeName(D->getBaseType(), depth + 1) + "*";
    case dwarf::DW_TAG_const_type: {
      // distinguish `T *const` (const pointer) from `const T *` (pointer to const)
      const DIType *B = D->getBaseType();
      const DIType *SB = B;
      for (int i = 0; SB && i < 8; i++) { auto *DD = dyn_cast<DIDerivedType>(SB); if (DD && (DD->getTag() == dwarf::DW_TAG_typedef || DD->getTag() == dwarf::DW_TAG_volatile_type)) SB = DD->getBaseType(); else break; }
      if (auto *PB = dyn_cast_or_null<DIDerivedType>(SB)) if (PB->getTag() == dwarf::DW_TAG_pointer_type) return diTypeName(B, depth + 1) + " const";
      return "const " + diTypeName(B, depth + 1);
    }
    case dwarf::DW_TAG_volatile_type: return "volatile " + diTypeName(D->getBaseType(), depth + 1);
    case dwarf::DW_TAG_typedef: return D->getName().str();
    default: return D->getName().str();
    }
  }
  if (auto *Cm = dyn_cast<DICompositeType>(T)) {
    if (Cm->getTag() == dwarf::DW_TAG_array_type) return diTypeName(Cm->getBaseType(), depth + 1) + "[]";
    return (Cm->getTag() == dwarf::DW_TAG_structure_type ? "struct " : Cm->getTag() == dwarf::DW_TAG_enumeration_type ? "enum " : "") + Cm->getName().str();
  }
  return T->getName().str();
}
// strip typedef/const/volatile
static const DIType *stripTy(const DIType *T) {
  for (int i = 0; T && i < 16; i++) {
    auto *D = dyn_cast<DIDerivedType>(T);
    if (!D) break;
    auto tg = D->getTag();
    if (tg == dwarf::DW_TAG_typedef || tg == dwarf::DW_TAG_const_type || tg == dwarf::DW_TAG_volatile_type) T = D->getBaseType();
    else break;
  }
  return T;
}

static void diStructs(Module &M, json::Object &root) {
  DebugInfoFinder F; F.processModule(M);
  json::Object out; json::Object enums;
  for (DIType *T : F.types()) {
    auto *Cm = dyn_cast<DICompositeType>(T);
    std::string tdName;
    if (!Cm) {
      // typedef struct { ... } NAME;  -> register the anonymous composite under the typedef's name
      auto *TD = dyn_cast<DIDerivedType>(T);
      if (TD && TD->getTag() == dwarf::DW_TAG_typedef) {
        auto *B = dyn_cast_or_null<DICompositeType>(TD->getBaseType());
        if (B && B->getName().empty()) { Cm = B; tdName = TD->getName().str(); }
      }
    }
    if (!Cm) continue;
    if (Cm->getTag() == dwarf::DW_TAG_enumeration_type) {
      json::Object vals;
      for (auto *E : Cm->getElements()) if (auto *En = dyn_cast<DIEnumerator>(E)) vals[En->getName().str()] = En->getValue().getSExtValue();
      std::string n = Cm->getName().str(); if (n.empty()) n = tdName; if (n.empty()) n = "anon@" + std::to_string(Cm->getLine());
      enums[n] = std::move(vals);
      continue;
    }
    if (Cm->getTag() != dwarf::DW_TAG_structure_type && Cm->getTag() != dwarf::DW_TAG_union_type) continue;
    std::string cname = Cm->getName().empty() ? tdName : Cm->getName().str();
    if (cname.empty()) continue;
    json::Array mem;
    for (auto *E : Cm->getElements()) {
      auto *D = dyn_cast<DIDerivedType>(E);
      if (!D || D->getTag() != dwarf::DW_TAG_member) continue;
      const DIType *bt = stripTy(D->getBaseType());
      uint64_t bsz = bt ? bt->getSizeInBits() : 0;
      mem.push_back(json::Object{{"name", D->getName().str()}, {"off", (int64_t)(D->getOffsetInBits() / 8)}, {"size", (int64_t)(D->getSizeInBits() / 8)}, {"type", diTypeName(D->getBaseType())}, {"basebits", (int64_t)bsz}});
    }
    out[cname] = json::Object{{"size", (int64_t)(Cm->getSizeInBits() / 8)}, {"members", std::move(mem)}};
  }
  root["distructs"] = std::move(out);
  root["dienums"] = std::move(enums);
}

int main(int argc, char **argv) {
  if (argc < 3) { errs() << "usage: ir2json in.ll out.json\n"; return 2; }
  LLVMContext LC; SMDiagnostic SM;
  std::unique_ptr<Module> M = parseIRFile(argv[1], SM, LC);
  if (!M) { SM.print("ir2json", errs()); return 2; }
  Ctx C; C.DL = &M->getDataLayout();
  json::Object root;
  root["source"] = M->getSourceFileName();
  structTypes(*M, root);
  diStructs(*M, root);
  json::Array globals;
  for (GlobalVariable &G : M->globals()) {
    json::Object g{{"name", G.getName().str()}, {"constant", G.isConstant()}, {"linkage", (int64_t)G.getLinkage()}, {"local", G.hasLocalLinkage()}, {"decl", G.isDeclaration()}, {"ty", tyStr(G.getValueType())}, {"size", G.getValueType()->isSized() ? (int64_t)C.DL->getTypeAllocSize(G.getValueType()) : (int64_t)-1}, {"tls", G.isThreadLocal()}};
    if (G.hasInitializer()) {
      Constant *I = G.getInitializer();
      if (I->isZeroValue()) g["init"] = "zero";
      else if (auto *CI0 = dyn_cast<ConstantInt>(I)) { g["init_int"] = toString(CI0->getValue(), 10, true); }
      else if (auto *CDS = dyn_cast<ConstantDataSequential>(I)) {
        if (CDS->getElementType()->isIntegerTy()) {
          json::Array a;
          for (unsigned i = 0; i < CDS->getNumElements(); i++) a.push_back(toString(CDS->getElementAsAPInt(i), 10, false));
          g["init_ints"] = std::move(a);
          g["elem_bits"] = (int64_t)CDS->getElementType()->getIntegerBitWidth();
        }
      }
    }
    SmallVector<DIGlobalVariableExpression *, 1> GVs; G.getDebugInfo(GVs);
    if (!GVs.empty()) { g["file"] = GVs[0]->getVariable()->getFilename().str(); g["line"] = (int64_t)GVs[0]->getVariable()->getLine(); }
    globals.push_back(std::move(g));
  }
  root["globals"] = std::move(globals);
  json::Array aliases;
  for (GlobalAlias &A : M->aliases()) aliases.push_back(json::Object{{"name", A.getName().str()}, {"target", A.getAliasee()->stripPointerCasts()->getName().str()}});
  root["aliases"] = std::move(aliases);

  json::Array funcs;
  for (Function &F : *M) {
    json::Object f{{"name", F.getName().str()}, {"decl", F.isDeclaration()}, {"local", F.hasLocalLinkage()}, {"ret", tyStr(F.getReturnType())}, {"vis", (int64_t)F.getVisibility()}};
    json::Array args;
    // DWARF parameter names & types
    std::vector<std::string> dnames, dtypes;
    if (DISubprogram *SP = F.getSubprogram()) {
      f["file"] = SP->getFilename().str(); f["line"] = (int64_t)SP->getLine();
      if (auto *ST = SP->getType()) { auto TA = ST->getTypeArray(); for (unsigned i = 1; i < TA.size(); i++) dtypes.push_back(diTypeName(TA[i])); }
    }
    for (Argument &A : F.args()) {
      json::Object a{{"name", A.getName().str()}, {"ty", tyStr(A.getType())}};
      if (A.getArgNo() < dtypes.size()) a["dtype"] = dtypes[A.getArgNo()];
      args.push_back(std::move(a));
    }
    f["args"] = std::move(args);
    if (F.isDeclaration()) { funcs.push_back(std::move(f)); continue; }
    C.ids.clear(); C.bids.clear();
    int n = 0, bn = 0;
    for (BasicBlock &BB : F) { C.bids[&BB] = bn++; for (Instruction &I : BB) C.ids[&I] = n++; }
    json::Array blocks;
    for (BasicBlock &BB : F) {
      json::Object b{{"id", C.bids[&BB]}, {"name", BB.getName().str()}};
      json::Array succ; for (BasicBlock *S : successors(&BB)) succ.push_back(C.bids[S]);
      b["succ"] = std::move(succ);
      json::Array insts;
      for (Instruction &I : BB) {
        if (isa<DbgInfoIntrinsic>(I)) continue;
        json::Object o{{"id", C.ids[&I]}, {"op", I.getOpcodeName()}, {"ty", tyStr(I.getType())}};
        if (const DebugLoc &DLc = I.getDebugLoc()) { o["line"] = (int64_t)DLc.getLine(); if (auto *Sc = dyn_cast_or_null<DIScope>(DLc.getScope())) o["file"] = Sc->getFilename().str(); }
        json::Array ops;
        if (auto *PN = dyn_cast<PHINode>(&I)) {
          for (unsigned i = 0; i < PN->getNumIncomingValues(); i++) ops.push_back(json::Object{{"v", ref(C, PN->getIncomingValue(i))}, {"b", C.bids[PN->getIncomingBlock(i)]}});
          o["incoming"] = std::move(ops);
        } else {
          for (auto &U : I.operands()) ops.push_back(ref(C, U.get()));
          o["ops"] = std::move(ops);
        }
        if (auto *CB = dyn_cast<CallBase>(&I)) {
          const Value *cv = CB->getCalledOperand()->stripPointerCasts();
          if (auto *CF = dyn_cast<Function>(cv)) { o["callee"] = CF->getName().str(); if (CF->isIntrinsic()) o["intrinsic"] = true; }
          else if (isa<InlineAsm>(cv)) o["callee"] = "<asm>";
          else o["callee"] = "<indirect>";
          o["nargs"] = (int64_t)CB->arg_size();
        }
        if (auto *IC = dyn_cast<ICmpInst>(&I)) o["pred"] = CmpInst::getPredicateName(IC->getPredicate()).str();
        if (auto *EV = dyn_cast<ExtractValueInst>(&I)) { json::Array ix; for (unsigned x : EV->indices()) ix.push_back((int64_t)x); o["indices"] = std::move(ix); }
        if (auto *LD = dyn_cast<LoadInst>(&I)) { o["volatile"] = LD->isVolatile(); o["atomic"] = LD->isAtomic(); o["size"] = (int64_t)C.DL->getTypeStoreSize(LD->getType()); }
        if (auto *SI = dyn_cast<StoreInst>(&I)) { o["volatile"] = SI->isVolatile(); o["atomic"] = SI->isAtomic(); o["size"] = (int64_t)C.DL->getTypeStoreSize(SI->getValueOperand()->getType()); o["valty"] = tyStr(SI->getValueOperand()->getType()); }
        if (auto *AI = dyn_cast<AllocaInst>(&I)) { o["allocty"] = tyStr(AI->getAllocatedType()); if (auto sz = AI->getAllocationSizeInBits(*C.DL)) o["allocsize"] = (int64_t)(*sz / 8); }
        if (auto *GEP = dyn_cast<GetElementPtrInst>(&I)) {
          o["srcty"] = tyStr(GEP->getSourceElementType());
          APInt off(64, 0);
          if (GEP->accumulateConstantOffset(*C.DL, off)) o["off"] = off.getSExtValue();
          // struct path: list of (struct name, field index, field byte offset) along the indices
          json::Array path; Type *cur = GEP->getSourceElementType(); bool first = true;
          for (auto it = GEP->idx_begin(); it != GEP->idx_end(); ++it) {
            if (first) { first = false; continue; }
            if (auto *ST = dyn_cast<StructType>(cur)) {
              auto *CI = dyn_cast<ConstantInt>(it->get()); if (!CI) break;
              unsigned fi = CI->getZExtValue();
              path.push_back(json::Object{{"struct", ST->hasName() ? ST->getName().str() : ""}, {"field", (int64_t)fi}, {"off", (int64_t)C.DL->getStructLayout(ST)->getElementOffset(fi)}});
              cur = ST->getElementType(fi);
            } else if (auto *AT = dyn_cast<ArrayType>(cur)) {
              auto *CI = dyn_cast<ConstantInt>(it->get());
              path.push_back(json::Object{{"array", true}, {"index", CI ? json::Value(CI->getSExtValue()) : json::Value(nullptr)}, {"esize", (int64_t)C.DL->getTypeAllocSize(AT->getElementType())}});
              cur = AT->getElementType();
            } else break;
          }
          o["path"] = std::move(path);
        }
        if (auto *CI2 = dyn_cast<CastInst>(&I)) { o["srcty"] = tyStr(CI2->getSrcTy()); }
        if (auto *SW = dyn_cast<SwitchInst>(&I)) {
          json::Array cases; for (auto &Cs : SW->cases()) cases.push_back(json::Object{{"v", Cs.getCaseValue()->getSExtValue()}, {"b", C.bids[Cs.getCaseSuccessor()]}});
          o["cases"] = std::move(cases); o["default"] = C.bids[SW->getDefaultDest()];
        }
        if (auto *BR = dyn_cast<BranchInst>(&I)) {
          json::Array ss; for (unsigned i = 0; i < BR->getNumSuccessors(); i++) ss.push_back(C.bids[BR->getSuccessor(i)]);
          o["succ"] = std::move(ss); o["cond"] = BR->isConditional();
        }
        insts.push_back(std::move(o));
      }
      b["insts"] = std::move(insts);
      blocks.push_back(std::move(b));
    }
    f["blocks"] = std::move(blocks);
    funcs.push_back(std::move(f));
  }
  root["functions"] = std::move(funcs);
  std::error_code EC; raw_fd_ostream out(argv[2], EC);
  if (EC) { errs() << "cannot write\n"; return 2; }
  out << json::Value(std::move(root));
  return 0;
}
