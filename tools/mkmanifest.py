#!/usr/bin/env python3
"""Generate /verif/MANIFEST.json from the table below (single source of truth) and validate it."""
import json, os, sys
HERE = os.path.dirname(os.path.dirname(os.path.abspath(__file__)))

NA = {
 "C07": "streaming == one-shot is a relational numerical property over all segmentations of the data (carry of a partial block between update calls in four macro families); no clause of it is visible in the shape of the code beyond what C02 R02.1/R02.2 and C08 R08.7 already decide for the update and finalize bodies, and a rule demanding that the one-shot and streaming bodies be built from the same macros would fire on behaviour-preserving edits",
}
PENDING = "static check designed in DESIGN.md section 3 but not built yet; not claimed until it exists"

CHECKS = {
 "C01": dict(level="other", technique="pointer-provenance abstract interpretation of the kernels' object code against the table of alignment-demanding encodings; constants derived from the standards' definitions searched in data sections and instruction operands of every unit; IR path rule for message restart",
   text="PARTIAL - clauses only; digest values are NOT decided. Decided: (R01.1) 'any pointer alignment': in the 25 kernels the managers call, no alignment-demanding instruction (legacy-SSE 16-byte memory operand, (v)movdqa/(v)movaps/(v)movnt*) addresses memory through a data pointer fetched from the lane table; (R01.2) 'a reused context depends on the new message only': under FIRST all 28 _ctx_mgr_submit functions reset total_length, partial_block_buffer_length and the digest before reading them; (R01.3) each of the 28 context-layer units carries its algorithm's complete standard initial hash value; (R01.4) each of the 28 units implementing a round function carries the complete standard round-constant set (tables also in standard order). The constants are computed from their definitions (roots of primes, sines, rotations), so a constant corrupted in a CPU family the test host never dispatches to is reported.",
   note="Necessary conditions only. Presence of a constant is per unit; that round i uses entry i is not decided for immediates. Trusted: LLVM MC decoding; lib/stdconst.py (self-checked against published values).",
   ref="Part III/C01"),
 "C02": dict(level="other", technique="pointer-provenance abstract interpretation of object code + alignment-demanding encodings table; value-set (k-set) abstract interpretation of the tag-length argument with infeasible-edge pruning",
   text="PARTIAL - clauses only; ciphertext and tag values are NOT decided. Decided for the 96 GCM bodies of the four families: (R02.1) 'any buffer alignment': no alignment-demanding instruction addresses memory through in, out or aad (aad only in the _nt bodies, whose in/out carry the documented 64-byte rule); (R02.2) 'the 8-, 12- or 16-byte tag': in the 48 bodies taking (auth_tag, auth_tag_len), under auth_tag_len = 8, 12, 16 the reachable stores through auth_tag are unmasked, at constant offsets and cover exactly [0, len) - 144 cases, register- and stack-passed lengths alike.",
   note="Necessary conditions. Trusted: MC decoding; argument order from aes/aes_gcm.c. The value-set domain holds at most 64 concrete values per register and models no memory except the read of a stack-passed argument.",
   ref="Part III/C02"),
 "C03": dict(level="other", technique="value-set (k-set) abstract interpretation of the length register over object code with infeasible-edge pruning, pointer-provenance abstract interpretation, alignment-demanding encodings table; positive control per body",
   text="PARTIAL - clauses only; IEEE 1619 ciphertext values, stealing arithmetic and raw/expanded-key agreement are NOT decided. Decided for all 24 XTS bodies (sse/avx/vaes x enc/dec x raw/expanded): (R03.1) 'for lengths below 16 neither buffer is touched': with len in [0,15] only the tweak-encryption prologue and the epilogue remain reachable and no remaining instruction addresses memory through in or out (the legacy XTS_AES_* entry points forward without a check of their own); (R03.2) 'any alignment of data, keys and tweak': no alignment-demanding instruction addresses memory through any of the five pointer arguments. Control: with len in [16,31] the same analysis does reach accesses through both buffers in every body.",
   note="Necessary conditions. Trusted: MC decoding; the length is the interface's only non-pointer argument.",
   ref="Part III/C03"),
 "C04": dict(level="other", technique="straight-line value numbering over object code (terms over uninterpreted instructions, copy propagation, store-to-load forwarding) for the key schedules; aeskeygenassist immediates in dependence order; pointer provenance + alignment table for CBC",
   text="PARTIAL - clauses only; round-key and ciphertext values are NOT decided. Decided: (R04.1) 'the matching decryption schedule (reversed, inverse mix columns on the inner rounds)': in the 6 full key-expansion bodies, slot Nr-i of the decryption schedule holds exactly the term stored as encryption round key i for i in {0,Nr} and aesimc of exactly that term otherwise, and every slot of both schedules is written (202 obligations); (R04.2) the round constants fed to the RotWord/Rcon use of aeskeygenassist are 01 02 04 08 10 20 40 80 1b 36 (truncated per key size) in all 8 bodies, SubWord-only uses exempt; (R04.3) 'any data alignment': no alignment-demanding instruction addresses memory through in/out in the 15 CBC bodies. The zero-length CBC call is decided under C08 R08.7.",
   note="Necessary conditions; equality of terms is syntactic after copy propagation, so unequal-looking but equal values would be reported (none today). Trusted: MC decoding; argument order from aes_keyexp.c / aes_cbc.c.",
   ref="Part III/C04"),
 "C05": dict(level="other", technique="pointer provenance + alignment table over the block functions' object code; IR path enumeration with a linear-form normaliser for the stream-length update; standard constants searched per unit",
   text="PARTIAL - clauses only; the digest is NOT decided. Decided: (R05.1) 'independent of buffer alignment': in the 8 assembly block functions no alignment-demanding instruction addresses memory through input_data; (R05.2) bookkeeping half of 'independent of how the stream was cut': on every effectful path of the 10 update functions total_length is stored exactly once with a value that normalises to total_length + len; (R05.3) the 12 units implementing the SHA-1 / SHA-256 rounds carry the complete standard round constants and the init / final-hash units the standard initial values.",
   note="Necessary conditions. Trusted: MC decoding, clang -O0+mem2reg IR, lib/stdconst.py.",
   ref="Part III/C05"),
 "C10": dict(level="other", technique="pointer provenance + alignment table over the stitched block functions; IR path rules (linear-form stream-length update, seed initialisation); MurmurHash3 and SHA-1 constants searched per unit",
   text="PARTIAL - clauses only; neither digest value is decided. Decided: (R10.1) no alignment-demanding access through input_data in the 4 stitched block functions; (R10.2) total_length = total_length + len exactly once on every effectful path of the 5 update functions; (R10.3) 'both state words initialised to the seed': every context-initialising path of _init writes all 16 bytes of murmur3_x64_128_digest from the seed parameter after the clearing memset; (R10.4) the 5 block implementations carry c1, c2, 0x52dce729, 0x38495ab5, the finalisation unit the two fmix64 multipliers, the stitched SHA-1 halves the SHA-1 round constants.",
   note="Necessary conditions. Trusted: MC decoding, clang IR, lib/stdconst.py.",
   ref="Part III/C10"),

 "C20": dict(level="other", technique="byte-granular definedness dataflow over object code (GPRs, 512-bit vector registers with opmask tags, flags, own-frame stack slots) with context-sensitive analysis of private kernels, known-bits / interval branch pruning; IR rules for message restart and init coverage",
   text="PARTIAL. Decided for 775 functions / ~535k instructions of the real build: starting from 'only the interface's argument registers, rsp and callee-saved registers are defined', no undefined register, flag, opmask or unwritten own-frame stack byte reaches any of ~168k sinks (address computations, stores to non-stack memory, flag consumers, call arguments); byte-exact transfer for moves, shuffles, inserts, aligns, broadcasts and masked loads/stores, lane-wise for arithmetic, all-or-nothing otherwise; 24 private-convention kernels are analysed in the context of each call site. IR: under FIRST every _ctx_mgr_submit resets total_length / partial_block_buffer_length / digest before reading them; mh_* init functions zero the whole context first. 52 reports on two families of paths confirmed infeasible by reading (GCM 8-block loop entry, CBC last-block test) are listed one by one in tables/c20_infeasible.json. NOT decided: dependence on lane-indexed manager memory of idle lanes and on output-buffer prefill.",
   note="Path-insensitive across joins (hence the table); memory reached through arguments is treated as API-defined. Trusted: MC operand tables; arity of assembly interfaces = argument count at their C call sites.",
   ref="3/C20"),
 "C06": dict(level="other", technique="IR path enumeration with position-aware phi resolution over the ctx layer (typestate of the handed-back context), CFG gating analysis and store-provenance classification in the assembly managers",
   text="PARTIAL. Decided: (R06.1) every non-NULL context returned by each of the 23 <algo>_ctx_mgr_resubmit functions had a status without the PROCESSING bit stored into it as the last action, with no manager call in between; (R06.2) COMPLETE is stored only under (status & COMPLETE), PROCESSING|COMPLETE only under (status & LAST) and followed by the submit of the padding job; (R06.3) each SIMD _ctx_mgr_flush returns NULL only on the edge 'manager flush returned NULL' and otherwise resubmit's checked non-NULL result, and each of the 23 assembly flush managers reaches its NULL return only through branches on the manager's occupancy fields, storing nothing to the manager on the way; (R06.4) nothing in the library stores to user_data and every store in the manager assembly goes to its stack, its arguments or a job pointer from the lane table, never through a data pointer. NOT decided: exactly-once hand-back and lane-count bounds (lane-stack encodings and data-dependent lane indices in assembly).",
   note="Structural necessary conditions of the job life-cycle at the ctx layer. Every store of the manager assembly has a known provenance (the *_opt_x1 kernels are summarised per call-site context).",
   ref="3/C06"),
 "C08": dict(level="other", technique="pointer-provenance abstract interpretation of object code against argument roles derived from the wrappers' prototypes; constant opmask tracking for masked loads; value-set interpretation of the length argument for the zero-length call; IR edge-dominance / path rules for the rolling-hash window and the copy helper",
   text="PARTIAL. Decided for all 143 AES CPU-specific entry points: no store's address derives solely from an argument whose pointee is const in the wrapper's prototype (keys, schedules, IV, tweak, AAD, input) - 'inputs are never modified'; every load at a constant offset from a fixed-extent input stays within its extent (GCM IV 12 bytes incl. masked 16-byte loads whose constant opmask selects 12, XTS tweak 16, raw keys 16/24/32, key schedules 16*(Nr+1), GCM key data = sizeof the struct) and such inputs are never register-indexed; in _rolling_hash2_run the look-back addresses buffer-w are formed only after the window has been filled; fixed-offset stores through auth_tag fit the tag length known on their path (R08.4); the rolling-hash scan loops compare the position with the end before every stream-byte load (R08.5); the ctx layer's variable-length copy helper never reads beyond src+n (R08.6); under len = 0 (value-set interpretation of the length argument) none of the 103 CBC / GCM / XTS bodies with (in, out, len) keeps an access through in or out reachable - 'exactly len output bytes' at the zero-length boundary (R08.7; this rule found the CBC zero-length defect, now fixed). NOT decided: bounds of variable-length buffers for len > 0 (all len mod 16/64 tails), reads of the GHASH key-power table at a computed index, the hash/multi-hash kernels' data reads.",
   note="A necessary condition (no write through inputs, no over-read of fixed-size operands), not the full range property. Trusted: const-ness in the wrappers' prototypes; MC operand tables.",
   ref="3/C08"),
 "C09": dict(level="other", technique="IR global-initialiser comparison against a pinned table, whole-library writer scan, must-pass-through on the run function's CFG, load-provenance in the scan loops' object code",
   text="PARTIAL. Decided: (1) the 256 64-bit initialisers of rolling_hash2_table1 equal the pinned definition, nothing in the library writes the table, and init fills state->table1 from it alone - the 'fixed function defined by the library's constant table, across versions' clause; (2) every path of _rolling_hash2_run to its return passes a store to *offset, a store to state->hash and a copy into state->history, so a following run resumes from exactly the window state - the structural half of 'independent of call splitting'; (3) the three scan-loop implementations read table entries only through their t1/t2 arguments. NOT decided: that the reported offset is the first match and that the SSE/AVX2 scan loops compute the same function as the C loop.",
   note="Necessary structural conditions; the value clauses are declared undecided. The pinned table was taken from this tree (digits of pi).",
   ref="3/C09"),
 "C15": dict(level="other", technique="IR def-use / taint analysis with an unsigned upper-bound domain for lossless-truncation, DWARF member types",
   text="PARTIAL. Decided for all 28 built *_ctx_*.c units: total_length is a 64-bit member; every update is `total_length + zext(len)` as a 64-bit add or the constant 0; along every def-use chain from a load of total_length (through local callees such as hash_pad) no truncation below 64 bits occurs unless an upper-bound analysis shows it lossless (block-offset masks); the byte-to-bit conversion is a 64-bit operation that reaches an 8-byte store into the padding; SHA-512 zeroes the upper 8 length bytes. These are exactly the two shipped defects of this family (32-bit <<3, 32-bit total). NOT decided: the digest (C01) and the block-count packing in the assembly managers' lane words.",
   note="Structural necessary condition of the property, not the digest equality. Trusted: clang IR makes every C integer conversion explicit; DWARF.",
   ref="3/C15"),
 "C14": dict(level="proof", technique="secrecy-class dataflow (ZERO/CONST/MIXED/purely-secret-derived) over object code on top of a stack-geometry abstract interpretation; argument roles derived from the repository's wrappers; callee summaries for C stack buffers",
   text="All 143 CPU-specific AES entry points named by the 42 AES dispatchers (GCM 96, XTS 24, CBC 15, key expansion 8; ~460k instructions, 389 exits) are analysed to a fixpoint over all paths in the default -DSAFE_DATA build: every load through a key / key-schedule / GHASH-key / XTS-tweak argument is a secret source, classes propagate through registers (three segments per zmm register) and stack slots, and at every ret or tail jump no vector-register segment and no slot of a frame the function created may be purely secret-derived. The -O2 objects of aes/*.c are analysed with callee summaries (a stack buffer handed to a key-writing callee must be overwritten by stores the optimiser kept). The default build is checked to carry -DSAFE_DATA on every unit.",
   note="Sufficient-condition analysis with a stated definition of 'secret': values that mix in caller data (AES state, GHASH accumulator, ciphertext) are not the property's listed secrets; general-purpose registers are outside the property. Trusted: MC operand tables; the role dictionary (parameter names -> key/tweak/data). The 64 KiB-of-stack clause is covered for frames the entry points create, not for callers' frames.",
   ref="3/C14"),
 "C17": dict(level="proof", technique="premise checking for a written concurrency lemma: x86 constant propagation / CFG shape of the lock-cmpxchg protocol, IR must-pass-through and value-set analysis, whole-library reference ownership and call-graph reachability",
   text="The property quantifies over schedules; the check decides, on the FIPS_MODE build, every premise P1-P8 of the hand proof in DESIGN.md section 5 (exactly once, nobody early, same verdict, no livelock on x86-TSO): ownership of self_test_status by two functions (relocation scan of all objects), the single lock cmpxchg 2->3 with constant operands and an untouched eax on the winner's edge, the fast path, the store-free wait loop with exit 'status != 3' and a fresh load returned, one publisher reached only when the check returned neither 0 nor 1 and only after both suites, the published value a|b with both suites' return-value sets within {0,1}, the 0-iff-passed result mapping, and no isal_ function reachable from the suites (call graph through every dispatch candidate).",
   note="Trusted: x86-TSO, atomicity of lock cmpxchg, termination of the suites, the lemma itself (30 lines, in DESIGN.md). The check decides premises about code shape, not interleavings; a model checker would be the natural second opinion and is outside this technique family.",
   ref="3/C17 and section 5"),
 "C18": dict(level="proof", technique="effect analysis over object code: abstract-address classification of every store, relocation ownership, escape/callee-store summaries for materialised static addresses, ELF alignment rule; IR global-write scan",
   text="Every one of the ~28k store instructions in the 230 objects is classified by its abstract address (stack, caller object via argument/loaded pointer, static symbol): the only stores to writable static storage are the 64 dispatch-slot bindings (each from its own dispatcher) and the two self_test_status writers. Addresses of writable statics that are materialised (lea/GOT) are followed: never stored to memory, passed to callees only in arguments the callee (or, for a stub, any dispatch candidate) never stores through. Each slot is written by exactly one 8-byte mov, read by one 8-byte indirect jmp and is naturally aligned by section alignment and offset, so a racing first call reads either the trampoline or the final binding. IR: no store/memcpy/memset/atomic targets a non-constant global in the 77 C units.",
   note="Trusted: MC mayStore flags; x86 single-copy atomicity of aligned 8-byte accesses. Assumed: stores through pointers loaded from caller objects hit caller objects (no pointer to a library static is ever stored, which is checked). 'Same result as when run alone' is derived from absence of shared writable state, not tested.",
   ref="3/C18"),
 "C12": dict(level="proof", technique="path-sensitive symbolic interpretation of the dispatch ladders (CPUID/XCR0 bit-set facts) + ISA classification of all reachable code by re-assembly under GNU as -march restrictions + relocation ownership rules",
   text="All 64 X_dispatch_init ladders are enumerated path by path over symbolic CPUID/XGETBV results (587 feasible paths; bit-set facts, no solver). For every path the bound candidate's entire reachable code (through direct and tail calls) must assemble under generic64 + the extensions that path established (AVX only with OSXSAVE+AVX+XCR0[2:1], AVX-512 bits only with XCR0[7:5]) + the pinned platform floor; entry points that share an object must take structurally identical decisions with the same family tag; each slot is written only by its own dispatcher, which is called only from its own mbinit, which is referenced only by the slot's initial value, and the stored value is a link-time address chosen by CPUID/XCR0 facts alone. Exhaustive over dispatchers, paths and reachable instructions.",
   note="Trusted: binutils 2.40 opcode table (feature <-> encoding), its dependency closure as 'architecturally consistent'; LLVM MC decoding. Features no dispatcher tests (aes, pclmul, bmi, bmi2, ...) are platform preconditions and are listed per candidate in the evidence, not judged. Family tags are name based.",
   ref="3/C12"),
 "C19": dict(level="proof", technique="abstract interpretation of object code (stack-pointer / callee-saved value domain over LLVM-MC lifted CFGs) with callee summaries",
   text="Every function of every object the real build flags produce (799 functions, ~580k instructions, nasm and gcc output alike) is interpreted over an abstract domain of entry values, stack-pointer offsets, aligned frames and a stack store, to a fixpoint over all paths: at every ret and tail jump rsp and rbx/rbp/r12-r15 hold their entry values; no instruction writes DF/MXCSR/x87-CW; no store reaches the return address or above; stack height agrees at joins; the 128 first-call trampolines additionally preserve every argument register and touch no vector register. Private-convention kernels are summarised and their callers checked with the summary. All paths, all exits: a proof of the property's register/stack clause for this build.",
   note="Trusted: LLVM 14 MC operand tables; SysV conformance of libc callees. Assumed (counted per function in the evidence): stores with an unknown index into a frame, or through non-stack pointers, do not hit register-save slots (that is C08's undecided bounds clause). Windows-only code is not assembled.",
   ref="3/C19"),
 "C11": dict(level="proof", technique="IR path enumeration + constant-folded decision table + field-provenance taint over the ctx layer",
   text="All 28 built _ctx_mgr_submit_<family> functions and the 5 isal_ submit wrappers are decided on every path: reject paths contain exactly the error store and no call (so manager, in-flight contexts, hash state and status are untouched); every accepted path clears ctx->error before the context can reach the manager; the (flags,status) decision table obtained by constant folding the guards equals the documented one; a wrapper's non-zero code mapped from an error field is provably about the submitted context; the error->code mapping is total and injective. Structural decision of the property's 'changes nothing / poisons no later call' clauses; digests of the other jobs are C01 (not applicable).",
   note="Trusted: clang-14 -O0 IR mirrors the C source; DWARF enumerators. The manager assembly is unreachable from reject paths because they contain no call. Base variants: the PROCESSING row is not judged (synchronous).",
   ref="3/C11"),
 "C16": dict(level="proof", technique="IR path enumeration over loop-free wrappers: guard-before-use typestate per pointer parameter, effect-free error paths, sibling guard-set agreement, legacy/isal_ forwarding equivalence",
   text="All 69 algorithm isal_ wrappers (default SAFE_PARAM build) are enumerated path by path: every pointer parameter is compared with NULL before any use, optional pointers are admitted only under a scalar-only condition whose other edge is an error return; every path returning a non-zero constant is effect-free; every working path returns 0 or the callee's result; wrappers with the same parameter list evaluate the same argument conditions (one confirmed minority idiom frozen); all 69 legacy wrappers forward their parameters in the same roles to the same internal callee as their isal_ twin. Decides the structure of the property, exhaustively over wrappers and paths.",
   note="Not decided: reads through a NULL-admitted optional pointer inside the internal callee (len == 0), and value equality of legacy vs isal_ results beyond 'same callee, same argument roles'. Documented domains in headers are prose; sibling consensus is the oracle for scalar domain checks.",
   ref="3/C16"),
 "C13": dict(level="proof", technique="IR dominance / gate-edge reachability over clang -O0+mem2reg IR of the FIPS_MODE build",
   text="Every isal_ entry point defined by the FIPS_MODE build is classified and decided on all paths: approved ones have every call/store dominated by the pass edge of the isal_self_tests() gate with the fail edge returning ISAL_CRYPTO_ERR_SELF_TEST effect-free; non-approved ones can only return ISAL_CRYPTO_ERR_FIPS_INVALID_ALGO and have no effects; the 8 XTS wrappers compare the two keys over their full extent first; isal_self_tests itself returns 0 only after a passing status or passing fresh run. Exhaustive over entry points and paths, so a proof of the structural rule.",
   note="Trusted: clang-14 IR at -O0 mirrors the C control flow; Makefile.unx FIPS_MODE=y flags are what a FIPS build uses; approved/non-approved classification by unit directory (as the property states it). The asm status protocol behind isal_self_tests is C17's job.",
   ref="3/C13"),
}

def main():
    props = [json.loads(l)["id"] for l in open(os.path.join(HERE, "properties.jsonl")) if l.strip()]
    checks = []
    for pid in props:
        if pid not in CHECKS:
            continue
        c = CHECKS[pid]
        checks.append({
            "property_id": pid,
            "quick_cmd": "./check %s --tier quick" % pid,
            "thorough_cmd": "./check %s --tier thorough" % pid,
            "evidence_file": "/verif/evidence/%s.json" % pid,
            "replay_cmd_template": "./check %s --replay {path}" % pid,
            "engine": c.get("engine", "static"),
            "level_claimed": {"category": c["level"], "text": c["text"], "design_ref": "DESIGN.md section " + c["ref"]},
            "level_note": c["note"],
            "technique": c["technique"],
        })
    na = []
    for pid in props:
        if pid in CHECKS:
            continue
        na.append({"property_id": pid, "reason": NA.get(pid, PENDING)})
    man = {
        "version": 1,
        "setup_cmd": "sh ./setup.sh",
        "hooks": {"guard": "ISAL_CRYPTO_VERIF", "enable": "none needed: objects and IR are analysed as built by the real flags; no hook exists in /repo",
                  "baseline_off_cmd": "cd /repo && make -j16 check", "source_commits": [], "add_only": True},
        "engines": [
            {"name": "static", "path": "/verif/check", "serves_properties": sorted(CHECKS), "kind_free_text": "static analysis: C++ lifters on LLVM-14 (x86lift over ELF objects via the MC layer, ir2json over clang IR) + Python dataflow/dominance/abstract-interpretation rule engines; nothing is executed"},
        ],
        "checks": checks,
        "not_applicable": na,
        "notes": "Technique family: static analysis only. See DESIGN.md. Known findings: /verif/known_findings.json.",
    }
    out = os.path.join(HERE, "MANIFEST.json")
    with open(out, "w") as fh:
        json.dump(man, fh, indent=1)
    try:
        import jsonschema
        jsonschema.validate(man, json.load(open("/root/.vp/MANIFEST.schema.json")))
        print("MANIFEST.json valid; %d checks, %d not_applicable" % (len(checks), len(na)))
    except ImportError:
        print("jsonschema not available; wrote MANIFEST.json unvalidated")

if __name__ == "__main__":
    main()
