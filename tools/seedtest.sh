#!/bin/sh
# usage: tools/seedtest.sh <patch.diff> <prop> [<prop>...]
# Applies a seeded change to a scratch copy of /repo's working tree (outside /repo and /verif, removed afterwards),
# runs the given checks on it and prints their verdict lines.  /repo itself is not touched.
P=$(readlink -f "$1"); shift
d=/var/tmp/seed_$$; rm -rf $d
rsync -a --exclude .git --exclude '*.o' --exclude '*.lo' --exclude .libs --exclude .deps --exclude bin /repo/ $d/; rc=$?; [ $rc -eq 0 ] || [ $rc -eq 24 ] || exit 2
trap 'rm -rf $d' EXIT
( cd $d && git init -q . >/dev/null 2>&1; git -C $d apply "$P" 2>/dev/null || git -C $d apply -C1 --recount "$P" ) || { echo "patch does not apply"; exit 2; }
cd /verif
export VERIF_REPO=$d VERIF_EVIDENCE_DIR=/tmp/vw/seed_evidence; mkdir -p $VERIF_EVIDENCE_DIR
for p in "$@"; do
  ./check $p > /tmp/vw/seedtest_$p.$$.log 2>&1; rc=$?
  echo "== $p exit=$rc  $(grep -c '^VIOLATION' /tmp/vw/seedtest_$p.$$.log) violation(s)"
  grep -A1 '^VIOLATION' /tmp/vw/seedtest_$p.$$.log | grep -v '^VIOLATION\|^--' | cut -c1-420 | head -6
  grep '^ANALYSIS-BROKEN' /tmp/vw/seedtest_$p.$$.log | cut -c1-300 | head -3
  rm -f /tmp/vw/seedtest_$p.$$.log
done
