#!/bin/sh
# usage: tools/seedtest.sh <patch.diff> <prop> [<prop>...]
# Applies a seeded change to /repo, runs the given checks, prints their verdict lines, and restores /repo.
P=$1; shift
cd /repo || exit 2
if [ -n "$(git status --porcelain --untracked-files=no)" ]; then echo "/repo is not clean"; exit 2; fi
git apply "$P" 2>/dev/null || git apply -C1 --recount "$P" || { echo "patch does not apply"; exit 2; }
trap 'git -C /repo checkout -- . ' EXIT
cd /verif
export VERIF_EVIDENCE_DIR=/tmp/vw/seed_evidence; mkdir -p $VERIF_EVIDENCE_DIR
for p in "$@"; do
  ./check $p > /tmp/vw/seedtest_$p.log 2>&1; rc=$?
  echo "== $p exit=$rc  $(grep -c '^VIOLATION' /tmp/vw/seedtest_$p.log) violation(s)"
  grep -A1 '^VIOLATION' /tmp/vw/seedtest_$p.log | grep -v '^VIOLATION\|^--' | cut -c1-420 | head -6
  grep '^ANALYSIS-BROKEN' /tmp/vw/seedtest_$p.log | cut -c1-300 | head -3
done
