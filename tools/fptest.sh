#!/bin/sh
# tools/fptest.sh <patch.diff> [checks...]   False-alarm test: apply a behaviour-preserving patch to a scratch copy
# of /repo (outside /repo and /verif, removed afterwards) and run the checks on it; every check must stay silent.
p=$(readlink -f "$1"); shift
d=/var/tmp/fp_$$; rm -rf $d; rsync -a --exclude .git --exclude '*.o' --exclude '*.lo' --exclude .libs --exclude .deps --exclude bin /repo/ $d/; rc=$?; [ $rc -eq 0 ] || [ $rc -eq 24 ] || exit 2
( cd $d && git init -q . >/dev/null 2>&1; git -C $d apply "$p" ) || { echo "patch does not apply"; rm -rf $d; exit 2; }
ev=/var/tmp/fp_ev_$$; mkdir -p $ev
cd /verif
checks=${*:-$(python3 -c "import json;print(' '.join(c['property_id'] for c in json.load(open('MANIFEST.json'))['checks']))")}
rc=0
for c in $checks; do
  out=$(VERIF_REPO=$d VERIF_EVIDENCE_DIR=$ev ./check $c 2>&1); e=$?
  echo "$c exit=$e $(echo "$out" | tail -1)"
  if [ $e -ne 0 ]; then rc=1; echo "$out" | grep -v "^VIOLATION" | head -6; fi
done
rm -rf $d $ev
exit $rc
