#!/bin/sh
# tools/fpsel.sh <dir-with-*/patch.diff> <logfile> <check> [<check>...]
# Like tools/fpall.sh, but runs each of the given checks only on the patches that touch the directories the check reads
# (used after a rule change to re-validate only what the change can affect).
cd /verif
D=$1; L=$2; shift; shift
: > "$L"
for p in "$D"/*/patch.diff; do
  dirs=$(grep '^diff --git' "$p" | sed 's|^diff --git a/\([^/]*\)/.*|\1|' | sort -u | tr '\n' ' ')
  sel=""
  for c in "$@"; do
    want=0
    for d in $dirs; do
      case "$c:$d" in
        C02:aes|C03:aes|C04:aes|C07:aes|C08:aes|C02:intel-ipsec-mb|C03:intel-ipsec-mb|C04:intel-ipsec-mb|C07:intel-ipsec-mb|C08:intel-ipsec-mb) want=1;;
        C09:rolling_hash|C08:rolling_hash) want=1;;
        C06:*_mb|C15:*_mb|C01:*_mb) want=1;;
        C05:mh_*|C10:mh_*|C08:mh_*) want=1;;
        C17:fips) want=1;;
        *:include|*:Makefile*|*:make.inc) want=1;;
      esac
    done
    [ $want = 1 ] && sel="$sel $c"
  done
  echo "== $p [$dirs] ->$sel" >> "$L"
  [ -n "$sel" ] && tools/fptest.sh "$p" $sel >> "$L" 2>&1
done
