// x86lift: ELF x86-64 relocatable object -> TSV facts for the rule engines.
//
// usage: x86lift <in.o> <out.lift>
//
// Records (tab separated):
//   O  <path>
//   X  <secidx> <name> <size> <flags:A|W|X|T(ext)|B(ss)> <addralign>
//   S  <name> <addr> <type:F|D|N|O> <secidx|-1> <binding:G|L|W> <size> <vis:D|H|I|P> <UND|COM|ABS|DEF>
//   R  <secidx-of-relocated-section> <offset> <symname> <addend> <typename> <symsecidx>
//   I  <secidx> <addr> <size> <opcode> <text> <ndefs> <flags> <ops> <idefs> <iuses> <relocs> <memop-start|-1>
//   B  <secidx> <addr>                      (undecodable byte, linear sweep only; reachability is decided later)
//   L  <secidx> <addr> <file> <line>        (line-table row)
//
// The instruction model is LLVM 14's MC layer: MCDisassembler decodes, MCInstrDesc
// supplies explicit/implicit defs and uses and the mayLoad/mayStore/branch flags.
#include "llvm/DebugInfo/DWARF/DWARFContext.h"
#include "llvm/DebugInfo/DWARF/DWARFDebugLine.h"
#include "llvm/MC/MCAsmInfo.h"
#include "llvm/MC/MCContext.h"
#include "llvm/MC/MCDisassembler/MCDisassembler.h"
#include "llvm/MC/MCInst.h"
#include "llvm/MC/MCInstPrinter.h"
#include "llvm/MC/MCInstrDesc.h"
#include "llvm/MC/MCInstrInfo.h"
#include "llvm/MC/MCRegisterInfo.h"
#include "llvm/MC/MCSubtargetInfo.h"
#include "llvm/MC/MCTargetOptions.h"
#include "llvm/MC/TargetRegistry.h"
#include "llvm/Object/ELFObjectFile.h"
#include "llvm/Object/ObjectFile.h"
#include "llvm/Support/MemoryBuffer.h"
#include "llvm/Support/TargetSelect.h"
#include "llvm/Support/raw_ostream.h"
#include <map>
using namespace llvm;
using namespace llvm::object;

int main(int argc, char **argv) {
  if (argc < 3) { errs() << "usage: x86lift in.o out.lift\n"; return 2; }
  InitializeAllTargetInfos(); InitializeAllTargetMCs(); InitializeAllDisassemblers();
  std::string TT = "x86_64-unknown-linux-gnu", Err;
  const Target *T = TargetRegistry::lookupTarget(TT, Err);
  if (!T) { errs() << Err << "\n"; return 2; }
  std::unique_ptr<MCRegisterInfo> MRI(T->createMCRegInfo(TT));
  MCTargetOptions MO;
  std::unique_ptr<MCAsmInfo> MAI(T->createMCAsmInfo(*MRI, TT, MO));
  std::unique_ptr<MCSubtargetInfo> STI(T->createMCSubtargetInfo(TT, "", ""));
  std::unique_ptr<MCInstrInfo> MII(T->createMCInstrInfo());
  MCContext Ctx(Triple(TT), MAI.get(), MRI.get(), STI.get());
  std::unique_ptr<MCDisassembler> Dis(T->createMCDisassembler(*STI, Ctx));
  std::unique_ptr<MCInstPrinter> IP(T->createMCInstPrinter(Triple(TT), 1, *MAI, *MII, *MRI));
  IP->setPrintImmHex(false);
  auto B = createBinary(argv[1]);
  if (!B) { errs() << "cannot open " << argv[1] << "\n"; return 2; }
  ObjectFile *Obj = dyn_cast<ObjectFile>(B->getBinary());
  auto *EO = dyn_cast<ELFObjectFileBase>(Obj);
  if (!Obj || !EO) { errs() << "not an ELF object\n"; return 2; }
  std::error_code EC;
  raw_fd_ostream out(argv[2], EC);
  if (EC) { errs() << "cannot write " << argv[2] << "\n"; return 2; }
  out << "O\t" << argv[1] << "\n";

  for (const SectionRef &S : Obj->sections()) {
    auto N = S.getName();
    ELFSectionRef ES(S);
    uint64_t fl = ES.getFlags();
    std::string f;
    if (fl & ELF::SHF_ALLOC) f += "A";
    if (fl & ELF::SHF_WRITE) f += "W";
    if (fl & ELF::SHF_EXECINSTR) f += "X";
    if (S.isText()) f += "T";
    if (S.isBSS()) f += "B";
    out << "X\t" << S.getIndex() << "\t" << (N ? *N : "") << "\t" << S.getSize() << "\t" << f << "\t"
        << S.getAlignment() << "\n";
  }
  for (const ELFSymbolRef &S : EO->symbols()) {
    auto N = S.getName(); auto A = S.getAddress(); auto Sec = S.getSection(); auto Fl = S.getFlags();
    if (!N || !Fl) continue;
    uint8_t ty = S.getELFType(), bind = S.getBinding(), other = S.getOther();
    if (ty == ELF::STT_SECTION || ty == ELF::STT_FILE) continue;
    int secidx = -1; const char *kind = "DEF";
    if (*Fl & SymbolRef::SF_Undefined) kind = "UND";
    else if (*Fl & SymbolRef::SF_Common) kind = "COM";
    else if (*Fl & SymbolRef::SF_Absolute) kind = "ABS";
    else if (Sec && *Sec != Obj->section_end()) secidx = (*Sec)->getIndex();
    uint64_t addr = A ? *A : 0;
    const char *t = ty == ELF::STT_FUNC ? "F" : ty == ELF::STT_OBJECT ? "D" : ty == ELF::STT_NOTYPE ? "N" : "O";
    const char *b = bind == ELF::STB_GLOBAL ? "G" : bind == ELF::STB_WEAK ? "W" : "L";
    unsigned vis = other & 3;
    const char *v = vis == ELF::STV_HIDDEN ? "H" : vis == ELF::STV_INTERNAL ? "I" : vis == ELF::STV_PROTECTED ? "P" : "D";
    out << "S\t" << *N << "\t" << addr << "\t" << t << "\t" << secidx << "\t" << b << "\t" << S.getSize() << "\t" << v
        << "\t" << kind << "\n";
  }
  // relocations, all sections
  std::map<unsigned, std::map<uint64_t, std::string>> relBySec;
  for (const SectionRef &RS : Obj->sections()) {
    auto R = RS.getRelocatedSection();
    if (!R || *R == Obj->section_end()) continue;
    unsigned tgt = (*R)->getIndex();
    for (const RelocationRef &Rl : RS.relocations()) {
      auto sym = Rl.getSymbol();
      std::string n = "?"; int ssec = -1;
      if (sym != Obj->symbol_end()) {
        auto x = sym->getName(); if (x) n = x->str();
        auto sec = sym->getSection();
        if (sec && *sec != Obj->section_end()) {
          ssec = (*sec)->getIndex();
          if (n.empty()) { auto y = (*sec)->getName(); if (y) n = ("sec:" + *y).str(); }
        }
      }
      int64_t add = 0; auto a = ELFRelocationRef(Rl).getAddend(); if (a) add = *a;
      SmallString<32> tn; Rl.getTypeName(tn);
      out << "R\t" << tgt << "\t" << Rl.getOffset() << "\t" << n << "\t" << add << "\t" << tn << "\t" << ssec << "\n";
      relBySec[tgt][Rl.getOffset()] = n + "+" + std::to_string(add) + ":" + tn.str().str() + ":" + std::to_string(ssec);
    }
  }
  // contents of small allocated data sections (initial values of statics, constant tables)
  for (const SectionRef &S : Obj->sections()) {
    ELFSectionRef ES(S);
    if (!(ES.getFlags() & ELF::SHF_ALLOC) || S.isText() || S.isBSS() || S.getSize() == 0 || S.getSize() > (1u << 20)) continue;
    auto C = S.getContents(); if (!C) continue;
    out << "C\t" << S.getIndex() << "\t";
    static const char *hx = "0123456789abcdef";
    for (unsigned char ch : *C) out << hx[ch >> 4] << hx[ch & 15];
    out << "\n";
  }
  std::string ibufs; raw_string_ostream ibuf(ibufs);
  for (const SectionRef &S : Obj->sections()) {
    if (!S.isText()) continue;
    unsigned si = S.getIndex();
    auto &rel = relBySec[si];
    auto C = S.getContents(); if (!C) continue;
    ArrayRef<uint8_t> Bytes((const uint8_t *)C->data(), C->size());
    uint64_t off = 0;
    while (off < Bytes.size()) {
      MCInst I; uint64_t sz;
      auto st = Dis->getInstruction(I, sz, Bytes.slice(off), off, nulls());
      if (st != MCDisassembler::Success) { ibuf << "B\t" << si << "\t" << off << "\n"; off += 1; continue; }
      const MCInstrDesc &D = MII->get(I.getOpcode());
      std::string s; raw_string_ostream os(s);
      IP->printInst(&I, off, "", *STI, os);
      for (auto &c : os.str()) if (c == '\t') c = ' ';
      ibuf << "I\t" << si << "\t" << off << "\t" << sz << "\t" << MII->getName(I.getOpcode()) << "\t" << s << "\t"
          << D.getNumDefs() << "\t";
      ibuf << (D.mayLoad() ? "L" : "") << (D.mayStore() ? "S" : "") << (D.isCall() ? "C" : "") << (D.isReturn() ? "R" : "")
          << (D.isBranch() ? "B" : "") << (D.isIndirectBranch() ? "I" : "") << (D.isConditionalBranch() ? "J" : "")
          << (D.isUnconditionalBranch() ? "U" : "") << (D.hasUnmodeledSideEffects() ? "E" : "") << "\t";
      int memstart = -1;
      for (unsigned i = 0; i < I.getNumOperands(); i++) {
        auto &O = I.getOperand(i);
        int ot = i < D.getNumOperands() ? D.OpInfo[i].OperandType : -1;
        if (ot == MCOI::OPERAND_MEMORY && memstart < 0) memstart = i;
        if (O.isReg()) ibuf << "r:" << MRI->getName(O.getReg());
        else if (O.isImm()) ibuf << "i:" << O.getImm();
        else ibuf << "?";
        int tied = i < D.getNumOperands() ? D.getOperandConstraint(i, MCOI::TIED_TO) : -1;
        ibuf << "/" << ot << "/" << tied << ",";
      }
      ibuf << "\t";
      if (const MCPhysReg *p = D.getImplicitDefs()) for (; *p; ++p) ibuf << MRI->getName(*p) << ",";
      ibuf << "\t";
      if (const MCPhysReg *p = D.getImplicitUses()) for (; *p; ++p) ibuf << MRI->getName(*p) << ",";
      ibuf << "\t";
      for (uint64_t k = off; k < off + sz; k++) {
        auto it = rel.find(k);
        if (it != rel.end()) ibuf << (k - off) << "@" << it->second << ";";
      }
      ibuf << "\t" << memstart << "\n";
      {
        const char *kind = D.isCall() ? "call" : D.isBranch() ? "jmp" : (MII->getName(I.getOpcode()).startswith("LEA") ? "lea" : (D.mayStore() ? (D.mayLoad() ? "rmw" : "store") : (D.mayLoad() ? "load" : "other")));
        bool anyrel = false;
        for (uint64_t k = off; k < off + sz; k++) {
          auto it = rel.find(k);
          if (it != rel.end()) { anyrel = true; out << "E\t" << si << "\t" << off << "\t" << sz << "\t" << kind << "\t" << (k - off) << "\t" << it->second << "\t" << MII->getName(I.getOpcode()) << "\n"; }
        }
        if (!anyrel && D.isCall() && I.getNumOperands() > 0 && I.getOperand(0).isImm() && !D.isIndirectBranch())
          out << "T\t" << si << "\t" << off << "\t" << (int64_t)(off + sz + I.getOperand(0).getImm()) << "\n";
      }
      off += sz;
    }
  }
  out << "#INS\n" << ibuf.str();
  // line table
  std::unique_ptr<DWARFContext> DC = DWARFContext::create(*Obj);
  if (DC) {
    for (const auto &CU : DC->compile_units()) {
      const DWARFDebugLine::LineTable *LT = DC->getLineTableForUnit(CU.get());
      if (!LT) continue;
      uint64_t lastLine = ~0ull, lastFile = ~0ull, lastSec = ~0ull;
      for (const auto &Row : LT->Rows) {
        if (Row.EndSequence) { lastLine = ~0ull; continue; }
        if (Row.Line == lastLine && Row.File == lastFile && Row.Address.SectionIndex == lastSec) continue;
        std::string fn;
        LT->getFileNameByIndex(Row.File, CU->getCompilationDir(), DILineInfoSpecifier::FileLineInfoKind::RawValue, fn);
        out << "L\t" << Row.Address.SectionIndex << "\t" << Row.Address.Address << "\t" << fn << "\t" << Row.Line << "\n";
        lastLine = Row.Line; lastFile = Row.File; lastSec = Row.Address.SectionIndex;
      }
    }
  }
  out.flush();
  return 0;
}
