import subprocess, os, re, sys
W='/tmp/vw/am/w'
def rd(p): return open(os.path.join(W,p)).read()
def wr(p,s): open(os.path.join(W,p),'w').write(s)
def sub1(p, old, new, regex=False):
    s=rd(p)
    if regex:
        s2,n=re.subn(old,new,s,count=1,flags=re.I)
        assert n==1,(p,old)
    else:
        assert old in s,(p,old)
        s2=s.replace(old,new,1)
    wr(p,s2)
M={}
def m(name, prop, title, why):
    def deco(fn): M[name]=(prop,title,why,fn); return fn
    return deco
@m('C03-a1','C03','XTS-AES-256 decrypt (avx) tests the length against 15 instead of 16','a 15-byte call falls into the one-block path and reads/writes 16 bytes through both buffers; the clause "for lengths below 16 neither buffer is touched" fails for len = 15 only in this family')
def _(): sub1('aes/XTS_AES_256_dec_avx.asm',"\tcmp N_val, 16\n\tjb _ret_\n","\tcmp N_val, 15\n\tjb _ret_\n")
@m('C03-a2','C03','XTS-AES-128 expanded-key encrypt (sse) loads the first plaintext block with movdqa','an aligned load on the caller\'s data: a plaintext pointer that is not 16-byte aligned faults; the test buffers are aligned')
def _(): sub1('aes/XTS_AES_128_enc_expanded_key_sse.asm',"movdqu  %%ST1, [ptr_plaintext+16*0]","movdqa  %%ST1, [ptr_plaintext+16*0]")
@m('C04-a1','C04','AES-128 key expansion (avx) stores round key 3 into the decryption schedule without aesimc','decryption with the avx-expanded schedule is wrong; the host dispatches key expansion to ... (tests use the dispatched path only)')
def _(): sub1('aes/keyexp_128.asm',"        vaesimc\txmm4, xmm1\n        vmovdqu\t[EXP_DEC_KEYS + 16*7], xmm4","        vmovdqu\t[EXP_DEC_KEYS + 16*7], xmm1")
@m('C04-a2','C04','AES-128 key expansion (sse) uses round constant 0x1d for round 9','round keys 9 and 10 differ from FIPS-197')
def _(): sub1('aes/keyexp_128.asm',"aeskeygenassist xmm2, xmm1, 0x1b","aeskeygenassist xmm2, xmm1, 0x1d")
@m('C04-a3','C04','AES-192 key expansion (avx) writes decryption slot 11-i instead of 12-i','the decryption schedule is shifted by one round; slot 12 is never written')
def _(): sub1('aes/keyexp_192.asm',"vmovdqu [EXP_DEC_KEYS + 16 * (12 - %1)], xmm1","vmovdqu [EXP_DEC_KEYS + 16 * (11 - %1)], xmm1")
@m('C04-a4','C04','CBC-128 encrypt x4 uses movdqa for all data moves','aligned moves on the caller\'s in/out buffers fault for unaligned data; x4 is not the dispatched body on the test host')
def _(): sub1('aes/cbc_enc_128_x4_sb.asm',"%define MOVDQ         movdqu","%define MOVDQ         movdqa")
@m('C02-a1','C02','gcm_avx_gen4: the 12-byte tag path stores 8 bytes at offset 8','writes 4 bytes beyond a 12-byte tag buffer (gen4 family, tag_len = 12 only)')
def _(): sub1('aes/gcm_avx_gen4.asm',"        vmovd    eax, xmm9\n        mov     [r10 + 8], eax\n","        vmovq    rax, xmm9\n        mov     [r10 + 8], rax\n")
@m('C02-a2','C02','gcm_sse: the 8-byte tag path stores only 4 bytes','half of an 8-byte tag is left unwritten (sse family, tag_len = 8 only)')
def _(): sub1('aes/gcm_sse.asm',"%%_T_8:\n        movq    rax, xmm9\n        mov     [r10], rax\n","%%_T_8:\n        movd    eax, xmm9\n        mov     [r10], eax\n")
@m('C02-a3','C02','gcm_sse: CALC_AAD_HASH loads AAD blocks with movdqa','unaligned AAD faults in the sse family')
def _(): sub1('aes/gcm_sse.asm',"\tmovdqu\t%%XTMP1, [%%T1]","\tmovdqa\t%%XTMP1, [%%T1]")
@m('C01-a1','C01','sha256_mb_x8_avx2 loads message data with vmovaps','unaligned message buffers fault in the avx2 family')
def _(): sub1('sha256_mb/sha256_mb_x8_avx2.asm',"%define VMOVPS\tvmovups","%define VMOVPS\tvmovaps")
@m('C01-a2','C01','one SHA-512 round constant changed in the sse kernel table','every SHA-512 digest computed by the sse family is wrong; the test host never dispatches to it')
def _(): sub1('sha512_mb/sha512_mb_x2_sse.asm',r"0x550c7dc3d5ffb4e2","0x550c7dc3d5ffb4e3",regex=True)
@m('C01-a3','C01','one SM3 T_j constant changed in the avx2 kernel table','SM3 digests of the avx2 family are wrong')
def _(): sub1('sm3_mb/sm3_mb_x8_avx2.asm',"dq 0x7311465e7311465e,0x7311465e7311465e","dq 0x7311465f7311465f,0x7311465f7311465f")
@m('C05-a1','C05','mh_sha256_block_avx loads input with vmovaps','unaligned update buffers fault in the avx family')
def _():
    s=rd('mh_sha256/mh_sha256_block_avx.asm'); s=s.replace("\tVMOVPS   TT0,[mh_in_p + I*64+0*16]","\tvmovaps  TT0,[mh_in_p + I*64+0*16]",1); wr('mh_sha256/mh_sha256_block_avx.asm',s)
@m('C05-a2','C05','mh_sha256 update adds 2*len-1 to total_length','padding and partial-block size are derived from a wrong stream length')
def _(): sub1('mh_sha256/mh_sha256_update_base.c',"ctx->total_length += len;","ctx->total_length += 2 * len - 1;")
@m('C10-a1','C10','murmur init seeds only the first state word','h2 starts from 0 instead of the seed')
def _(): sub1('mh_sha1_murmur3_x64_128/mh_sha1_murmur3_x64_128.c',"murmur3_x64_128_hash[1] = murmur_seed;","murmur3_x64_128_hash[1] = 0;")
@m('C10-a2','C10','stitched update counts the bytes only when a full block is available','short updates are not added to total_length: the murmur tail length and SHA-1 padding are wrong for streams fed in small pieces')
def _():
    p='mh_sha1_murmur3_x64_128/mh_sha1_murmur3_x64_128_update_base.c'
    s=rd(p); s=s.replace("        ctx->total_length += len;\n","",1)
    k=s.index("        // mh_sha1 calculation for the previous partial block"); s=s[:k]+"        ctx->total_length += len;\n"+s[k:]; wr(p,s)
@m('C10-a3','C10','murmur c2 changed in the avx2 stitched block function','the murmur half of the avx2 family computes a different function')
def _(): sub1('mh_sha1_murmur3_x64_128/mh_sha1_murmur3_x64_128_block_avx2.asm',"0x4cf5ad432745937f","0x4cf5ad432745937e")
@m('C08-a1','C08','CBC-256 decrypt (sse) loses its zero-length test','a zero-length call decrypts one block: 16 bytes read through in, 16 written through out')
def _(): sub1('aes/cbc_dec_256_x8_sse.asm',"\ttest\targ5, arg5\t\t; nothing to do for a zero length\n\tjz\t.done\n","")

@m('C07-a1','C07','gcm_avx_gen4 update no longer adds len to ctx->in_length','finalize hashes a message length that omits every streamed byte of the gen4 family: the tag differs from the one-shot tag')
def _(): sub1('aes/gcm_avx_gen4.asm',"        add    [%%GDATA_CTX+InLen], %%PLAIN_CYPH_LEN\n","")
@m('C07-a2','C07','gcm_sse: the length accounting moved behind the partial-block step','an update that is fully absorbed by the pending partial block returns before counting its bytes')
def _():
    p='aes/gcm_sse.asm'
    s=rd(p)
    old="\tadd\t[%%GDATA_CTX + InLen], %%PLAIN_CYPH_LEN ;Update length of data processed\n"
    assert old in s, 'sse add'
    s=s.replace(old,"",1)
    k=s.index("        mov     r13, %%PLAIN_CYPH_LEN                               ; save the number of bytes of plaintext/ciphertext")
    s=s[:k]+old+s[k:]
    wr(p,s)
@m('C07-a3','C07','gcm_avx_gen2 init no longer clears partial_block_length','a context reused for a new message starts with the previous message\'s partial-block length')
def _(): sub1('aes/gcm_avx_gen2.asm',"\tmov\t[%%GDATA_CTX + PBlockLen], r10\t\t; ctx_data.partial_block_length = 0\n","")
@m('C02-a4','C02','reverts the repair of the GHASH length block in gcm_sse (len(A) moved with movd from r12d)','the genuine defect found on the original tree: for an AAD of 2^29 bytes or more the sse family truncates len(A); replay: replay/c02_aad_len_2p29.sh')
def _(): sub1('aes/gcm_sse.asm',"        movq    xmm15, r12                              ; len(A) in xmm15","        movd    xmm15, r12d                             ; len(A) in xmm15")

@m('C09-a1','C09','reverts the repair of the base scan loop bound (int max_idx, int i)','the genuine defect found on the original tree: a run of 2^31 bytes or more consumes nothing in the base implementation; replay: replay/c09_base_2g.sh')
def _():
    s=rd('rolling_hash/rolling_hash2.c')
    s=s.replace("uint32_t *idx, uint32_t max_idx","uint32_t *idx, int max_idx").replace("        uint32_t i = *idx;","        int i = *idx;")
    wr('rolling_hash/rolling_hash2.c',s)

@m('C06-a1','C06','sha256 dispatcher binds the avx flush layer in the avx2 slot','on an AVX2-only CPU init and submit run the 8-lane avx2 managers while flush runs the 4-lane avx manager on the same state')
def _(): sub1('sha256_mb/sha256_multibinary.asm',"_sha256_ctx_mgr_flush_sse, _sha256_ctx_mgr_flush_avx, _sha256_ctx_mgr_flush_avx2,","_sha256_ctx_mgr_flush_sse, _sha256_ctx_mgr_flush_avx, _sha256_ctx_mgr_flush_avx,")
@m('C02-a5','C02','gcm_avx_gen4 GHASH_LAST_8 multiplies the first of the last eight blocks by H^7','every gen4 tag over 8 or more blocks is wrong (one-shot and streaming); the host dispatches to VAES')
def _():
    s=rd('aes/gcm_avx_gen4.asm'); k=s.index("%macro  GHASH_LAST_8 16"); k2=s.index("vmovdqu         %%T5, [%%GDATA + HashKey_8]",k)
    s=s[:k2]+"vmovdqu         %%T5, [%%GDATA + HashKey_7]"+s[k2+len("vmovdqu         %%T5, [%%GDATA + HashKey_8]"):]; wr('aes/gcm_avx_gen4.asm',s)
@m('C07-a4','C07','gcm_sse finalize skips the multiply of a pending partial block','streams that end in a partial block get a tag that differs from the one-shot tag (sse family)')
def _(): sub1('aes/gcm_sse.asm',"\tcmp\tr12, 0\n\n\tje %%_partial_done\n","\tcmp\tr12, 0\n\n\tjmp %%_partial_done\n")
@m('C02-a6','C02','gcm_sse CALC_AAD_HASH: the last AAD block is xored in without the multiply','AAD lengths that are not a multiple of 16... every AAD: the tag polynomial misses one power of H for the AAD (sse family)')
def _():
    s=rd('aes/gcm_sse.asm'); k=s.index("%macro\tCALC_AAD_HASH") if "%macro\tCALC_AAD_HASH" in s else s.index("%macro  CALC_AAD_HASH")
    k2=s.index("%%_CALC_AAD_done",k)
    seg=s[k:k2]
    j=seg.rindex("GHASH_MUL")
    line_end=seg.index("\n",j)
    seg=seg[:j]+";"+seg[j:]
    s=s[:k]+seg+s[k2:]; wr('aes/gcm_sse.asm',s)

@m('C04-a5','C04','AES-192 CBC decrypt (sse) is instantiated with 10 inner rounds','one round is missing: the last-round instruction meets round key 11 of 12; the sse family is not dispatched on the test host')
def _(): sub1('aes/cbc_dec_192_x8_sse.asm',"        AES_CBC_DEC arg1, arg2, arg3, arg4, arg5, r10, 11","        AES_CBC_DEC arg1, arg2, arg3, arg4, arg5, r10, 10")
@m('C04-a6','C04','CBC decrypt by8 (sse): every block of a group is chained with the group\'s first ciphertext block','blocks 2..7 of each group of eight are xored with the wrong ciphertext block')
def _(): sub1('intel-ipsec-mb/lib/include/aes_cbc_dec_by8_sse.inc',"\tpxor\t        CONCAT(xdata,i), CONCAT(xiv,j)\n%assign i (i + 1)\n%assign j (j + 1)\n","\tpxor\t        CONCAT(xdata,i), CONCAT(xiv,j)\n%assign i (i + 1)\n")
@m('C03-a3','C03','XTS-AES-128 expanded-key encrypt (avx): round 9 of the eight-block loop loads round key 8','round key 8 is applied twice and round key 9 never, in the avx family only')
def _(): sub1('aes/XTS_AES_128_enc_expanded_key_avx.asm',"\t; round 9\n\tvmovdqa  %%T0, [keys + 16*9]\n\tvaesenc  %%ST1, %%T0\n%if (%%num_blocks>=2)","\t; round 9\n\tvmovdqa  %%T0, [keys + 16*8]\n\tvaesenc  %%ST1, %%T0\n%if (%%num_blocks>=2)")
@m('C02-a7','C02','gcm_sse: the 256-bit eight-block loop loads round key 12 where round 13 is due','AES-256 GCM of the sse family applies round key 12 twice')
def _(): sub1('aes/gcm_sse.asm',"\t\tmovdqu\t%%T1, [%%GDATA + 16*13]\n\t\taesenc\t%%XMM1, %%T1","\t\tmovdqu\t%%T1, [%%GDATA + 16*12]\n\t\taesenc\t%%XMM1, %%T1")

@m('C08-a2','C08','rolling hash run: the window loop stops one byte early','the scan routine is entered with i = w-1 and reads buffer[i - w] = buffer[-1], one byte in front of the caller\'s buffer')
def _(): sub1('rolling_hash/rolling_hash2.c',"        for (i = 0; i < w; i++) {\n                if (i == buffer_length) {","        for (i = 0; i < w - 1; i++) {\n                if (i == buffer_length) {")

@m('C01-a4','C01','md5 avx ctx layer: a carried block that becomes exactly full is not submitted','the full block stays in the carried buffer with partial_block_buffer_length = 64; the next bytes are hashed before it or over it')
def _(): sub1('md5_mb/md5_ctx_avx.c',"if (ctx->partial_block_buffer_length >= ISAL_MD5_BLOCK_SIZE) {","if (ctx->partial_block_buffer_length > ISAL_MD5_BLOCK_SIZE) {")
@m('C01-a5','C01','sm3 avx2 ctx layer: the tail saved for the next call is taken from the start of the buffer','the bytes carried into the next call are the first bytes of this call\'s buffer instead of the unhashed tail')
def _(): sub1('sm3_mb/sm3_ctx_avx2.c',"                                memcpy_varlen(ctx->partial_block_buffer,\n                                              ((const char *) buffer + len), copy_len);","                                memcpy_varlen(ctx->partial_block_buffer,\n                                              ((const char *) buffer), copy_len);")

@m('C05-a4','C05','mh_sha256 tail: a residue that leaves exactly room for the length field is padded with two blocks','streams whose length is 1015 mod 1024 get an extra all-zero block hashed before the length block')
def _(): sub1('mh_sha256/mh_sha256_finalize_base.c',"if (partial_buffer_len > (ISAL_MH_SHA256_BLOCK_SIZE - 8)) {","if (partial_buffer_len >= (ISAL_MH_SHA256_BLOCK_SIZE - 8)) {")

@m('C08-a3','C08','CBC decrypt by8 (sse): the last block of a message that is exactly 1..7 blocks long is never stored','for lengths of 16..112 bytes the final 16 output bytes keep whatever the caller\'s buffer held')
def _(): sub1('intel-ipsec-mb/lib/include/aes_cbc_dec_by8_sse.inc',"        ;; short message - just store\n        movdqu\t        [%%p_out  + (i * 16)], CONCAT(xdata,i)\n","        ;; short message - just store\n")

@m('C02-a8','C02','gcm_avx_gen4: the counter-wrap test of the eight-block loop is off by one','with a counter low byte of 248 the cheap big-endian add of 8 wraps the byte without carry: wrong key stream for one in 256 IVs per eight blocks, gen4 family only')
def _(): sub1('aes/gcm_avx_gen4.asm',"        cmp     r15d, 255-8\n        jg      %%_encrypt_by_8\n","        cmp     r15d, 256-8\n        jg      %%_encrypt_by_8\n")

@m('C03-a4','C03','XTS-AES-128 decrypt (vaes): the previous tweak for the stolen block is not divided by alpha','for lengths of 8 blocks plus a tail the last full block is decrypted with the tweak of the block after it')
def _(): sub1('aes/XTS_AES_128_dec_vaes.asm',"\tvpshrdq\t\txmm0, xmm9, xmm10, 1\n","\tvmovdqa\t\txmm0, xmm9\n")

out='/verif/seeded'
only=set(sys.argv[1:])
import json
for name,(prop,title,why,fn) in M.items():
    if only and name not in only: continue
    subprocess.run(['git','checkout','-q','--','.'],cwd=W,check=True)
    fn()
    d=subprocess.run(['git','diff'],cwd=W,capture_output=True,text=True).stdout
    assert d.strip(), name
    os.makedirs(os.path.join(out,name),exist_ok=True)
    open(os.path.join(out,name,'patch.diff'),'w').write(d)
    open(os.path.join(out,name,'notes.md'),'w').write("# %s\n\n%s.\n\nWhy it breaks %s: %s.\n\nOrigin: written by the author of the checks as a self-test instance (not an independent seeding agent); not run against the test suite.\n" % (name,title,prop,why))
    json.dump({"property":prop,"breaks":prop,"title":title,"origin":"author-made self-test instance (no independent confirmation; builds, test suite not run)","detected_by":{}},open(os.path.join(out,name,'meta.json'),'w'),indent=1)
subprocess.run(['git','checkout','-q','--','.'],cwd=W,check=True)
print(len(M))
