#!/bin/sh
# usage: tools/seedverify.sh <change_dir> <scratch_worktree>
# Confirms a seeded change: applies to a scratch worktree, builds, runs the repo's tests, runs the demo (must
# fail), reverts, rebuilds, runs the demo again (must pass).  Prints a one-line verdict.
C=$1; W=$2
cd "$W" || exit 2
git checkout -q -- . ; git clean -fdxq 2>/dev/null
git apply "$C/patch.diff" || { echo "VERDICT $C: patch does not apply"; exit 1; }
make -f Makefile.unx -j8 check > "$C/verify_check_with.log" 2>&1; rc_check=$?
grep -qi "fail" "$C/verify_check_with.log" && fails=$(grep -ci "fail" "$C/verify_check_with.log") || fails=0
bash "$C/demo.sh" "$W" > "$C/verify_demo_with.log" 2>&1; rc_with=$?
git checkout -q -- . ; git clean -fdxq 2>/dev/null
make -f Makefile.unx -j8 lib > /dev/null 2>&1
bash "$C/demo.sh" "$W" > "$C/verify_demo_without.log" 2>&1; rc_without=$?
git checkout -q -- . ; git clean -fdxq 2>/dev/null
echo "VERDICT $C: tests_exit=$rc_check fail_lines=$fails demo_with=$rc_with demo_without=$rc_without"
