#!/bin/sh
# usage: tools/seedverify.sh <change_dir> <scratch_worktree>
# Confirms a seeded change: applies to a scratch worktree, builds, runs the repo's tests, runs the demo (must
# fail), reverts, rebuilds, runs the demo again (must pass).  Prints a one-line verdict.
C=$1; W=$2
cd "$W" || exit 2
git checkout -q -- . ; git clean -fdxq 2>/dev/null
git apply "$C/patch.diff" || { echo "VERDICT $C: patch does not apply"; exit 1; }
# Makefile.unx baseline on the repaired tree: exactly one known failing test, mh_sha256_test (its test-only
# reference mh_sha256_ref.c is miscompiled by this build; the pinned autotools suite passes 37/37).  A change is
# accepted when no other test fails.
make -f Makefile.unx -k -j8 check > "$C/verify_check_with.log" 2>&1
failing=$(sed -n 's/^make: \*\*\* \[[^]]*: \([A-Za-z0-9_]*\)\.run\] Error.*/\1/p' "$C/verify_check_with.log" | sort -u | grep -v '^mh_sha256_test$' | tr '\n' ' ')
ran=$(grep -c "^[ \t]*\./\|Pass\|pass" "$C/verify_check_with.log")
if [ -z "$failing" ] && [ "$ran" -gt 20 ]; then rc_check=0; fails=0; else rc_check=1; fails=$(echo $failing | wc -w); echo "other failing tests: $failing" >> "$C/verify_check_with.log"; fi
bash "$C/demo.sh" "$W" > "$C/verify_demo_with.log" 2>&1; rc_with=$?
git checkout -q -- . ; git clean -fdxq 2>/dev/null
make -f Makefile.unx -j8 lib > /dev/null 2>&1
bash "$C/demo.sh" "$W" > "$C/verify_demo_without.log" 2>&1; rc_without=$?
git checkout -q -- . ; git clean -fdxq 2>/dev/null
echo "VERDICT $C: tests_exit=$rc_check fail_lines=$fails demo_with=$rc_with demo_without=$rc_without"
