#!/bin/sh
# tools/fpall.sh [dir-with-<name>/patch.diff ...] [logfile]   run tools/fptest.sh over a directory of behaviour-preserving
# patches (default: /verif/fpcorpus, the 48 patches written by the refactoring sub-agents); every check must stay silent.
cd /verif
D=${1:-/verif/fpcorpus}; L=${2:-/dev/stdout}
for p in "$D"/*/patch.diff; do
  echo "== $p"
  tools/fptest.sh "$p" $FP_CHECKS
done > "$L" 2>&1
