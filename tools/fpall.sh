#!/bin/sh
# tools/fpall.sh <dir-with-change_k/patch.diff> <logfile>   run tools/fptest.sh over a directory of behaviour-preserving patches
cd /verif
for p in "$1"/change_*/patch.diff; do
  echo "== $p"
  tools/fptest.sh "$p" $FP_CHECKS
done > "$2" 2>&1
