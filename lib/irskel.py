"""Constant-propagation interpreter over the C units' IR (clang -O0 + mem2reg), the C counterpart of lib/lenrun.py.

With the scalar arguments and a few scalar fields of the context fixed, every branch of a bookkeeping function
(how many bytes go into the carried block, how many blocks are handed to the block function, what remains) folds to
a constant and exactly one path is followed.  Values are integers, `(p, tag, offset)` pointers into caller objects,
or unknown; no data byte is ever read.  Calls are not entered: they are recorded as events with their evaluated
arguments (the memcpy / memset intrinsics included).  A branch on an unknown value stops the run, which is then not
judged.
"""
import re

import ir


class Unknown(Exception):
    pass


def _bits(ty):
    m = re.match(r"^i(\d+)$", ty or "")
    return int(m.group(1)) if m else None


def _elem_size(ty):
    b = _bits(ty)
    if b:
        return max(1, b // 8)
    if (ty or "").endswith("*"):
        return 8
    return None


class Run(object):
    def __init__(self):
        self.events = []      # ("call", callee, [values], inst) | ("store", tag, off, size, value, inst)
        self.ret = None
        self.steps = 0
        self.blocks = []


def run(F, args, mem_init=None, max_steps=200000, enter=None, extern=None, keep=None, unknown_dir=None, _shared=None, _depth=0):
    """args: list of values per parameter.  mem_init(tag, off, size) -> int | None for loads from caller objects.
    enter(callee name) -> Function to interpret in place (same memory, same event list) or None;
    extern(callee name, argument values) -> modelled return value of a call that is not entered (or None);
    keep(callee name) -> True when the call is taken not to write any scalar the interpreter tracks;
    unknown_dir: None = stop at a branch on an undetermined value; 0 / 1 = take every such branch that way."""
    env = {}
    if _shared is None:
        mem = {}
        res = Run()
    else:
        mem, res0 = _shared
        res = Run()
        res.events = res0.events
        res.steps = res0.steps

    def val(v):
        if isinstance(v, dict):
            k = v.get("k")
            if k == "c":
                b = v.get("bits") or 64
                x = v.get("v")
                if v.get("zs") is not None:
                    try:
                        x = int(v["zs"])
                    except (TypeError, ValueError):
                        pass
                if isinstance(x, int):
                    return x & ((1 << b) - 1)
                return None
            if k == "a":
                return args[v["n"]] if v["n"] < len(args) else None
            if k == "i":
                return env.get(v["id"])
            if k == "null":
                return 0
            if k == "g":
                return ("p", "g:" + v.get("name", "?"), 0)
            return None
        return None

    blk = F.entry
    prev = None
    while True:
        res.blocks.append(blk.id)
        # phis first, evaluated in parallel
        newv = {}
        for I in blk.insts:
            if I.op != "phi":
                break
            x = None
            for inc in I.incoming:
                if prev is not None and inc["b"] == prev.id:
                    x = val(inc["v"])
            newv[I.id] = x
        env.update(newv)
        nxt = None
        for I in blk.insts:
            res.steps += 1
            if res.steps > max_steps:
                raise Unknown("step budget exhausted in %s" % F.name)
            op = I.op
            if op == "phi":
                continue
            o = [val(x) for x in I.ops]
            b = _bits(I.ty)
            m = (1 << b) - 1 if b else None
            r = None
            if op in ("add", "sub", "mul", "and", "or", "xor", "shl", "lshr", "ashr", "udiv", "urem", "sdiv", "srem"):
                x, y = o[0], o[1]
                if isinstance(x, int) and isinstance(y, int) and m is not None:
                    if op == "add":
                        r = (x + y) & m
                    elif op == "sub":
                        r = (x - y) & m
                    elif op == "mul":
                        r = (x * y) & m
                    elif op == "and":
                        r = x & y
                    elif op == "or":
                        r = x | y
                    elif op == "xor":
                        r = x ^ y
                    elif op == "shl":
                        r = (x << (y % b)) & m
                    elif op == "lshr":
                        r = x >> (y % b)
                    elif op == "udiv":
                        r = x // y if y else None
                    elif op == "urem":
                        r = x % y if y else None
                    else:
                        sx = x - (1 << b) if x >> (b - 1) else x
                        sy = y - (1 << b) if y >> (b - 1) else y
                        if op == "ashr":
                            r = (sx >> (y % b)) & m
                        elif sy:
                            q = abs(sx) // abs(sy) * (1 if (sx < 0) == (sy < 0) else -1)
                            r = (q if op == "sdiv" else sx - q * sy) & m
                elif isinstance(x, tuple) and isinstance(y, int) and op in ("add", "sub") and m is not None:
                    sy = y - (1 << b) if y >> (b - 1) else y
                    r = ("p", x[1], x[2] + (sy if op == "add" else -sy))
                elif isinstance(x, tuple) and isinstance(y, tuple) and op == "sub" and x[1] == y[1] and m is not None:
                    r = (x[2] - y[2]) & m
            elif op in ("zext", "trunc", "freeze", "bitcast", "ptrtoint", "inttoptr", "sext"):
                x = o[0]
                if isinstance(x, int):
                    if op == "sext":
                        sb = _bits(I.raw.get("srcty"))
                        if sb and x >> (sb - 1):
                            x |= ((1 << (b or 64)) - 1) & ~((1 << sb) - 1)
                    r = x & m if m is not None else x
                else:
                    r = x
            elif op == "icmp":
                x, y = o[0], o[1]
                pred = I.pred
                if isinstance(x, tuple) and y == 0 and pred in ("eq", "ne"):
                    r = 1 if pred == "ne" else 0
                elif isinstance(x, tuple) and isinstance(y, tuple) and x[1] == y[1]:
                    x, y = x[2], y[2]
                if r is None and isinstance(x, int) and isinstance(y, int):
                    sb = _bits(I.raw.get("opty") or "") or 64
                    if pred in ("slt", "sle", "sgt", "sge"):
                        # operand width is not recorded: take it from the constant operand if there is one
                        for q in I.ops:
                            if isinstance(q, dict) and q.get("k") == "c" and q.get("bits"):
                                sb = q["bits"]
                        x = x - (1 << sb) if x >> (sb - 1) else x
                        y = y - (1 << sb) if y >> (sb - 1) else y
                    r = int({"eq": x == y, "ne": x != y, "ult": x < y, "ule": x <= y, "ugt": x > y, "uge": x >= y,
                             "slt": x < y, "sle": x <= y, "sgt": x > y, "sge": x >= y}[pred])
            elif op == "select":
                c = o[0]
                r = None if c is None else (o[1] if c else o[2])
            elif op == "getelementptr":
                base = o[0]
                if isinstance(base, tuple):
                    if I.raw.get("off") is not None:
                        r = ("p", base[1], base[2] + I.raw["off"])
                    else:
                        off = 0
                        ok = True
                        idx = o[1:]
                        path = I.raw.get("path", [])
                        if len(idx) == len(path) + 1:
                            es = _elem_size(I.raw.get("srcty"))
                            if idx[0] == 0:
                                pass
                            elif isinstance(idx[0], int) and es:
                                s0 = idx[0] - (1 << 64) if idx[0] >> 63 else idx[0]
                                off += s0 * es
                            else:
                                ok = False
                            idx = idx[1:]
                        for e, iv in zip(path, idx):
                            if "struct" in e:
                                off += e["off"]
                            elif e.get("array"):
                                k = e.get("index")
                                if k is None:
                                    k = iv
                                if not isinstance(k, int):
                                    ok = False
                                    break
                                k = k - (1 << 64) if k >> 63 else k
                                off += k * e["esize"]
                        r = ("p", base[1], base[2] + off) if ok else None
            elif op == "load":
                a = o[0]
                sz = I.raw.get("size") or 0
                if isinstance(a, tuple):
                    key = (a[1], a[2], sz)
                    if key in mem:
                        r = mem[key]
                    elif any(k[0] == a[1] and k[1] < a[2] + sz and a[2] < k[1] + k[2] for k in mem):
                        r = None
                    elif mem_init is not None:
                        r = mem_init(a[1], a[2], sz)
            elif op == "store":
                a = o[1]
                sz = I.raw.get("size") or 0
                if isinstance(a, tuple):
                    for k in list(mem):
                        if k[0] == a[1] and k[1] < a[2] + sz and a[2] < k[1] + k[2]:
                            del mem[k]
                    mem[(a[1], a[2], sz)] = o[0]
                    res.events.append(("store", a[1], a[2], sz, o[0], I))
                else:
                    mem.clear()
            elif op == "alloca":
                r = ("p", "alloca:%d" % I.id, 0)
            elif op == "call":
                cal = I.callee or ""
                if not cal.startswith(("llvm.dbg", "llvm.lifetime")):
                    if cal.startswith("llvm.expect"):
                        r = o[0]
                    elif cal.startswith(("llvm.ctlz.", "llvm.cttz.", "llvm.ctpop.", "llvm.bswap.", "llvm.fshl.", "llvm.fshr.", "llvm.umin.", "llvm.umax.", "llvm.abs.")) and b:
                        x = o[0]
                        if isinstance(x, int):
                            if cal.startswith("llvm.ctlz."):
                                r = b - x.bit_length()
                            elif cal.startswith("llvm.cttz."):
                                r = b if x == 0 else (x & -x).bit_length() - 1
                            elif cal.startswith("llvm.ctpop."):
                                r = bin(x).count("1")
                            elif cal.startswith("llvm.bswap."):
                                r = int.from_bytes(x.to_bytes(b // 8, "little"), "big")
                            elif cal.startswith(("llvm.umin.", "llvm.umax.")) and isinstance(o[1], int):
                                r = min(x, o[1]) if "umin" in cal else max(x, o[1])
                            elif cal.startswith(("llvm.fshl.", "llvm.fshr.")) and isinstance(o[1], int) and isinstance(o[2], int):
                                k_ = o[2] % b
                                cat = (x << b) | o[1]
                                r = ((cat << k_) >> b) & m if cal.startswith("llvm.fshl.") else (cat >> k_) & m
                    else:
                        n = I.raw.get("nargs", len(o))
                        G = enter(cal) if enter is not None else None
                        if G is not None and _depth < 6:
                            sub = run(G, o[:n], mem_init, max_steps, enter, extern, keep, unknown_dir, (mem, res), _depth + 1)
                            res.unknown_branches = getattr(res, 'unknown_branches', 0) + getattr(sub, 'unknown_branches', 0)
                            res.steps = sub.steps
                            r = sub.ret
                            env[I.id] = r
                            continue
                        res.events.append(("call", cal, o[:n], I))
                        if extern is not None:
                            r = extern(cal, o[:n])
                        # a callee may write through pointers it is given
                        copyish = re.match(r"^(llvm\.mem(cpy|set|move)|mem(cpy|set|move|clr)\w*|__mem\w+_chk)", cal) is not None
                        if keep is not None and keep(cal):
                            pass
                        elif copyish and o and isinstance(o[0], tuple):
                            nb = o[2] if len(o) > 2 and isinstance(o[2], int) else None
                            for k in list(mem):
                                if k[0] == o[0][1] and (nb is None or (k[1] < o[0][2] + nb and o[0][2] < k[1] + k[2])):
                                    del mem[k]
                        else:
                            for x in o[:n]:
                                if isinstance(x, tuple):
                                    for k in list(mem):
                                        if k[0] == x[1]:
                                            del mem[k]
            elif op == "br":
                if I.raw.get("cond"):
                    c = o[0]
                    if c is None or isinstance(c, tuple):
                        if unknown_dir is None:
                            raise Unknown("branch at %s depends on a value the skeleton does not determine" % I.loc())
                        # a branch on something that is not bookkeeping (the alignment of a pointer): taken the way the
                        # caller asks; callers run both ways and demand the same of both
                        res.unknown_branches = getattr(res, "unknown_branches", 0) + 1
                        c = unknown_dir
                    nxt = I.raw["succ"][0] if c else I.raw["succ"][1]
                else:
                    nxt = I.raw["succ"][0]
                break
            elif op == "switch":
                c = o[0]
                if not isinstance(c, int):
                    raise Unknown("switch at %s depends on a value the skeleton does not determine" % I.loc())
                nxt = I.raw.get("default")
                for cs in I.raw.get("cases", []):
                    if (cs["v"] & ((1 << 64) - 1)) == c or cs["v"] == c:
                        nxt = cs["b"]
                break
            elif op == "ret":
                res.ret = o[0] if o else None
                return res
            elif op == "unreachable":
                raise Unknown("unreachable reached in %s" % F.name)
            if op not in ("store", "br", "switch"):
                env[I.id] = r
        if nxt is None:
            raise Unknown("block %d of %s has no terminator the skeleton follows" % (blk.id, F.name))
        prev = blk
        blk = F.bmap[nxt]
