"""CPU-specific candidates of dispatched interfaces with the wrapper-level argument signature of the interface
(shared by the C02/C03/C04 clause checks; same derivation as rules/c14.py)."""
import c12
import roles


def candidates(chk, lib, mods, srcdir, iface_prefixes):
    """{candidate function name: (interface, [(param name, pointee const?, declared type) ...])}"""
    sigs = roles.interface_signatures(mods)
    out = {}
    ndisp = 0
    for key, name in lib.entry_list:
        if not name.endswith("_dispatch_init"):
            continue
        o = lib.by_name[key[0]]
        if not (o.src or "").startswith(srcdir):
            continue
        iface = name[:-len("_dispatch_init")]
        if not iface.startswith(tuple(iface_prefixes)):
            continue
        ndisp += 1
        try:
            paths = c12.ladder_paths(lib, lib.func(key), None)
        except c12.Unmodelled as e:
            chk.broke("%s: %s" % (name, e))
            continue
        sig = sigs.get(iface)
        if sig is None:
            pref = sorted((k for k in sigs if iface.startswith(k + "_")), key=len)
            if pref:
                sig = sigs[pref[-1]]
        if sig is None:
            chk.broke("no C call site gives the argument list of %s" % iface)
            continue
        for (facts, stored, addr) in paths:
            if isinstance(stored, tuple) and stored[1] and stored[1][0] == "addr":
                out.setdefault(stored[1][1], (iface, sig))
    return out, ndisp


_OWN = {}


def ownership(chk, lib):
    """{candidate function name: {interfaces whose dispatcher can bind it}} over all dispatchers of the library."""
    if id(lib) in _OWN:
        return _OWN[id(lib)]
    own = {}
    for key, name in lib.entry_list:
        if not name.endswith("_dispatch_init"):
            continue
        iface = name[:-len("_dispatch_init")]
        try:
            for (facts, stored, addr) in c12.ladder_paths(lib, lib.func(key), None):
                if isinstance(stored, tuple) and stored[1] and stored[1][0] == "addr":
                    own.setdefault(stored[1][1], {}).setdefault(iface, addr)
        except c12.Unmodelled as e:
            own.setdefault("<unmodelled>", {})[iface] = str(e)
    _OWN[id(lib)] = own
    return own


def binding_rule(chk, rule, lib, scope):
    """Every implementation a dispatcher of this property's interfaces (name prefix in `scope`) can bind is
    offered by that interface's dispatcher alone: a function written for one interface (key size, direction,
    raw/expanded key, CPU family of a sibling manager) bound under another interface's name is a copy-paste slip
    that only the affected CPU class ever executes."""
    from report import Finding
    own = ownership(chk, lib)
    n = 0
    for iface_, why in sorted(own.get("<unmodelled>", {}).items()):
        if iface_.startswith(tuple(scope)):
            chk.broke("%s_dispatch_init: %s" % (iface_, why))
        else:
            chk.notes.append("dispatcher of %s not modelled (%s): its bindings are not part of the ownership comparison" % (iface_, why))
    for cand in sorted(own):
        if cand == "<unmodelled>":
            continue
        ifs = own[cand]
        mine = [i for i in ifs if i.startswith(tuple(scope))]
        if not mine:
            continue
        n += 1
        ok = len(ifs) == 1
        chk.obligation(rule, ok, key=("binding", cand), sample={"candidate": cand, "interface": sorted(ifs)[0]})
        if not ok:
            # the foreign binder is the interface whose name the candidate does not extend
            ctok = [t for t in cand.split("_") if t]
            home = sorted(i for i in ifs if all(t in ctok for t in i.split("_") if t))
            foreign = sorted(i for i in ifs if i not in home) or sorted(ifs)[1:]
            o = lib.by_name[lib._by_name[cand][0]] if cand in lib._by_name else None
            chk.finding(Finding(rule, "%s_dispatch_init" % foreign[0], foreign[0] + "_dispatch_init", "binds:" + cand,
                                "the dispatcher of %s can bind %s, which is also (and by its name properly) an implementation of %s: on the CPU class that selects this slot the interface runs code written for another interface" % (foreign[0], cand, ", ".join(home) or "another interface"),
                                loc=(o.src if o else None)))
    return n


def slot_families(chk, lib, scope):
    """{interface: {cpu-facts key: (candidate, family tokens, facts description)}} for every dispatcher whose
    interface name starts with one of `scope`.  The family is what the candidate's name adds to the interface's
    (sse, avx_gen2, avx_gen4, vaes_avx512, avx512_ni ...)."""
    out = {}
    for key, name in lib.entry_list:
        if not name.endswith("_dispatch_init"):
            continue
        iface = name[:-len("_dispatch_init")]
        if not iface.startswith(tuple(scope)):
            continue
        try:
            paths = c12.ladder_paths(lib, lib.func(key), None)
        except c12.Unmodelled as e:
            chk.broke("%s: %s" % (name, e))
            continue
        itok = [t for t in iface.split("_") if t]
        slots = {}
        for (facts, stored, addr) in paths:
            if isinstance(stored, tuple) and stored[1] and stored[1][0] == "addr":
                cand = stored[1][1]
                rest = [t for t in cand.split("_") if t]
                for t in itok:
                    if t in rest:
                        rest.remove(t)
                slots[facts.key()] = (cand, tuple(rest), "; ".join(facts.describe()))
        out[iface] = slots
    return out


def coherence_rule(chk, rule, lib, scope, group_of, why):
    """Interfaces that work on one shared state (group_of(interface) -> group label or None) must be bound to the
    same implementation family under the same CPU facts: the state one writes is laid out for its own family."""
    from report import Finding
    fam = slot_families(chk, lib, scope)
    groups = {}
    for iface, slots in fam.items():
        g = group_of(iface)
        if g is not None:
            groups.setdefault(g, {})[iface] = slots
    n = 0
    for g, members in sorted(groups.items()):
        keys = set()
        for s in members.values():
            keys |= set(s)
        for k in sorted(keys):
            byfam = {}
            desc = ""
            for iface, s in sorted(members.items()):
                if k in s:
                    byfam.setdefault(s[k][1], []).append((iface, s[k][0]))
                    desc = s[k][2]
            n += 1
            ok = len(byfam) == 1
            chk.obligation(rule, ok, key=("coherence", g, k), sample={"group": g, "cpu": desc[:200], "family": "_".join(sorted(byfam)[0]), "interfaces": sum(len(v) for v in byfam.values())})
            if not ok:
                major = max(byfam.values(), key=len)
                for f_, lst in sorted(byfam.items()):
                    if lst is major:
                        continue
                    for (iface, cand) in lst:
                        o = lib.by_name[lib._by_name[cand][0]] if cand in lib._by_name else None
                        chk.finding(Finding(rule, iface + "_dispatch_init", iface + "_dispatch_init", "slot:" + cand,
                                            "on a CPU where [%s] the dispatcher of %s binds %s while %d sibling interface(s) of group %s bind the %s family (e.g. %s): %s" %
                                            (desc, iface, cand, len(major), g, "_".join(major and [t for t in sorted(byfam, key=lambda x: -len(byfam[x]))[0]]), major[0][1], why), loc=(o.src if o else None)))
    return n
