"""CPU-specific candidates of dispatched interfaces with the wrapper-level argument signature of the interface
(shared by the C02/C03/C04 clause checks; same derivation as rules/c14.py)."""
import c12
import roles


def candidates(chk, lib, mods, srcdir, iface_prefixes):
    """{candidate function name: (interface, [(param name, pointee const?, declared type) ...])}"""
    sigs = roles.interface_signatures(mods)
    out = {}
    ndisp = 0
    for key, name in lib.entry_list:
        if not name.endswith("_dispatch_init"):
            continue
        o = lib.by_name[key[0]]
        if not (o.src or "").startswith(srcdir):
            continue
        iface = name[:-len("_dispatch_init")]
        if not iface.startswith(tuple(iface_prefixes)):
            continue
        ndisp += 1
        try:
            paths = c12.ladder_paths(lib, lib.func(key), None)
        except c12.Unmodelled as e:
            chk.broke("%s: %s" % (name, e))
            continue
        sig = sigs.get(iface)
        if sig is None:
            pref = sorted((k for k in sigs if iface.startswith(k + "_")), key=len)
            if pref:
                sig = sigs[pref[-1]]
        if sig is None:
            chk.broke("no C call site gives the argument list of %s" % iface)
            continue
        for (facts, stored, addr) in paths:
            if isinstance(stored, tuple) and stored[1] and stored[1][0] == "addr":
                out.setdefault(stored[1][1], (iface, sig))
    return out, ndisp
