"""Fork-based parallel map over library objects.  The Library index is built in the parent; each worker
parses only the objects it touches (plus callees' objects on demand)."""
import multiprocessing
import os
import traceback

_CTX = {}


def _run(args):
    fn_name, objname = args
    try:
        return (objname, _CTX["fn"](_CTX["lib"], objname, _CTX["extra"]), None)
    except Exception:
        return (objname, None, traceback.format_exc()[-2000:])


def map_objects(lib, fn, objnames, extra=None, jobs=None):
    """fn(lib, objname, extra) -> picklable.  Returns {objname: result}; raises RuntimeError on worker error."""
    jobs = jobs or int(os.environ.get("VERIF_JOBS", "16"))
    _CTX["lib"] = lib
    _CTX["fn"] = fn
    _CTX["extra"] = extra
    # big objects first
    def weight(n):
        try:
            return -os.path.getsize(lib.by_name[n].path)
        except OSError:
            return 0
    names = sorted(objnames, key=weight)
    out = {}
    if jobs <= 1 or len(names) <= 1:
        for n in names:
            r = _run((None, n))
            if r[2]:
                raise RuntimeError("worker failed on %s:\n%s" % (n, r[2]))
            out[n] = r[1]
        return out
    ctx = multiprocessing.get_context("fork")
    with ctx.Pool(min(jobs, len(names))) as pool:
        for (n, r, err) in pool.imap_unordered(_run, [(None, n) for n in names], chunksize=1):
            if err:
                raise RuntimeError("worker failed on %s:\n%s" % (n, err))
            out[n] = r
    return out
