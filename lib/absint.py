"""Phase-1 abstract interpretation of x86-64 functions: GPR values (entry value / stack pointer offsets /
aligned frames / constants / symbol addresses / provenance sets), an abstract stack store, callee summaries.

Shared by C19 (callee-saved state), C20 (definedness), C14 (secrecy), C08/C06 (provenance), C18 (effects).
Path-insensitive forward worklist fixpoint over basic blocks; every lattice has finite height.
"""
from x86 import G64, PARENT, WIDTH, CALLEE_SAVED, CALLER_SAVED, NORETURN, vec_of

TOP = ("top",)
M64 = (1 << 64) - 1
HIGH32 = 0xFFFFFFFF00000000
NOBITS = (0, False)
PCREL = ("R_X86_64_PC32", "R_X86_64_PLT32", "R_X86_64_GOTPCREL", "R_X86_64_GOTPCRELX", "R_X86_64_REX_GOTPCRELX")


def roots(v):
    """Provenance roots of a value, or None when unknown."""
    k = v[0]
    if k == "init":
        return frozenset((v[1],))
    if k == "der":
        return v[1]
    if k in ("const",):
        return frozenset()
    if k == "addr":
        return frozenset((("sym", v[1]),))
    if k in ("sp", "fr"):
        return frozenset((("stack",),))
    return None


def mk_der(rs):
    return ("der", rs)


def join(a, b):
    if a == b:
        return a
    if a is TOP or b is TOP or a[0] == "top" or b[0] == "top":
        return TOP
    ra, rb = roots(a), roots(b)
    if ra is None or rb is None:
        return TOP
    return ("der", ra | rb)


def add_const(v, c):
    k = v[0]
    if c == 0:
        return v
    if k == "init":
        return ("init", v[1], v[2] + c)
    if k == "sp":
        return ("sp", v[1] + c)
    if k == "fr":
        return ("fr", v[1], v[2] + c)
    if k == "const":
        return ("const", (v[1] + c) & 0xFFFFFFFFFFFFFFFF)
    if k == "addr":
        return ("addr", v[1], v[2] + c)
    if k == "der":
        return v
    return TOP


BITOPS = {"CMOV64rr", "CMOV32rr", "MOV64rr", "MOV32rr", "AND64ri8", "AND64ri32", "AND32ri8", "AND32ri", "SHR64ri", "SHR32ri", "SHL64ri", "SHL32ri"}


class Summary(object):
    """What a caller may assume about a direct callee."""
    __slots__ = ("clobbers", "rsp_ok", "conformant", "name", "vec_written", "noreturn")

    def __init__(self, name, clobbers, rsp_ok=True, vec_written=None):
        self.name = name
        self.clobbers = frozenset(clobbers)
        self.rsp_ok = rsp_ok
        self.vec_written = vec_written
        self.noreturn = False


SYSV = Summary("<sysv>", CALLER_SAVED)


class FuncResult(object):
    def __init__(self, func):
        self.func = func
        self.findings = []       # (rule, construct, message, addr)
        self.broken = []         # analysis-breaking facts
        self.exits = []          # (ins, kind, regs)  kind in ret|tail|tail-ind|fall
        self.maddr = {}          # ins addr -> (abstract address value, has_index, size)
        self.in_state = {}       # block leader -> (regs, stack)
        self.summary = None
        self.calls = []          # (ins, target) target = ('func', key)|('ext', name)|('ind', None)
        self.frames = set()
        self.frame_limit = {}    # aligned-frame id -> bytes above the aligned rsp that are certainly the function's own
        self.min_sp = 0
        self.ins_visited = 0
        self.assumed_indexed = 0
        self.callargs = []       # (ins, target, {argreg: value})
        self.store_facts = {}    # store ins addr -> [(entry-derived value, (lo, hi))] interval facts live at the store
        self.dead_edges = set()  # CFG edges proved infeasible by the known-bits facts
        self.callctx = {}        # call ins addr -> context facts passed to the callee summary
        self.mindex = {}         # ins addr -> abstract value of the index register of its memory operand
        self.escapes = []        # (ins, value) : symbol addresses stored to memory
        self.reg_at = {}         # optional: ins addr -> regs dict (only if keep_regs)


class Interp(object):
    def __init__(self, lib, summary_of, keep_regs=False, entry_facts=None):
        """summary_of(target[, ctx]) -> Summary for ('func', key) / ('ext', name) targets.
        entry_facts: {reg: (known_zero_mask, known_nonzero)} assumed at entry (context of a call site)."""
        self.lib = lib
        self.summary_of = summary_of
        self.keep_regs = keep_regs
        self.entry_facts = entry_facts
        try:
            import inspect
            self._ctx_ok = len(inspect.signature(summary_of).parameters) >= 2
        except (TypeError, ValueError):
            self._ctx_ok = False

    # ---- helpers
    def val(self, regs, r):
        p = PARENT.get(r)
        if p is None:
            return TOP
        v = regs[p]
        if WIDTH[r] == 64:
            return v
        if WIDTH[r] == 32:
            if v[0] == "const":
                return ("const", v[1] & 0xFFFFFFFF)
            rs = roots(v)
            return TOP if rs is None else ("der", rs)
        rs = roots(v)
        return TOP if rs is None else ("der", rs)

    def setreg(self, regs, r, v):
        p = PARENT.get(r)
        if p is None:
            return
        w = WIDTH[r]
        if "B:" + p in regs:
            regs["B:" + p] = (HIGH32, False) if w == 32 else NOBITS if w == 64 else (regs["B:" + p][0] & ~0xFFFF, False)
            if v[0] == "const":
                c = v[1] & (M64 if w == 64 else 0xFFFFFFFF)
                regs["B:" + p] = (~c & M64, c != 0)
            if regs.get("ZFSRC") == p:
                regs["ZFSRC"] = None
            if "R:" + p in regs:
                regs["R:" + p] = (v[1], v[1]) if (v[0] == "const" and v[1] < (1 << 62)) else None
                cs = regs.get("CMPSRC")
                if cs is not None and cs[0] == p:
                    regs["CMPSRC"] = None
        if w >= 32:
            if w == 32 and v[0] not in ("const", "der", "top"):
                rs = roots(v)
                v = TOP if rs is None else ("der", rs)
            if w == 32 and v[0] == "const":
                v = ("const", v[1] & 0xFFFFFFFF)
            regs[p] = v
        else:
            old = regs[p]
            ro, rn = roots(old), roots(v)
            regs[p] = TOP if (ro is None or rn is None) else ("der", ro | rn)

    def addr_of(self, regs, i):
        """Abstract address of the memory operand: (value, has_index)."""
        m = i.memop()
        if m is None:
            return None
        base, scale, index, disp, seg = m
        disp = disp or 0
        if base == "RIP" or base == "EIP":
            sym = None
            for (off, s, add_, rtype, ssec) in i.rel:
                sym = (s, add_ + (i.size - off) if rtype in PCREL else add_, ssec)
            if sym:
                return (("addr", sym[0], sym[1]), False)
            return (("addr", "<rip>", i.next + disp), False)
        if base is None:
            if i.rel:
                s = i.rel[0]
                bv = ("addr", s[1], s[2])
            else:
                bv = ("const", disp & 0xFFFFFFFFFFFFFFFF)
                disp = 0
        else:
            bv = self.val(regs, base)
        if index:
            iv = self.val(regs, index)
            if bv[0] in ("sp", "fr"):
                return (add_const(bv, disp), True)
            rb, ri = roots(bv), roots(iv)
            if rb is None or ri is None:
                # an unknown index does not change which object a known base points into
                if bv[0] in ("init", "addr") or (bv[0] == "der" and rb):
                    return (add_const(bv, disp) if bv[0] != "der" else bv, True)
                return (TOP, True)
            if bv[0] in ("init", "addr"):
                return (add_const(bv, disp), True)
            return (("der", rb | ri), True)
        return (add_const(bv, disp), False)

    # ---- main
    def run(self, f):
        o = f.obj
        res = FuncResult(f)
        init_regs = {r: ("init", r, 0) for r in G64}
        init_regs["RSP"] = ("sp", 0)
        for r in G64:
            init_regs["B:" + r] = NOBITS
        init_regs["ZFSRC"] = None
        init_regs["CMPSRC"] = None
        for r in G64:
            init_regs["R:" + r] = None
        for r, fact in (self.entry_facts or {}).items():
            init_regs["B:" + r] = fact
        states = {f.entry: (init_regs, {})}
        work = [f.entry]
        inwork = {f.entry}
        rsp_conflict = {}
        iters = 0
        while work:
            b = work.pop()
            inwork.discard(b)
            iters += 1
            if iters > 200000:
                res.broken.append("fixpoint did not converge in %s" % f.name)
                break
            regs, stack = states[b]
            regs = dict(regs)
            stack = dict(stack)
            self.block(f, b, regs, stack, None)
            out_regs = regs
            for s in f.succ.get(b, []):
                regs = self.edge_refine(f, b, s, out_regs)
                if regs is None:
                    continue          # edge proved infeasible (branch on a value known to be non-zero)
                if s not in states:
                    states[s] = (dict(regs), dict(stack))
                    if s not in inwork:
                        work.append(s)
                        inwork.add(s)
                else:
                    oregs, ostack = states[s]
                    changed = False
                    nregs = {}
                    for r in G64:
                        j = join(oregs[r], regs[r])
                        if j != oregs[r]:
                            changed = True
                            if r == "RSP":
                                rsp_conflict[s] = (oregs[r], regs[r])
                        nregs[r] = j
                        ob, nb = oregs["B:" + r], regs["B:" + r]
                        jb = (ob[0] & nb[0], ob[1] and nb[1])
                        if jb != ob:
                            changed = True
                        nregs["B:" + r] = jb
                    nregs["ZFSRC"] = oregs["ZFSRC"] if oregs["ZFSRC"] == regs["ZFSRC"] else None
                    if nregs["ZFSRC"] != oregs["ZFSRC"]:
                        changed = True
                    nregs["CMPSRC"] = oregs["CMPSRC"] if oregs["CMPSRC"] == regs["CMPSRC"] else None
                    if nregs["CMPSRC"] != oregs["CMPSRC"]:
                        changed = True
                    for r in G64:
                        a_, b_ = oregs["R:" + r], regs["R:" + r]
                        j_ = None if (a_ is None or b_ is None) else (min(a_[0], b_[0]), max(a_[1], b_[1]))
                        if j_ != a_:
                            changed = True
                        nregs["R:" + r] = j_
                    nstack = {}
                    for k, v in ostack.items():
                        w = stack.get(k)
                        if w is None:
                            changed = True
                            continue
                        j = join(v, w)
                        if j != v:
                            changed = True
                        nstack[k] = j
                    if changed:
                        states[s] = (nregs, nstack)
                        if s not in inwork:
                            work.append(s)
                            inwork.add(s)
        # final recording pass on converged entry states
        res.in_state = states
        for b in sorted(f.blocks):
            if b not in states:
                continue
            regs, stack = states[b]
            regs = dict(regs)
            self.block(f, b, regs, dict(stack), res)
            for s2 in f.succ.get(b, []):
                if self.edge_refine(f, b, s2, regs) is None:
                    res.dead_edges.add((b, s2))
        for s, (a, b2) in rsp_conflict.items():
            res.findings.append(("R19.5", "rsp-join@%s" % self.label(f, s), "inconsistent stack height at join %s: %s vs %s" % (self.label(f, s), a, b2), s))
        clob = set()
        rsp_ok = True
        for (i, kind, regs) in res.exits:
            for r in G64:
                if r == "RSP":
                    if regs[r] != ("sp", 0):
                        rsp_ok = False
                    continue
                if regs[r] != ("init", r, 0):
                    clob.add(r)
        res.summary = Summary(f.name, clob, rsp_ok)
        if not res.exits:
            res.summary.noreturn = True
        return res

    def label(self, f, addr):
        n = f.obj.sym_at(f.sec, addr)
        return n or ("%#x" % addr)

    def record_exit(self, res, i, kind, regs):
        if res is not None:
            res.exits.append((i, kind, dict(regs)))

    def block(self, f, b, regs, stack, res):
        """Interpret block b in place.  When res is given, record per-instruction facts and checks."""
        o = f.obj
        for i in f.blocks[b]:
            if res is not None:
                res.ins_visited += 1
                if self.keep_regs == "rsp":
                    if i.op.startswith(("PUSH", "POP")):
                        res.reg_at[i.addr] = {"RSP": regs["RSP"]}
                elif self.keep_regs:
                    res.reg_at[i.addr] = dict(regs)
                if i.mem >= 0:
                    av = self.addr_of(regs, i)
                    if av is not None:
                        res.maddr[i.addr] = (av[0], av[1], i.memsize())
                        if "R:RAX" in regs and i.writes_mem_operand() and av[0][0] == "init":
                            fx = [(regs[r], regs["R:" + r]) for r in G64 if regs["R:" + r] is not None and regs[r][0] == "init"]
                            if fx:
                                res.store_facts[i.addr] = fx
                        m = i.memop()
                        if m and m[2]:
                            res.mindex[i.addr] = self.val(regs, m[2])
            self.step(f, i, regs, stack, res)

    # ---- stack slot helpers
    @staticmethod
    def slot_key(av):
        if av[0] == "sp":
            return ("sp", av[1])
        if av[0] == "fr":
            return ("fr", av[1], av[2])
        return None

    def kill_overlap(self, stack, key, size):
        base = key[:-1]
        off = key[-1]
        for k in list(stack):
            if k[:-1] == base and k[-1] < off + size and off < k[-1] + 8:
                del stack[k]

    def kill_frame(self, stack, key, res=None):
        """A store with an rsp-based address and an unknown index (or through a pointer derived from a
        stack address).  ASSUMPTION (counted in the evidence): such a store stays inside the local object it
        indexes and does not hit a slot that holds a saved register or a saved stack pointer - that is the
        bounds clause of C08, which is declared undecided.  Every other tracked slot of the frame is forgotten."""
        base = key[:-1] if key is not None else None
        for k in list(stack):
            if base is None or k[:-1] == base:
                v = stack[k]
                if v[0] in ("init", "sp", "fr") and (v[0] != "init" or v[2] == 0):
                    if res is not None:
                        res.assumed_indexed += 1
                    continue
                del stack[k]

    def push(self, regs, stack, v, res, i):
        sp = regs["RSP"]
        if sp[0] not in ("sp", "fr"):
            if res is not None:
                res.broken.append("push with unknown rsp at %#x" % i.addr)
            return
        nsp = add_const(sp, -8)
        regs["RSP"] = nsp
        k = self.slot_key(nsp)
        self.kill_overlap(stack, k, 8)
        stack[k] = v
        if res is not None and nsp[0] == "sp":
            res.min_sp = min(res.min_sp, nsp[1])

    def pop(self, regs, stack, res, i):
        sp = regs["RSP"]
        if sp[0] not in ("sp", "fr"):
            if res is not None:
                res.broken.append("pop with unknown rsp at %#x" % i.addr)
            return TOP
        v = stack.get(self.slot_key(sp), TOP)
        regs["RSP"] = add_const(sp, 8)
        return v

    def store(self, regs, stack, i, av, indexed, size, v, res):
        k = self.slot_key(av)
        if k is None:
            rs = roots(av)
            if rs is not None and ("stack",) in rs:
                self.kill_frame(stack, None, res)
            return
        if indexed:
            self.kill_frame(stack, k, res)
            return
        self.kill_overlap(stack, k, size or 8)
        if size == 8:
            stack[k] = v
        if res is not None:
            if av[0] == "fr" and av[1] in res.frame_limit and av[2] + (size or 1) > res.frame_limit[av[1]] >= 0:
                res.findings.append(("R19.7", "store-beyond-frame", "store of %d byte(s) at [aligned rsp %+d] reaches beyond the %d bytes this function allocated below its saved registers: when the alignment slack is 0 it overwrites the saved callee-saved registers (or the return address)" % (size or 0, av[2], res.frame_limit[av[1]]), i.addr))
            if av[0] == "sp":
                res.min_sp = min(res.min_sp, av[1])
                if av[1] + (size or 1) > 0:
                    res.findings.append(("R19.4", "store-above-frame", "store to [entry rsp %+d] (%d bytes): the return address / caller frame is written" % (av[1], size or 0), i.addr))

    def step(self, f, i, regs, stack, res):
        """Value transfer (_step) followed by the known-bits / zero-flag-source bookkeeping."""
        if "B:RAX" not in regs:
            return self._step(f, i, regs, stack, res)
        op = i.op
        ob = None
        dst = None
        if op in BITOPS and i.ops and i.ops[0][0] == "r" and i.ops[0][1] in PARENT:
            dst = PARENT[i.ops[0][1]]
            srcreg = None
            if op in ("MOV64rr", "MOV32rr"):
                srcreg = PARENT.get(i.reg(1))
            ob = regs["B:" + (srcreg or dst)] if (srcreg or dst) else NOBITS
            if op in ("CMOV64rr", "CMOV32rr"):
                s2 = PARENT.get(i.reg(2))
                o2 = regs["B:" + s2] if s2 else NOBITS
                ob = (ob[0] & o2[0], ob[1] and o2[1])
        zsrc_before = regs.get("ZFSRC")
        self._step(f, i, regs, stack, res)
        if i.is_call():
            for r in G64:
                if regs[r] is TOP or regs[r][0] == "top":
                    regs["B:" + r] = NOBITS
            regs["ZFSRC"] = None
            regs["CMPSRC"] = None
            for r in G64:
                if regs[r] is TOP or regs[r][0] == "top":
                    regs["R:" + r] = None
            return
        if dst is not None and ob is not None:
            w32 = WIDTH[i.ops[0][1]] == 32
            z, nz = ob
            if op in ("MOV64rr", "MOV32rr", "CMOV64rr", "CMOV32rr"):
                nb = (z | (HIGH32 if w32 else 0), nz if not w32 else (nz and (z & HIGH32) == HIGH32))
            elif op.startswith("AND"):
                imm = i.imm(2)
                m = imm & M64 if not w32 else imm & 0xFFFFFFFF
                nb = ((z | (~m & M64)) & M64, False)
            elif op.startswith("SHR"):
                k = (i.imm(2) or 0) & 63
                lowmask = (1 << k) - 1
                z2 = z | (HIGH32 if w32 else 0)
                nb = (((z2 >> k) | (M64 & ~(M64 >> k))) & M64, nz and (z2 & lowmask) == lowmask)
            elif op.startswith("SHL"):
                k = (i.imm(2) or 0) & 63
                width = 32 if w32 else 64
                topmask = ((1 << k) - 1) << (width - k) if k else 0
                z2 = z | (HIGH32 if w32 else 0)
                nzn = nz and (z2 & topmask) == topmask
                nb = ((((z2 << k) | ((1 << k) - 1)) & (0xFFFFFFFF if w32 else M64)) | (HIGH32 if w32 else 0), nzn)
            else:
                nb = NOBITS
            regs["B:" + dst] = nb
        # zero-flag source
        if "EFLAGS" in i.idefs or "EFLAGS" in i.explicit_defs():
            z = None
            if op.startswith(("AND", "OR", "XOR", "ADD", "SUB", "SHL", "SHR", "SAR", "INC", "DEC", "NEG")) and i.ndefs >= 1 and i.ops[0][0] == "r" and i.ops[0][1] in PARENT and i.mem < 0:
                shift = op.startswith(("SHL", "SHR", "SAR"))
                cnt_ok = True
                if shift:
                    if op.endswith("CL"):
                        cnt_ok = False                      # a count of 0 leaves the flags unchanged
                    elif op.endswith("ri"):
                        cnt_ok = len(i.ops) > 2 and i.ops[2][0] == "i" and (i.ops[2][1] & 63) != 0
                if cnt_ok and WIDTH[i.ops[0][1]] >= 32:
                    z = PARENT[i.ops[0][1]]
            elif op in ("TEST64rr", "TEST32rr") and i.reg(0) == i.reg(1):
                z = PARENT[i.reg(0)] if WIDTH[i.reg(0)] == 64 or (regs["B:" + PARENT[i.reg(0)]][0] & HIGH32) == HIGH32 else None
            elif op in ("CMP64ri8", "CMP64ri32", "CMP32ri8", "CMP32ri") and i.imm(1) == 0 and i.reg(0) in PARENT:
                z = PARENT[i.reg(0)] if WIDTH[i.reg(0)] == 64 or (regs["B:" + PARENT[i.reg(0)]][0] & HIGH32) == HIGH32 else None
            regs["ZFSRC"] = z
            cs = None
            if op in ("CMP64ri8", "CMP64ri32") and i.reg(0) in PARENT and i.mem < 0:
                cs = (PARENT[i.reg(0)], i.imm(1))
            elif op in ("CMP32ri8", "CMP32ri") and i.reg(0) in PARENT and i.mem < 0 and (regs["B:" + PARENT[i.reg(0)]][0] & HIGH32) == HIGH32 and i.imm(1) >= 0:
                cs = (PARENT[i.reg(0)], i.imm(1))
            regs["CMPSRC"] = cs

    def range_refine(self, f, b, s, regs):
        """Interval facts from `cmp reg, imm; jcc`.  Returns regs (possibly refined) or None when the edge is infeasible."""
        cs = regs.get("CMPSRC")
        last = f.blocks[b][-1]
        if cs is None or not last.is_cond() or len(last.ops) < 2:
            return regs
        r, c = cs
        cc = last.imm(1)
        tgt, fall = last.branch_target(), last.next
        if tgt == fall:
            return regs
        taken = (s == tgt)
        INF = 1 << 63
        cur = regs["R:" + r] or (-INF, INF - 1)
        lo, hi = cur
        # signed conditions: L=12 GE=13 LE=14 G=15 ; E=4 NE=5 ; unsigned B=2 AE=3 BE=6 A=7 (only when the value is known non-negative)
        cond = {12: "lt", 13: "ge", 14: "le", 15: "gt", 4: "eq", 5: "ne"}.get(cc)
        if cond is None and lo >= 0 and c >= 0:
            cond = {2: "lt", 3: "ge", 6: "le", 7: "gt"}.get(cc)
        if cond is None:
            return regs
        if not taken:
            cond = {"lt": "ge", "ge": "lt", "le": "gt", "gt": "le", "eq": "ne", "ne": "eq"}[cond]
        if cond == "lt":
            hi = min(hi, c - 1)
        elif cond == "le":
            hi = min(hi, c)
        elif cond == "ge":
            lo = max(lo, c)
        elif cond == "gt":
            lo = max(lo, c + 1)
        elif cond == "eq":
            lo, hi = max(lo, c), min(hi, c)
        elif cond == "ne":
            if lo == hi == c:
                return None
            if lo == c:
                lo += 1
            if hi == c:
                hi -= 1
        if lo > hi:
            return None
        out = dict(regs)
        out["R:" + r] = (lo, hi) if (lo, hi) != (-INF, INF - 1) else None
        return out

    def edge_refine(self, f, b, s, regs):
        regs = self.range_refine(f, b, s, regs) if "CMPSRC" in regs else regs
        if regs is None:
            return None
        return self.zf_refine(f, b, s, regs)

    def zf_refine(self, f, b, s, regs):
        """State on the edge b -> s; None when the edge cannot be taken."""
        if "ZFSRC" not in regs:
            return regs
        last = f.blocks[b][-1]
        if not last.is_cond() or regs.get("ZFSRC") is None or len(last.ops) < 2:
            return regs
        cc = last.imm(1)
        if cc not in (4, 5):
            return regs
        r = regs["ZFSRC"]
        tgt, fall = last.branch_target(), last.next
        if tgt == fall:
            return regs
        zero_edge = tgt if cc == 4 else fall
        z, nz = regs["B:" + r]
        out = dict(regs)
        if s == zero_edge:
            if nz:
                return None
            out["B:" + r] = (M64, False)
        else:
            out["B:" + r] = (z, True)
        return out

    def _step(self, f, i, regs, stack, res):
        op = i.op
        # ---------------- control
        if i.is_ret():
            self.record_exit(res, i, "ret", regs)
            return
        if i.is_branch():
            if i.is_indirect():
                self.record_exit(res, i, "tail-ind", regs)
                if res is not None:
                    res.calls.append((i, ("ind", self.ind_target(i))))
                return
            if ("U" in i.fl or op.startswith("JMP")):
                t = i.branch_target()
                ents = self.lib.entry_addrs.get((f.obj.name, f.sec), set())
                if i.rel or (t is not None and t in ents and t != f.entry):
                    self.record_exit(res, i, "tail", regs)
                    if res is not None:
                        tgt = self.lib.resolve_reloc_target(f.obj, i) if i.rel else ("func", (f.obj.name, f.sec, t))
                        res.calls.append((i, tgt))
            return
        if i.is_call():
            tgt = None
            if i.rel:
                tgt = self.lib.resolve_reloc_target(f.obj, i)
            else:
                t = i.branch_target()
                if t is not None:
                    tgt = ("func", (f.obj.name, f.sec, t))
                else:
                    tgt = ("ind", None)
            if res is not None:
                res.calls.append((i, tgt))
                res.callargs.append((i, tgt, {r: regs[r] for r in ("RDI", "RSI", "RDX", "RCX", "R8", "R9")}))
            if tgt and self._ctx_ok and "B:RSI" in regs:
                ctx = tuple((r, regs["B:" + r]) for r in ("RDI", "RSI", "RDX", "RCX", "R8", "R9", "R10") if regs["B:" + r] != NOBITS)
                if res is not None:
                    res.callctx[i.addr] = ctx
                sm = self.summary_of(tgt, ctx)
            else:
                sm = self.summary_of(tgt) if tgt else SYSV
            if sm is None:
                sm = SYSV
            # the return address slot
            sp = regs["RSP"]
            if sp[0] in ("sp", "fr"):
                k = self.slot_key(add_const(sp, -8))
                self.kill_overlap(stack, k, 8)
                if res is not None and sp[0] == "sp":
                    res.min_sp = min(res.min_sp, sp[1] - 8)
            for r in sm.clobbers:
                if r != "RSP":
                    regs[r] = TOP
            if not sm.rsp_ok:
                regs["RSP"] = TOP
            return
        if i.addr in getattr(f, "fallthrough", {}) and res is not None:
            pass
        # ---------------- stack pointer & moves
        if op == "PUSH64r":
            self.push(regs, stack, self.val(regs, i.reg(0)), res, i)
        elif op in ("PUSH64i8", "PUSH64i32"):
            self.push(regs, stack, ("const", i.imm(0) & 0xFFFFFFFFFFFFFFFF), res, i)
        elif op == "PUSH64rmm":
            av = self.addr_of(regs, i)
            k = self.slot_key(av[0]) if not av[1] else None
            self.push(regs, stack, stack.get(k, TOP) if k else self.loaded(av), res, i)
        elif op in ("PUSHF64",):
            self.push(regs, stack, TOP, res, i)
        elif op == "POP64r":
            v = self.pop(regs, stack, res, i)
            self.setreg(regs, i.reg(0), v)
        elif op in ("POPF64",):
            self.pop(regs, stack, res, i)
        elif op == "POP64rmm":
            v = self.pop(regs, stack, res, i)
            av = self.addr_of(regs, i)
            self.store(regs, stack, i, av[0], av[1], 8, v, res)
        elif op in ("LEAVE64", "LEAVE"):
            bp = regs["RBP"]
            if bp[0] in ("sp", "fr"):
                regs["RSP"] = bp
                v = self.pop(regs, stack, res, i)
                regs["RBP"] = v
            else:
                if res is not None:
                    res.broken.append("leave with untracked rbp at %#x" % i.addr)
                regs["RSP"] = TOP
                regs["RBP"] = TOP
        elif op in ("SUB64ri8", "SUB64ri32", "ADD64ri8", "ADD64ri32"):
            r = i.reg(0)
            c = i.imm(2)
            if op.startswith("SUB"):
                c = -c
            self.setreg(regs, r, add_const(self.val(regs, r), c))
            if r == "RSP" and res is not None and regs["RSP"][0] == "sp":
                res.min_sp = min(res.min_sp, regs["RSP"][1])
        elif op in ("INC64r", "DEC64r"):
            r = i.reg(0)
            self.setreg(regs, r, add_const(self.val(regs, r), 1 if op.startswith("INC") else -1))
        elif op in ("AND64ri8", "AND64ri32") and i.reg(0) == "RSP":
            sp = regs["RSP"]
            m = i.imm(2)
            if sp[0] in ("sp", "fr") and m < 0:
                regs["RSP"] = ("fr", i.addr, 0)
                if res is not None:
                    res.frames.add(i.addr)
                    if sp[0] == "sp":
                        # bytes this function owns above the aligned rsp for certain: from the pre-alignment rsp up to
                        # the lowest slot that already holds something (pushed registers), or up to the return address
                        used = [-k[1] for k in stack if k[0] == "sp" and isinstance(k[1], int) and -sp[1] > -k[1] > 0]
                        lim = -sp[1] - (max(used) if used else 0)
                        old_l = res.frame_limit.get(i.addr)
                        res.frame_limit[i.addr] = lim if old_l is None else min(old_l, lim)
            else:
                regs["RSP"] = TOP
        elif op in ("MOV64rr", "MOV32rr"):
            self.setreg(regs, i.reg(0), self.val(regs, i.reg(1)))
        elif op in ("MOV64ri32", "MOV64ri", "MOV32ri"):
            if i.rel:
                s = i.rel[0]
                self.setreg(regs, i.reg(0), ("addr", s[1], s[2]))
            else:
                self.setreg(regs, i.reg(0), ("const", i.imm(1) & 0xFFFFFFFFFFFFFFFF))
        elif op in ("XOR64rr", "XOR32rr", "SUB64rr", "SUB32rr") and i.reg(1) == i.reg(2):
            self.setreg(regs, i.reg(0), ("const", 0))
        elif op in ("OR64rr", "AND64rr") and i.reg(1) == i.reg(2) and i.reg(0) == i.reg(1):
            pass                                        # `or r, r` / `and r, r`: flags only, the value is unchanged
        elif op in ("LEA64r", "LEA64_32r", "LEA32r"):
            av = self.addr_of(regs, i)
            self.setreg(regs, i.reg(0), av[0] if not (av[1] and av[0][0] in ("sp", "fr")) else ("der", frozenset((("stack",),))))
        elif op in ("MOV64rm", "MOV32rm"):
            av = self.addr_of(regs, i)
            k = self.slot_key(av[0]) if not av[1] else None
            if k is not None and op == "MOV64rm":
                v = stack.get(k)
                if v is None:
                    # never-written slot of the caller's frame = a stack-passed argument's entry value
                    v = ("init", "ARG@%d" % k[1], 0) if (k[0] == "sp" and k[1] >= 8) else TOP
            elif av[0][0] == "addr" and any(r[3] in ("R_X86_64_GOTPCREL", "R_X86_64_GOTPCRELX", "R_X86_64_REX_GOTPCRELX") for r in i.rel):
                v = ("addr", av[0][1], 0)
            else:
                v = self.loaded(av)
            self.setreg(regs, i.reg(0), v)
        elif op in ("MOV64mr", "MOV32mr", "MOV16mr", "MOV8mr"):
            av = self.addr_of(regs, i)
            sz = {"MOV64mr": 8, "MOV32mr": 4, "MOV16mr": 2, "MOV8mr": 1}[op]
            sv = self.val(regs, i.reg(5)) if sz == 8 else TOP
            if res is not None and sz == 8 and self.slot_key(av[0]) is None:
                rs = roots(sv)
                if rs and any(isinstance(t, tuple) and t[0] == "sym" for t in rs):
                    res.escapes.append((i, sv))
            self.store(regs, stack, i, av[0], av[1], sz, sv, res)
        elif op in ("MOV64mi32", "MOV32mi", "MOV16mi", "MOV8mi"):
            av = self.addr_of(regs, i)
            sz = {"MOV64mi32": 8, "MOV32mi": 4, "MOV16mi": 2, "MOV8mi": 1}[op]
            self.store(regs, stack, i, av[0], av[1], sz, ("const", i.imm(5) & 0xFFFFFFFFFFFFFFFF) if sz == 8 else TOP, res)
        elif op in ("ADD64rr", "ADD64rm", "SUB64rr", "SUB64rm", "ADD32rr", "SUB32rr", "OR64rr", "AND64rr", "XOR64rr", "OR64ri8", "OR64ri32",
                    "AND64ri8", "AND64ri32", "AND32ri8", "AND32ri", "SHL64ri", "SHR64ri", "SAR64ri", "SHL32ri", "SHR32ri", "IMUL64rr", "IMUL64rri8", "IMUL64rri32",
                    "NEG64r", "NOT64r", "XOR64ri8", "XOR64ri32", "ADD32ri8", "ADD32ri", "SUB32ri8", "SUB32ri", "CMOV64rr", "CMOV32rr", "MOVZX32rr8", "MOVZX32rr16",
                    "MOVSX64rr32", "MOVSX64rr8", "MOVSX64rr16", "MOVSX32rr8", "MOVSX32rr16", "BSWAP64r", "BSWAP32r", "ROL64ri", "ROR64ri", "ROL32ri", "ROR32ri", "RORX64ri", "RORX32ri"):
            self.generic(f, i, regs, stack, res)
        else:
            self.generic(f, i, regs, stack, res)

    def loaded(self, av):
        """Abstract value of a qword loaded from abstract address av=(value, indexed)."""
        a = av[0]
        rs = roots(a)
        if rs is None:
            return TOP
        disp = a[2] if a[0] in ("init", "addr") else None
        return ("der", frozenset((("ld", rs, disp),)))

    def ind_target(self, i):
        for (off, s, add_, rtype, ssec) in i.rel:
            return s
        return None

    def generic(self, f, i, regs, stack, res):
        """Default transfer: stores update the stack store; GPR definitions inherit the union of the
        provenance of all GPR sources (TOP if any source is unknown or non-GPR data is involved)."""
        fl = i.fl
        av = None
        so = i.string_op() if i.mem >= 0 else None
        if so is not None:
            # string instruction: unknown extent through rdi / rsi
            if so[0]:
                a = self.val(regs, so[0])
                self.store(regs, stack, i, a, True, None, TOP, res)
                if res is not None:
                    res.maddr[i.addr] = (a, True, None)
        elif i.mem >= 0:
            av = self.addr_of(regs, i)
        if "S" in fl and av is not None and not i.op.startswith(("PREFETCH", "CLFLUSH")):
            self.store(regs, stack, i, av[0], av[1], i.memsize(), TOP, res)
        defs = i.explicit_defs() + [d for d in i.idefs]
        gdefs = [d for d in defs if d in PARENT]
        if not gdefs:
            return
        if "RSP" in [PARENT[d] for d in gdefs if d in PARENT] and not i.is_call():
            # unmodelled write to rsp
            if any(PARENT[d] == "RSP" and WIDTH[d] >= 32 for d in gdefs):
                if i.op in ("MOV64rr",):
                    pass
                if res is not None:
                    res.broken.append("unmodelled write to rsp at %#x: %s" % (i.addr, i.text.strip()))
        srcs = []
        unknown = False
        for k in range(i.ndefs, len(i.ops)):
            if i.mem >= 0 and i.mem <= k < i.mem + 5:
                continue
            o = i.ops[k]
            if o[0] == "r" and o[1]:
                if o[1] in PARENT:
                    srcs.append(self.val(regs, o[1]))
                elif o[1] in ("EFLAGS", "RIP"):
                    pass
                else:
                    unknown = True    # vector / mask / segment source
        for u in i.iuses:
            if u in PARENT and PARENT[u] != "RSP":
                srcs.append(self.val(regs, u))
        if "L" in fl and av is not None:
            k = self.slot_key(av[0]) if not av[1] else None
            if k is not None and i.memsize() == 8 and k in stack:
                srcs.append(stack[k])
            else:
                srcs.append(self.loaded(av))
        rs = frozenset()
        for s in srcs:
            r = roots(s)
            if r is None:
                unknown = True
                break
            rs = rs | r
        if i.op in ("CPUID", "XGETBV", "RDTSC", "RDTSCP", "RDRAND64r", "RDRAND32r"):
            unknown = True
        v = TOP if unknown else ("der", rs)
        for d in gdefs:
            if PARENT[d] == "RSP":
                self.setreg(regs, d, TOP)
                continue
            # CMOV keeps old value possibly
            self.setreg(regs, d, v)
