"""Loader and graph queries for the JSON produced by tools/ir2json from clang -O0 + mem2reg IR."""
import json
import os


class Inst:
    __slots__ = ("id", "op", "ty", "ops", "incoming", "callee", "pred", "line", "file", "block", "idx", "raw", "fn")

    def __init__(self, raw, block, idx, fn):
        self.raw = raw
        self.id = raw["id"]
        self.op = raw["op"]
        self.ty = raw.get("ty")
        self.ops = raw.get("ops", [])
        self.incoming = raw.get("incoming")
        self.callee = raw.get("callee")
        self.pred = raw.get("pred")
        self.line = raw.get("line")
        self.file = raw.get("file")
        self.block = block
        self.idx = idx
        self.fn = fn

    def loc(self):
        return "%s:%s" % (self.file or self.fn.file or "?", self.line if self.line is not None else "?")

    def __repr__(self):
        return "<%s #%d %s @%s>" % (self.op, self.id, self.callee or "", self.loc())


class Block:
    __slots__ = ("id", "insts", "succ", "pred", "name")


class Function:
    def __init__(self, raw, module):
        self.raw = raw
        self.module = module
        self.name = raw["name"]
        self.decl = raw.get("decl", False)
        self.args = raw.get("args", [])
        self.file = raw.get("file")
        self.line = raw.get("line")
        self.local = raw.get("local", False)
        self.blocks = []
        self.inst = {}
        if self.decl:
            return
        for b in raw["blocks"]:
            B = Block()
            B.id = b["id"]
            B.name = b.get("name", "")
            B.succ = list(b["succ"])
            B.pred = []
            B.insts = []
            for k, i in enumerate(b["insts"]):
                I = Inst(i, B, k, self)
                B.insts.append(I)
                self.inst[I.id] = I
            self.blocks.append(B)
        self.bmap = {B.id: B for B in self.blocks}
        for B in self.blocks:
            for s in B.succ:
                self.bmap[s].pred.append(B.id)
        self.entry = self.blocks[0]

    # ---- basic iteration
    def all_insts(self):
        for B in self.blocks:
            for I in B.insts:
                yield I

    def term(self, B):
        return B.insts[-1]

    def rets(self):
        return [I for I in self.all_insts() if I.op == "ret"]

    def calls(self, name=None):
        return [I for I in self.all_insts() if I.op == "call" and not I.raw.get("intrinsic_dbg") and (name is None or I.callee == name)]

    def arg_index(self, name):
        for k, a in enumerate(self.args):
            if a.get("name") == name:
                return k
        return None

    # ---- instruction-level successor relation
    def isucc(self, I):
        B = I.block
        if I.idx + 1 < len(B.insts):
            return [B.insts[I.idx + 1]]
        return [self.bmap[s].insts[0] for s in B.succ]

    def first(self):
        return self.entry.insts[0]

    def reach(self, starts, avoid=None, avoid_edge=None):
        """Set of instruction ids reachable from `starts` (insts) without *entering* an instruction
        for which avoid(inst) is true (start instructions themselves are entered regardless) and
        without traversing a block edge in avoid_edge (set of (from_block_id, to_block_id))."""
        seen = set()
        work = list(starts)
        for s in work:
            seen.add(s.id)
        while work:
            I = work.pop()
            B = I.block
            if I.idx + 1 < len(B.insts):
                nxt = [B.insts[I.idx + 1]]
            else:
                nxt = []
                for s in B.succ:
                    if avoid_edge and (B.id, s) in avoid_edge:
                        continue
                    nxt.append(self.bmap[s].insts[0])
            for N in nxt:
                if N.id in seen:
                    continue
                if avoid and avoid(N):
                    continue
                seen.add(N.id)
                work.append(N)
        return seen

    def breach(self, starts, avoid=None):
        """Backward reachability at instruction level (instructions from which a start can be reached
        without passing *through* an avoided instruction)."""
        if not hasattr(self, "_ipred"):
            ip = {}
            for I in self.all_insts():
                for S in self.isucc(I):
                    ip.setdefault(S.id, []).append(I)
            self._ipred = ip
        seen = set(s.id for s in starts)
        work = list(starts)
        while work:
            I = work.pop()
            for P in self._ipred.get(I.id, []):
                if P.id in seen:
                    continue
                if avoid and avoid(P):
                    continue
                seen.add(P.id)
                work.append(P)
        return seen

    def must_pass(self, target, through, start=None):
        """True iff every path from function entry (or `start`) to `target` enters an instruction in
        `through` (predicate or set of ids) before reaching target."""
        pred = through if callable(through) else (lambda I: I.id in through)
        s = start or self.first()
        if pred(s):
            return True
        r = self.reach([s], avoid=pred)
        return target.id not in r

    def edge_dominates(self, edge, target):
        """edge=(from_block_id,to_block_id): every path entry->target uses that edge."""
        r = self.reach([self.first()], avoid_edge={edge})
        return target.id not in r

    # ---- values
    def resolve(self, v):
        """Instruction object for {"k":"i"} refs, else the ref itself."""
        if isinstance(v, dict) and v.get("k") == "i":
            return self.inst[v["id"]]
        return v

    def strip(self, v, through_gep=False):
        """Strip bitcast / zero-offset GEP / (optionally any GEP) / zext/sext/trunc? no - only pointer casts."""
        while True:
            I = self.resolve(v)
            if isinstance(I, Inst):
                if I.op in ("bitcast", "addrspacecast"):
                    v = I.ops[0]
                    continue
                if I.op == "getelementptr" and (through_gep or I.raw.get("off") == 0):
                    v = I.ops[0]
                    continue
                return I
            if isinstance(I, dict) and I.get("k") == "ce" and I.get("op") in ("bitcast", "getelementptr"):
                if I["op"] == "bitcast" or through_gep or I.get("off") == 0:
                    v = I["ops"][0]
                    continue
            return I

    def ptr_root(self, v):
        """(root, byte_offset or None) following bitcasts and constant-offset GEPs."""
        off = 0
        while True:
            I = self.resolve(v)
            if isinstance(I, Inst):
                if I.op in ("bitcast", "addrspacecast"):
                    v = I.ops[0]
                    continue
                if I.op == "getelementptr":
                    o = I.raw.get("off")
                    off = None if (o is None or off is None) else off + o
                    v = I.ops[0]
                    continue
                return I, off
            if isinstance(I, dict) and I.get("k") == "ce":
                if I.get("op") == "bitcast":
                    v = I["ops"][0]
                    continue
                if I.get("op") == "getelementptr":
                    o = I.get("off")
                    off = None if (o is None or off is None) else off + o
                    v = I["ops"][0]
                    continue
            return I, off

    def field(self, v):
        """For a pointer value: (root, [(struct, member_name, off)...]) describing the outermost
        struct member addressed, using DWARF member names.  None if not a struct field address."""
        I = self.resolve(v)
        chain = []
        while isinstance(I, Inst) and I.op in ("bitcast", "getelementptr"):
            if I.op == "getelementptr":
                for p in I.raw.get("path", []):
                    pass
                chain.append(I)
            I = self.resolve(I.ops[0])
        if not chain:
            return None
        # outermost GEP closest to root is last in chain
        names = []
        for G in reversed(chain):
            for p in G.raw.get("path", []):
                if "struct" in p:
                    sn = p["struct"]
                    names.append((sn, self.module.member_name(sn, p["off"], p["field"]), p["off"]))
        return (I, names)

    def const_int(self, v):
        v = self.resolve(v)
        if isinstance(v, dict) and v.get("k") == "c":
            if "v" in v:
                return v["v"]
            return int(v["vs"])
        return None

    def is_null(self, v):
        v = self.resolve(v)
        return isinstance(v, dict) and v.get("k") == "null"

    def is_arg(self, v, n=None):
        v = self.resolve(v)
        return isinstance(v, dict) and v.get("k") == "a" and (n is None or v["n"] == n)

    def users(self, I):
        if not hasattr(self, "_users"):
            u = {}
            for J in self.all_insts():
                ops = J.ops if J.incoming is None else [x["v"] for x in J.incoming]
                for o in ops:
                    if isinstance(o, dict):
                        if o.get("k") == "i":
                            u.setdefault(("i", o["id"]), []).append(J)
                        elif o.get("k") == "a":
                            u.setdefault(("a", o["n"]), []).append(J)
            self._users = u
        if isinstance(I, Inst):
            return self._users.get(("i", I.id), [])
        if isinstance(I, dict) and I.get("k") == "a":
            return self._users.get(("a", I["n"]), [])
        return []


class Module:
    def __init__(self, path, unit=None):
        with open(path) as fh:
            self.raw = json.load(fh)
        self.path = path
        self.unit = unit
        self.source = self.raw.get("source")
        self.functions = {}
        for f in self.raw["functions"]:
            F = Function(f, self)
            self.functions[F.name] = F
        self.globals = {g["name"]: g for g in self.raw.get("globals", [])}
        self.structs = self.raw.get("structs", {})
        self.distructs = self.raw.get("distructs", {})
        self.enums = self.raw.get("dienums", {})

    def defined(self):
        return [F for F in self.functions.values() if not F.decl]

    def member_name(self, llvm_struct, off, field_index=None):
        """DWARF member name for byte offset `off` of LLVM struct type name 'struct.X'."""
        n = llvm_struct
        if n.startswith("struct."):
            n = n[7:]
        elif n.startswith("union."):
            n = n[6:]
        # clang may suffix .0 etc.
        base = n.split(".")[0]
        ds = self.distructs.get(n) or self.distructs.get(base)
        if ds:
            for m in ds["members"]:
                if m["off"] == off:
                    return m["name"]
            for m in ds["members"]:
                if m["off"] <= off < m["off"] + max(m["size"], 1):
                    return m["name"]
        return "field%s@%d" % (field_index, off)

    def enum_value(self, name):
        for e in self.enums.values():
            if name in e:
                return e[name]
        return None


def load_modules(units):
    """units: build units with an 'ir' artefact -> {src: Module}"""
    mods = {}
    for u in units:
        if u.get("ir"):
            mods[u["src"]] = Module(u["ir"], u)
    return mods


class PathLimit(Exception):
    pass


def iter_paths(fn, start_block_id, prefix=(), max_paths=20000, loop_bound=1):
    """Enumerate block paths from start_block_id to every exit (ret/unreachable).  A block may
    occur at most loop_bound+1 times on one path (loops are cut there, not followed further).
    prefix: blocks that precede the start (so phis in the first block can be resolved)."""
    out = []
    count = [0]
    stack = [(start_block_id, tuple(prefix) + (start_block_id,))]
    while stack:
        b, path = stack.pop()
        B = fn.bmap[b]
        if not B.succ:
            count[0] += 1
            if count[0] > max_paths:
                raise PathLimit(fn.name)
            yield list(path)
            continue
        for s in B.succ:
            if path.count(s) > loop_bound:
                continue
            stack.append((s, path + (s,)))


def eval_on_path(fn, v, path, upto=None):
    """Resolve value v along block path `path` (list of block ids): phis take the incoming value
    for the predecessor actually on the path (the last occurrence of the phi's block before `upto`).
    Returns a constant int, or the unresolved ref/Inst."""
    for _ in range(64):
        I = fn.resolve(v)
        if isinstance(I, Inst) and I.op == "phi":
            bid = I.block.id
            idxs = [k for k, b in enumerate(path) if b == bid and (upto is None or k <= upto)]
            if not idxs or idxs[-1] == 0:
                return I
            k = idxs[-1]
            prev = path[k - 1]
            nv = None
            for inc in I.incoming:
                if inc["b"] == prev:
                    nv = inc["v"]
                    break
            if nv is None:
                return I
            v = nv
            upto = k - 1
            continue
        c = fn.const_int(I)
        if c is not None:
            return c
        return I
    return v


_INV = {"eq": "ne", "ne": "eq", "ugt": "ule", "ule": "ugt", "uge": "ult", "ult": "uge",
        "sgt": "sle", "sle": "sgt", "sge": "slt", "slt": "sge"}


def norm_cond(F, v, neg=False):
    """Normalise an i1 (or int-typed boolean) value to (value, pred, const) of the underlying
    `icmp pred value, const`, folding xor-true, zext/sext, llvm.expect and `!= 0` / `== 0` wrappers.
    Returns None when the value is not of that shape."""
    for _ in range(32):
        I = F.resolve(v)
        if not isinstance(I, Inst):
            return None
        if I.op in ("zext", "sext", "trunc", "freeze"):
            v = I.ops[0]
            continue
        if I.op == "call" and (I.callee or "").startswith("llvm.expect"):
            v = I.ops[0]
            continue
        if I.op == "xor":
            a, b = I.ops
            ca, cb = F.const_int(a), F.const_int(b)
            if cb in (1, -1) and I.ty == "i1":
                v = a
                neg = not neg
                continue
            if ca in (1, -1) and I.ty == "i1":
                v = b
                neg = not neg
                continue
            return None
        if I.op == "icmp":
            a, b = I.ops
            k = F.const_int(b)
            if k is None and F.is_null(b):
                k = 0
            if k is None:
                return None
            A = F.resolve(a)
            # boolean wrapper?  icmp ne/eq (bool-ish), 0
            if k == 0 and I.pred in ("ne", "eq") and isinstance(A, Inst) and _boolish(F, A):
                if I.pred == "eq":
                    neg = not neg
                v = a
                continue
            pred = I.pred
            if neg:
                pred = _INV.get(pred)
                if pred is None:
                    return None
            return (a, pred, k)
        return None
    return None


def _boolish(F, A):
    for _ in range(16):
        if not isinstance(A, Inst):
            return False
        if A.op in ("zext", "sext"):
            A = F.resolve(A.ops[0])
            continue
        if A.op == "call" and (A.callee or "").startswith("llvm.expect"):
            A = F.resolve(A.ops[0])
            continue
        if A.op == "xor" and A.ty == "i1":
            return True
        if A.op == "icmp":
            return True
        return False
    return False
