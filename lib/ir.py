"""Loader and graph queries for the JSON produced by tools/ir2json from clang -O0 + mem2reg IR."""
import copy
import json
import os


class Inst:
    __slots__ = ("id", "op", "ty", "ops", "incoming", "callee", "pred", "line", "file", "block", "idx", "raw", "fn")

    def __init__(self, raw, block, idx, fn):
        self.raw = raw
        self.id = raw["id"]
        self.op = raw["op"]
        self.ty = raw.get("ty")
        self.ops = raw.get("ops", [])
        self.incoming = raw.get("incoming")
        self.callee = raw.get("callee")
        self.pred = raw.get("pred")
        self.line = raw.get("line")
        self.file = raw.get("file")
        self.block = block
        self.idx = idx
        self.fn = fn

    def loc(self):
        return "%s:%s" % (self.file or self.fn.file or "?", self.line if self.line is not None else "?")

    def __repr__(self):
        return "<%s #%d %s @%s>" % (self.op, self.id, self.callee or "", self.loc())


class Block:
    __slots__ = ("id", "insts", "succ", "pred", "name")


class Function:
    def __init__(self, raw, module):
        self.raw = raw
        self.module = module
        self.name = raw["name"]
        self.decl = raw.get("decl", False)
        self.args = raw.get("args", [])
        self.file = raw.get("file")
        self.line = raw.get("line")
        self.local = raw.get("local", False)
        self.blocks = []
        self.inst = {}
        if self.decl:
            return
        for b in raw["blocks"]:
            B = Block()
            B.id = b["id"]
            B.name = b.get("name", "")
            B.succ = list(b["succ"])
            B.pred = []
            B.insts = []
            for k, i in enumerate(b["insts"]):
                I = Inst(i, B, k, self)
                B.insts.append(I)
                self.inst[I.id] = I
            self.blocks.append(B)
        self.bmap = {B.id: B for B in self.blocks}
        for B in self.blocks:
            for s in B.succ:
                self.bmap[s].pred.append(B.id)
        self.entry = self.blocks[0]

    # ---- basic iteration
    def all_insts(self):
        for B in self.blocks:
            for I in B.insts:
                yield I

    def term(self, B):
        return B.insts[-1]

    def rets(self):
        return [I for I in self.all_insts() if I.op == "ret"]

    def calls(self, name=None):
        return [I for I in self.all_insts() if I.op == "call" and not I.raw.get("intrinsic_dbg") and (name is None or I.callee == name)]

    def arg_index(self, name):
        for k, a in enumerate(self.args):
            if a.get("name") == name:
                return k
        return None

    # ---- instruction-level successor relation
    def isucc(self, I):
        B = I.block
        if I.idx + 1 < len(B.insts):
            return [B.insts[I.idx + 1]]
        return [self.bmap[s].insts[0] for s in B.succ]

    def first(self):
        return self.entry.insts[0]

    def reach(self, starts, avoid=None, avoid_edge=None):
        """Set of instruction ids reachable from `starts` (insts) without *entering* an instruction
        for which avoid(inst) is true (start instructions themselves are entered regardless) and
        without traversing a block edge in avoid_edge (set of (from_block_id, to_block_id))."""
        seen = set()
        work = list(starts)
        for s in work:
            seen.add(s.id)
        while work:
            I = work.pop()
            B = I.block
            if I.idx + 1 < len(B.insts):
                nxt = [B.insts[I.idx + 1]]
            else:
                nxt = []
                for s in B.succ:
                    if avoid_edge and (B.id, s) in avoid_edge:
                        continue
                    nxt.append(self.bmap[s].insts[0])
            for N in nxt:
                if N.id in seen:
                    continue
                if avoid and avoid(N):
                    continue
                seen.add(N.id)
                work.append(N)
        return seen

    def breach(self, starts, avoid=None):
        """Backward reachability at instruction level (instructions from which a start can be reached
        without passing *through* an avoided instruction)."""
        if not hasattr(self, "_ipred"):
            ip = {}
            for I in self.all_insts():
                for S in self.isucc(I):
                    ip.setdefault(S.id, []).append(I)
            self._ipred = ip
        seen = set(s.id for s in starts)
        work = list(starts)
        while work:
            I = work.pop()
            for P in self._ipred.get(I.id, []):
                if P.id in seen:
                    continue
                if avoid and avoid(P):
                    continue
                seen.add(P.id)
                work.append(P)
        return seen

    def must_pass(self, target, through, start=None):
        """True iff every path from function entry (or `start`) to `target` enters an instruction in
        `through` (predicate or set of ids) before reaching target."""
        pred = through if callable(through) else (lambda I: I.id in through)
        s = start or self.first()
        if pred(s):
            return True
        r = self.reach([s], avoid=pred)
        return target.id not in r

    def edge_dominates(self, edge, target):
        """edge=(from_block_id,to_block_id): every path entry->target uses that edge."""
        r = self.reach([self.first()], avoid_edge={edge})
        return target.id not in r

    # ---- values
    def resolve(self, v):
        """Instruction object for {"k":"i"} refs, else the ref itself."""
        if isinstance(v, dict) and v.get("k") == "i":
            return self.inst[v["id"]]
        return v

    def strip(self, v, through_gep=False):
        """Strip bitcast / zero-offset GEP / (optionally any GEP) / zext/sext/trunc? no - only pointer casts."""
        while True:
            I = self.resolve(v)
            if isinstance(I, Inst):
                if I.op in ("bitcast", "addrspacecast"):
                    v = I.ops[0]
                    continue
                if I.op == "getelementptr" and (through_gep or I.raw.get("off") == 0):
                    v = I.ops[0]
                    continue
                return I
            if isinstance(I, dict) and I.get("k") == "ce" and I.get("op") in ("bitcast", "getelementptr"):
                if I["op"] == "bitcast" or through_gep or I.get("off") == 0:
                    v = I["ops"][0]
                    continue
            return I

    def ptr_root(self, v):
        """(root, byte_offset or None) following bitcasts and constant-offset GEPs."""
        off = 0
        while True:
            I = self.resolve(v)
            if isinstance(I, Inst):
                if I.op in ("bitcast", "addrspacecast"):
                    v = I.ops[0]
                    continue
                if I.op == "getelementptr":
                    o = I.raw.get("off")
                    off = None if (o is None or off is None) else off + o
                    v = I.ops[0]
                    continue
                return I, off
            if isinstance(I, dict) and I.get("k") == "ce":
                if I.get("op") == "bitcast":
                    v = I["ops"][0]
                    continue
                if I.get("op") == "getelementptr":
                    o = I.get("off")
                    off = None if (o is None or off is None) else off + o
                    v = I["ops"][0]
                    continue
            return I, off

    def field(self, v):
        """For a pointer value: (root, [(struct, member_name, off)...]) describing the outermost
        struct member addressed, using DWARF member names.  None if not a struct field address."""
        I = self.resolve(v)
        chain = []
        while isinstance(I, Inst) and I.op in ("bitcast", "getelementptr"):
            if I.op == "getelementptr":
                for p in I.raw.get("path", []):
                    pass
                chain.append(I)
            I = self.resolve(I.ops[0])
        if not chain:
            return None
        # outermost GEP closest to root is last in chain
        names = []
        for G in reversed(chain):
            for p in G.raw.get("path", []):
                if "struct" in p:
                    sn = p["struct"]
                    names.append((sn, self.module.member_name(sn, p["off"], p["field"]), p["off"]))
        return (I, names)

    def const_int(self, v):
        v = self.resolve(v)
        if isinstance(v, dict) and v.get("k") == "c":
            if "v" in v:
                return v["v"]
            return int(v["vs"])
        return None

    def is_null(self, v):
        v = self.resolve(v)
        return isinstance(v, dict) and v.get("k") == "null"

    def is_arg(self, v, n=None):
        v = self.resolve(v)
        return isinstance(v, dict) and v.get("k") == "a" and (n is None or v["n"] == n)

    def users(self, I):
        if not hasattr(self, "_users"):
            u = {}
            for J in self.all_insts():
                ops = J.ops if J.incoming is None else [x["v"] for x in J.incoming]
                for o in ops:
                    if isinstance(o, dict):
                        if o.get("k") == "i":
                            u.setdefault(("i", o["id"]), []).append(J)
                        elif o.get("k") == "a":
                            u.setdefault(("a", o["n"]), []).append(J)
            self._users = u
        if isinstance(I, Inst):
            return self._users.get(("i", I.id), [])
        if isinstance(I, dict) and I.get("k") == "a":
            return self._users.get(("a", I["n"]), [])
        return []


class Module:
    def __init__(self, path, unit=None):
        with open(path) as fh:
            self.raw = json.load(fh)
        self.path = path
        self.unit = unit
        self.source = self.raw.get("source")
        self.functions = {}
        for f in self.raw["functions"]:
            F = Function(f, self)
            self.functions[F.name] = F
        self.globals = {g["name"]: g for g in self.raw.get("globals", [])}
        self.structs = self.raw.get("structs", {})
        self.distructs = self.raw.get("distructs", {})
        self.enums = self.raw.get("dienums", {})

    def defined(self):
        return [F for F in self.functions.values() if not F.decl]

    def member_name(self, llvm_struct, off, field_index=None):
        """DWARF member name for byte offset `off` of LLVM struct type name 'struct.X'."""
        n = llvm_struct
        if n.startswith("struct."):
            n = n[7:]
        elif n.startswith("union."):
            n = n[6:]
        # clang may suffix .0 etc.
        base = n.split(".")[0]
        ds = self.distructs.get(n) or self.distructs.get(base)
        if ds:
            for m in ds["members"]:
                if m["off"] == off:
                    return m["name"]
            for m in ds["members"]:
                if m["off"] <= off < m["off"] + max(m["size"], 1):
                    return m["name"]
        return "field%s@%d" % (field_index, off)

    def enum_value(self, name):
        for e in self.enums.values():
            if name in e:
                return e[name]
        return None


_KNOWN_HELPERS = None


def known_helpers():
    """Names of the static functions of the tree the rules were written against (tables/ir_known_helpers.json).
    Rules name some of them (hash_pad, hash_init_digest, *_ctx_mgr_resubmit ...) and treat the others as opaque
    calls; any *other* small static helper is inlined before analysis, so that extracting a helper function
    (the most common behaviour-preserving edit) does not change what the path rules see."""
    global _KNOWN_HELPERS
    if _KNOWN_HELPERS is None:
        p = os.path.join(os.path.dirname(os.path.dirname(os.path.abspath(__file__))), "tables", "ir_known_helpers.json")
        try:
            with open(p) as fh:
                _KNOWN_HELPERS = set(json.load(fh)["names"])
        except (OSError, ValueError, KeyError):
            _KNOWN_HELPERS = set()
    return _KNOWN_HELPERS


def _acyclic(raw):
    succ = {b["id"]: b["succ"] for b in raw["blocks"]}
    color = {}
    stack = [(raw["blocks"][0]["id"], iter(succ[raw["blocks"][0]["id"]]))]
    color[raw["blocks"][0]["id"]] = 1
    while stack:
        b, it = stack[-1]
        nxt = next(it, None)
        if nxt is None:
            color[b] = 2
            stack.pop()
            continue
        c = color.get(nxt)
        if c == 1:
            return False
        if c is None:
            color[nxt] = 1
            stack.append((nxt, iter(succ[nxt])))
    return True


def _remap_ref(r, imap, bmap, args):
    if not isinstance(r, dict):
        return r
    k = r.get("k")
    if k == "i":
        return {"k": "i", "id": imap[r["id"]]} if r["id"] in imap else r
    if k == "b":
        return {"k": "b", "id": bmap[r["id"]]}
    if k == "a":
        return copy.deepcopy(args[r["n"]]) if r["n"] < len(args) else r
    if k == "ce":
        out = dict(r)
        out["ops"] = [_remap_ref(o, imap, bmap, args) for o in r.get("ops", [])]
        return out
    return r


def inline_call(raw, bidx, iidx, graw):
    """Splice a copy of callee `graw` (raw function dict) in place of the call instruction raw.blocks[bidx].insts[iidx]."""
    blocks = raw["blocks"]
    B = blocks[bidx]
    call = B["insts"][iidx]
    next_i = max(i["id"] for b in blocks for i in b["insts"]) + 1
    next_b = max(b["id"] for b in blocks) + 1
    imap = {}
    bmap = {}
    for gb in graw["blocks"]:
        bmap[gb["id"]] = next_b
        next_b += 1
        for gi in gb["insts"]:
            imap[gi["id"]] = next_i
            next_i += 1
    cont_id = next_b
    next_b += 1
    nargs = call.get("nargs", len(call.get("ops", [])) - 1)
    args = call.get("ops", [])[:nargs]
    rets = []
    newblocks = []
    for gb in graw["blocks"]:
        nb = {"id": bmap[gb["id"]], "name": "inl.%s.%s" % (graw["name"], gb.get("name", "")), "succ": [bmap[s] for s in gb["succ"]], "insts": []}
        for gi in gb["insts"]:
            ni = copy.deepcopy(gi)
            ni["id"] = imap[gi["id"]]
            ni["inlined_from"] = graw["name"]
            if "ops" in ni:
                ni["ops"] = [_remap_ref(o, imap, bmap, args) for o in ni["ops"]]
            if ni.get("incoming"):
                ni["incoming"] = [{"b": bmap[x["b"]], "v": _remap_ref(x["v"], imap, bmap, args)} for x in ni["incoming"]]
            if "succ" in ni:
                ni["succ"] = [bmap[x] for x in ni["succ"]]
            if "cases" in ni:
                ni["cases"] = [{"v": c["v"], "b": bmap[c["b"]]} for c in ni["cases"]]
            if "default" in ni and ni["default"] is not None:
                ni["default"] = bmap[ni["default"]]
            if ni["op"] == "call" and ni.get("callee") in (None, "", "<indirect>") and ni.get("ops"):
                last = ni["ops"][-1]
                for _ in range(3):
                    if isinstance(last, dict) and last.get("k") == "ce" and last.get("ops"):
                        last = last["ops"][0]           # a cast of the function's address
                if isinstance(last, dict) and last.get("k") == "g" and last.get("name"):
                    ni["callee"] = last["name"]          # a function-pointer parameter bound to a known function
            if ni["op"] == "ret":
                rets.append((nb["id"], ni["ops"][0] if ni.get("ops") else None))
                ni = {"id": ni["id"], "op": "br", "cond": False, "ops": [{"k": "b", "id": cont_id}], "succ": [cont_id], "ty": "void", "file": ni.get("file"), "line": ni.get("line"), "inlined_from": graw["name"]}
                nb["succ"] = [cont_id]
            nb["insts"].append(ni)
        newblocks.append(nb)
    cont = {"id": cont_id, "name": "inl.cont." + graw["name"], "succ": list(B["succ"]), "insts": []}
    single = None
    if call.get("ty") not in (None, "void") and len(rets) == 1 and rets[0][1] is not None:
        single = rets[0][1]           # one return: the call's users read the returned value directly (no phi)
    elif call.get("ty") not in (None, "void") and rets:
        cont["insts"].append({"id": call["id"], "op": "phi", "ty": call.get("ty"), "file": call.get("file"), "line": call.get("line"),
                              "incoming": [{"b": b, "v": v} for (b, v) in rets if v is not None], "inlined_from": graw["name"]})
    cont["insts"] += B["insts"][iidx + 1:]
    entry_new = bmap[graw["blocks"][0]["id"]]
    B["insts"] = B["insts"][:iidx] + [{"id": next_i, "op": "br", "cond": False, "ops": [{"k": "b", "id": entry_new}], "succ": [entry_new], "ty": "void", "file": call.get("file"), "line": call.get("line")}]
    old_succ = list(B["succ"])
    B["succ"] = [entry_new]
    # phis of the old successors now come from the continuation block
    for sb in blocks:
        if sb["id"] in old_succ:
            for i in sb["insts"]:
                if i.get("incoming"):
                    for x in i["incoming"]:
                        if x["b"] == B["id"]:
                            x["b"] = cont_id
    # a phi inside the continuation that names B (self loop through B) cannot exist: B's tail moved as a whole
    blocks.extend(newblocks)
    blocks.append(cont)
    if single is not None:
        cid = call["id"]

        def sub(r):
            if isinstance(r, dict):
                if r.get("k") == "i" and r.get("id") == cid:
                    return copy.deepcopy(single)
                if r.get("k") == "ce":
                    o = dict(r)
                    o["ops"] = [sub(x) for x in r.get("ops", [])]
                    return o
            return r
        for b in blocks:
            for i in b["insts"]:
                if "ops" in i:
                    i["ops"] = [sub(o) for o in i["ops"]]
                if i.get("incoming"):
                    for x in i["incoming"]:
                        x["v"] = sub(x["v"])


def lower_selects(M):
    """Turn every `select c, a, b` into a diamond (branch on c, phi of a / b carrying the select's id), so that path
    rules see a conditional expression (`return x ? E : 0`) exactly like the equivalent if/else."""
    n = 0
    for f in M.raw["functions"]:
        if f.get("decl"):
            continue
        changed = True
        guard = 0
        while changed and guard < 500:
            changed = False
            guard += 1
            next_i = max(i["id"] for b in f["blocks"] for i in b["insts"]) + 1
            next_b = max(b["id"] for b in f["blocks"]) + 1
            for B in f["blocks"]:
                hit = None
                for k, i in enumerate(B["insts"]):
                    if i["op"] == "select" and len(i.get("ops", [])) == 3 and (i.get("ty") or "").startswith(("i", "%", "{", "[", "p")) or (i["op"] == "select" and len(i.get("ops", [])) == 3):
                        hit = (k, i)
                        break
                if hit is None:
                    continue
                k, S = hit
                tb, fb, jb = next_b, next_b + 1, next_b + 2
                T = {"id": tb, "name": "sel.t", "succ": [jb], "insts": [{"id": next_i, "op": "br", "cond": False, "ops": [{"k": "b", "id": jb}], "succ": [jb], "ty": "void", "file": S.get("file"), "line": S.get("line")}]}
                Fb = {"id": fb, "name": "sel.f", "succ": [jb], "insts": [{"id": next_i + 1, "op": "br", "cond": False, "ops": [{"k": "b", "id": jb}], "succ": [jb], "ty": "void", "file": S.get("file"), "line": S.get("line")}]}
                J = {"id": jb, "name": "sel.j", "succ": list(B["succ"]), "insts": [{"id": S["id"], "op": "phi", "ty": S.get("ty"), "file": S.get("file"), "line": S.get("line"),
                                                                                   "incoming": [{"b": tb, "v": S["ops"][1]}, {"b": fb, "v": S["ops"][2]}]}] + B["insts"][k + 1:]}
                old_succ = list(B["succ"])
                B["insts"] = B["insts"][:k] + [{"id": next_i + 2, "op": "br", "cond": True, "ops": [S["ops"][0], {"k": "b", "id": fb}, {"k": "b", "id": tb}], "succ": [tb, fb], "ty": "void", "file": S.get("file"), "line": S.get("line")}]
                B["succ"] = [tb, fb]
                for sb in f["blocks"]:
                    if sb["id"] in old_succ:
                        for i in sb["insts"]:
                            if i.get("incoming"):
                                for x in i["incoming"]:
                                    if x["b"] == B["id"]:
                                        x["b"] = jb
                f["blocks"].extend([T, Fb, J])
                n += 1
                changed = True
                break
        if guard > 1:
            M.functions[f["name"]] = Function(f, M)
    return n


def inline_new_helpers(M, max_blocks=60, budget=64):
    """Inline, into every defined function of module M, calls to static functions of the same unit that are not
    in the frozen helper table, are loop-free and small.  Returns the list of (caller, callee) pairs inlined."""
    known = known_helpers()
    done = []
    raws = {f["name"]: f for f in M.raw["functions"]}

    def candidate(name, caller):
        g = raws.get(name)
        if g is None or g.get("decl") or not g.get("local") or name in known or name == caller:
            return None
        if len(g["blocks"]) > max_blocks or not _acyclic(g):
            return None
        for b in g["blocks"]:
            for i in b["insts"]:
                if i["op"] == "call" and i.get("callee") == name:
                    return None
        return g
    for f in M.raw["functions"]:
        if f.get("decl"):
            continue
        n = 0
        changed = True
        while changed and n < budget:
            changed = False
            for bi, b in enumerate(f["blocks"]):
                for ii, i in enumerate(b["insts"]):
                    if i["op"] == "call" and i.get("callee"):
                        g = candidate(i["callee"], f["name"])
                        if g is not None:
                            inline_call(f, bi, ii, g)
                            done.append((f["name"], g["name"]))
                            n += 1
                            changed = True
                            break
                if changed:
                    break
        if n:
            M.functions[f["name"]] = Function(f, M)
    # helpers whose every call site was inlined are dead: drop them so that whole-module scans (who calls X) see
    # each call once, in the function it now belongs to
    if done:
        inlined_names = {g for (_f, g) in done}
        still = set()
        for f in M.raw["functions"]:
            if f.get("decl"):
                continue
            for b in f["blocks"]:
                for i in b["insts"]:
                    if i["op"] == "call" and i.get("callee") in inlined_names and f["name"] != i.get("callee"):
                        still.add(i["callee"])
                    for o in i.get("ops", []):
                        if isinstance(o, dict) and o.get("k") == "g" and o.get("name") in inlined_names and i["op"] != "call":
                            still.add(o["name"])       # address taken
        dead = inlined_names - still
        # a dead helper may itself reference other inlined helpers: iterate once more
        M.raw["functions"] = [f for f in M.raw["functions"] if f["name"] not in dead]
        for n in dead:
            M.functions.pop(n, None)
    M.inlined = done
    return done


def load_modules(units, inline=True):
    """units: build units with an 'ir' artefact -> {src: Module}.  Small static helpers that are not part of the
    frozen helper table are inlined (see known_helpers)."""
    mods = {}
    for u in units:
        if u.get("ir"):
            M = Module(u["ir"], u)
            M.inlined = []
            if inline:
                inline_new_helpers(M)
                lower_selects(M)
            mods[u["src"]] = M
    return mods


class PathLimit(Exception):
    pass


def iter_paths(fn, start_block_id, prefix=(), max_paths=20000, loop_bound=1):
    """Enumerate block paths from start_block_id to every exit (ret/unreachable).  A block may
    occur at most loop_bound+1 times on one path (loops are cut there, not followed further).
    prefix: blocks that precede the start (so phis in the first block can be resolved)."""
    out = []
    count = [0]
    stack = [(start_block_id, tuple(prefix) + (start_block_id,))]
    while stack:
        b, path = stack.pop()
        B = fn.bmap[b]
        if not B.succ:
            count[0] += 1
            if count[0] > max_paths:
                raise PathLimit(fn.name)
            yield list(path)
            continue
        for s in B.succ:
            if path.count(s) > loop_bound:
                continue
            stack.append((s, path + (s,)))


def eval_on_path(fn, v, path, upto=None):
    """Resolve value v along block path `path` (list of block ids): phis take the incoming value
    for the predecessor actually on the path (the last occurrence of the phi's block before `upto`).
    Returns a constant int, or the unresolved ref/Inst."""
    for _ in range(64):
        I = fn.resolve(v)
        if isinstance(I, Inst) and I.op == "phi":
            bid = I.block.id
            idxs = [k for k, b in enumerate(path) if b == bid and (upto is None or k <= upto)]
            if not idxs or idxs[-1] == 0:
                return I
            k = idxs[-1]
            prev = path[k - 1]
            nv = None
            for inc in I.incoming:
                if inc["b"] == prev:
                    nv = inc["v"]
                    break
            if nv is None:
                return I
            v = nv
            upto = k - 1
            continue
        c = fn.const_int(I)
        if c is not None:
            return c
        return I
    return v


class ValRef:
    """Right-hand side of a comparison between two non-constant values."""
    __slots__ = ("v",)

    def __init__(self, v):
        self.v = v

    def __repr__(self):
        return "ValRef(%r)" % (self.v,)


_INV = {"eq": "ne", "ne": "eq", "ugt": "ule", "ule": "ugt", "uge": "ult", "ult": "uge",
        "sgt": "sle", "sle": "sgt", "sge": "slt", "slt": "sge"}


def norm_cond(F, v, neg=False):
    """Normalise an i1 (or int-typed boolean) value to (value, pred, const) of the underlying
    `icmp pred value, const`, folding xor-true, zext/sext, llvm.expect and `!= 0` / `== 0` wrappers.
    Returns None when the value is not of that shape."""
    for _ in range(32):
        I = F.resolve(v)
        if not isinstance(I, Inst):
            return None
        if I.op in ("zext", "sext", "trunc", "freeze"):
            v = I.ops[0]
            continue
        if I.op == "call" and (I.callee or "").startswith("llvm.expect"):
            v = I.ops[0]
            continue
        if I.op == "xor":
            a, b = I.ops
            ca, cb = F.const_int(a), F.const_int(b)
            if cb in (1, -1) and I.ty == "i1":
                v = a
                neg = not neg
                continue
            if ca in (1, -1) and I.ty == "i1":
                v = b
                neg = not neg
                continue
            return None
        if I.op == "icmp":
            a, b = I.ops
            k = F.const_int(b)
            if k is None and F.is_null(b):
                k = 0
            if k is None:
                ka = F.const_int(a)
                if ka is None and F.is_null(a):
                    ka = 0
                if ka is not None:
                    # constant on the left: swap
                    sw = {"eq": "eq", "ne": "ne", "ugt": "ult", "ult": "ugt", "uge": "ule", "ule": "uge", "sgt": "slt", "slt": "sgt", "sge": "sle", "sle": "sge"}
                    pred = sw.get(I.pred)
                    if pred is None:
                        return None
                    if neg:
                        pred = _INV.get(pred)
                    return (b, pred, ka)
                pred = I.pred
                if neg:
                    pred = _INV.get(pred)
                    if pred is None:
                        return None
                return (a, pred, ValRef(b))
            A = F.resolve(a)
            # boolean wrapper?  icmp ne/eq (bool-ish), 0
            if k == 0 and I.pred in ("ne", "eq") and isinstance(A, Inst) and _boolish(F, A):
                if I.pred == "eq":
                    neg = not neg
                v = a
                continue
            pred = I.pred
            if neg:
                pred = _INV.get(pred)
                if pred is None:
                    return None
            return (a, pred, k)
        return None
    return None


def _boolish(F, A):
    for _ in range(16):
        if not isinstance(A, Inst):
            return False
        if A.op in ("zext", "sext"):
            A = F.resolve(A.ops[0])
            continue
        if A.op == "call" and (A.callee or "").startswith("llvm.expect"):
            A = F.resolve(A.ops[0])
            continue
        if A.op == "xor" and A.ty == "i1":
            return True
        if A.op == "icmp":
            return True
        return False
    return False


def expr_str(F, v, depth=0):
    """Symbolic rendering of an SSA value in terms of parameters, constants, loads of named struct
    fields and call results - used to compare conditions between sibling functions."""
    if depth > 10:
        return "..."
    I = F.resolve(v)
    if isinstance(I, dict):
        k = I.get("k")
        if k == "a":
            return "arg:" + (F.args[I["n"]].get("name") or str(I["n"]))
        if k == "c":
            return str(I.get("v", I.get("vs")))
        if k == "null":
            return "null"
        if k == "g":
            return "@" + I["name"]
        if k == "ce":
            return "ce(" + ",".join(expr_str(F, o, depth + 1) for o in I.get("ops", [])) + ")"
        return k or "?"
    if I.op in ("bitcast", "zext", "sext", "trunc", "ptrtoint", "inttoptr", "freeze"):
        return expr_str(F, I.ops[0], depth + 1)
    if I.op == "call":
        if (I.callee or "").startswith("llvm.expect"):
            return expr_str(F, I.ops[0], depth + 1)
        return "call:%s#%d" % (I.callee, I.id)
    if I.op == "load":
        fld = F.field(I.ops[0])
        if fld:
            root, names = fld
            return "load(%s.%s)" % (expr_str(F, {"k": "i", "id": root.id} if isinstance(root, Inst) else root, depth + 1), ".".join(n[1] for n in names))
        return "load(%s)" % expr_str(F, I.ops[0], depth + 1)
    if I.op == "getelementptr":
        return "gep(%s,%s)" % (expr_str(F, I.ops[0], depth + 1), I.raw.get("off"))
    if I.op == "phi":
        # a phi fed only by constants (the verdict of an inlined predicate / check helper) is named by its values, so
        # that sibling functions with the same structure compare equal; other phis stay identified by instruction
        cs = []
        others = []
        seen_ = set()
        stack_ = [I]
        while stack_ and cs is not None:
            P_ = stack_.pop()
            if P_.id in seen_:
                continue
            seen_.add(P_.id)
            for inc in (P_.incoming or []):
                v = inc["v"]
                if isinstance(v, dict) and v.get("k") == "c" and isinstance(v.get("v"), int):
                    cs.append(v["v"])
                    continue
                r_ = F.resolve(v)
                if isinstance(r_, Inst) and r_.op == "phi" and len(seen_) < 16:
                    stack_.append(r_)           # a phi of phis (helpers that call helpers, inlined): look through
                elif depth < 6:
                    others.append(expr_str(F, v, depth + 3))
                else:
                    cs = None
                    break
        if cs is not None and (cs or others):
            # by shape, not by value or instruction number: sibling wrappers return different error codes from the
            # same structure, and an inlined helper's result phi has a different number in every caller
            nz = len({c for c in cs if c != 0})
            return "phi{%s%d nonzero%s}" % ("0," if 0 in cs else "", nz, (";" + "|".join(sorted(set(others)))) if others else "")
        return "phi#%d" % I.id
    if I.op == "icmp":
        return "icmp_%s(%s,%s)" % (I.pred, expr_str(F, I.ops[0], depth + 1), expr_str(F, I.ops[1], depth + 1))
    return "%s(%s)" % (I.op, ",".join(expr_str(F, o, depth + 1) for o in I.ops))


class PathInfo:
    __slots__ = ("blocks", "facts", "insts", "ret", "retinst", "bidx", "fact_k")

    def at(self, F, v, k):
        """SSA value v as seen at path position k (phis resolved by the edges actually taken up to there);
        pointer casts stripped.  Returns an int, a ref dict or an Inst."""
        r = eval_on_path(F, v, self.blocks, upto=k)
        for _ in range(8):
            if isinstance(r, Inst) and r.op == "bitcast":
                r = eval_on_path(F, r.ops[0], self.blocks, upto=k)
            else:
                break
        return r

    @staticmethod
    def same(a, b):
        if isinstance(a, Inst) and isinstance(b, Inst):
            return a.id == b.id and a.fn is b.fn
        if isinstance(a, Inst) or isinstance(b, Inst):
            return False
        return a == b

    def contradictory(self, F):
        """Two facts on the same resolved value that cannot both hold (x == c and x != c, x == c1 and x == c2)."""
        seen = []
        for (val, pred, c, t, br, pos), k in zip(self.facts, self.fact_k):
            if pred not in ("eq", "ne") or not isinstance(c, int):
                continue
            r = self.at(F, val, k)
            rc = r if isinstance(r, int) else (r.get("v") if isinstance(r, dict) and r.get("k") == "c" and isinstance(r.get("v"), int) else None)
            if rc is not None:
                # the value is a constant on this path (a phi fed by the edges taken): the fact must agree with it
                same = (rc - c) % (1 << 64) == 0 or (rc - c) % (1 << 32) == 0
                if (pred == "eq") != same:
                    return True
                continue
            if isinstance(r, Inst) and r.op in ("load", "call"):
                # memory / call results may change between two evaluations of the same instruction in a loop
                r = (r.id, k if self.blocks.count(self.blocks[k]) > 1 else -1, "dyn")
            for (r2, p2, c2) in seen:
                if (r2 == r if not isinstance(r, Inst) else (isinstance(r2, Inst) and r2.id == r.id)):
                    if (pred != p2 and c == c2) or (pred == "eq" and p2 == "eq" and c != c2):
                        return True
            seen.append((r, pred, c))
        return False


def paths_with_facts(F, max_paths=20000):
    """All entry->exit block paths (loops cut after one extra visit) with the normalised branch facts
    taken on each: facts = [(value_ref, pred, const, taken, br_inst, position_in_insts)]."""
    for path in iter_paths(F, F.entry.id, max_paths=max_paths):
        P = PathInfo()
        P.blocks = path
        P.facts = []
        P.insts = []
        P.bidx = []
        P.fact_k = []
        for k, b in enumerate(path):
            B = F.bmap[b]
            for I in B.insts:
                P.insts.append(I)
                P.bidx.append(k)
            T = B.insts[-1]
            nf0 = len(P.facts)
            if T.op == "br" and T.raw.get("cond") and k + 1 < len(path):
                taken_true = T.raw["succ"][0] == path[k + 1]
                if T.raw["succ"][0] == T.raw["succ"][1]:
                    continue
                nc = norm_cond(F, T.ops[0])
                if nc is None:
                    P.facts.append((T.ops[0], None, None, taken_true, T, len(P.insts) - 1))
                else:
                    val, pred, c = nc
                    if not taken_true:
                        pred = _INV.get(pred)
                    P.facts.append((val, pred, c, True, T, len(P.insts) - 1))
            elif T.op == "switch" and k + 1 < len(path):
                nxt = path[k + 1]
                vals = [cs["v"] for cs in T.raw.get("cases", []) if cs["b"] == nxt]
                if nxt == T.raw.get("default") or len(vals) != 1:
                    P.facts.append((T.ops[0], "switch-default", tuple(cs["v"] for cs in T.raw.get("cases", [])), True, T, len(P.insts) - 1))
                else:
                    P.facts.append((T.ops[0], "eq", vals[0], True, T, len(P.insts) - 1))
            while len(P.fact_k) < len(P.facts):
                P.fact_k.append(k)
        R = P.insts[-1]
        P.retinst = R
        P.ret = eval_on_path(F, R.ops[0], path) if (R.op == "ret" and R.ops) else None
        yield P


def eval_expr(F, v, leaf, depth=0):
    """Constant-fold SSA value v given leaf(I_or_ref) -> int or None for inputs.  Returns int or None.
    Integers are folded at the instruction's bit width (unsigned representation)."""
    if depth > 40:
        return None
    I = F.resolve(v)
    lv = leaf(I)
    if lv is not None:
        return lv
    if isinstance(I, dict):
        c = F.const_int(I)
        if c is not None:
            bits = I.get("bits", 64)
            return c & ((1 << bits) - 1)
        if I.get("k") == "null":
            return 0
        return None
    bits = _bits(I.ty)
    mask = (1 << bits) - 1 if bits else None
    if I.op in ("zext", "bitcast", "freeze", "ptrtoint", "inttoptr"):
        return eval_expr(F, I.ops[0], leaf, depth + 1)
    if I.op == "trunc":
        x = eval_expr(F, I.ops[0], leaf, depth + 1)
        return None if x is None else x & mask
    if I.op == "sext":
        x = eval_expr(F, I.ops[0], leaf, depth + 1)
        sb = _bits(I.raw.get("srcty", "i32"))
        if x is None or not sb:
            return None
        if x >> (sb - 1) & 1:
            x |= mask & ~((1 << sb) - 1)
        return x & mask
    if I.op == "call" and (I.callee or "").startswith("llvm.expect"):
        return eval_expr(F, I.ops[0], leaf, depth + 1)
    if I.op in ("and", "or", "xor", "add", "sub", "mul", "shl", "lshr"):
        a = eval_expr(F, I.ops[0], leaf, depth + 1)
        b = eval_expr(F, I.ops[1], leaf, depth + 1)
        if I.op == "and" and (a == 0 or b == 0):
            return 0
        if a is None or b is None or mask is None:
            return None
        r = {"and": a & b, "or": a | b, "xor": a ^ b, "add": a + b, "sub": a - b, "mul": a * b,
             "shl": a << (b % bits), "lshr": a >> (b % bits)}[I.op]
        return r & mask
    if I.op == "icmp":
        a = eval_expr(F, I.ops[0], leaf, depth + 1)
        b = eval_expr(F, I.ops[1], leaf, depth + 1)
        if a is None or b is None:
            return None
        ob = _bits(F.resolve(I.ops[0]).ty if isinstance(F.resolve(I.ops[0]), Inst) else (F.resolve(I.ops[1]).ty if isinstance(F.resolve(I.ops[1]), Inst) else "i64")) or 64
        if isinstance(F.resolve(I.ops[0]), dict) and F.resolve(I.ops[0]).get("k") == "a":
            ob = _bits(F.args[F.resolve(I.ops[0])["n"]]["ty"]) or 64

        def sg(x):
            return x - (1 << ob) if x >> (ob - 1) & 1 else x
        p = I.pred
        r = {"eq": a == b, "ne": a != b, "ugt": a > b, "uge": a >= b, "ult": a < b, "ule": a <= b,
             "sgt": sg(a) > sg(b), "sge": sg(a) >= sg(b), "slt": sg(a) < sg(b), "sle": sg(a) <= sg(b)}.get(p)
        return None if r is None else int(r)
    if I.op == "select":
        c = eval_expr(F, I.ops[0], leaf, depth + 1)
        if c is None:
            return None
        return eval_expr(F, I.ops[1 if c else 2], leaf, depth + 1)
    return None


def _bits(ty):
    if ty and ty.startswith("i") and ty[1:].isdigit():
        return int(ty[1:])
    if ty and ty.endswith("*"):
        return 64
    return None
