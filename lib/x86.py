"""Loader for x86lift output, function discovery, CFG recovery, whole-library symbol resolution."""
import bisect
import os
import pickle
import re

from build import AnalysisBroken

G64 = ["RAX", "RBX", "RCX", "RDX", "RSI", "RDI", "RBP", "RSP"] + ["R%d" % i for i in range(8, 16)]
PARENT = {}
WIDTH = {}
for _r in G64:
    PARENT[_r] = _r
    WIDTH[_r] = 64
for _a, _b in [("RAX", "A"), ("RBX", "B"), ("RCX", "C"), ("RDX", "D")]:
    for _n, _w in (("E" + _b + "X", 32), (_b + "X", 16), (_b + "L", 8), (_b + "H", 8)):
        PARENT[_n] = _a
        WIDTH[_n] = _w
for _a, _b in [("RSI", "SI"), ("RDI", "DI"), ("RBP", "BP"), ("RSP", "SP")]:
    for _n, _w in (("E" + _b, 32), (_b, 16), (_b + "L", 8)):
        PARENT[_n] = _a
        WIDTH[_n] = _w
for _i in range(8, 16):
    for _s, _w in (("D", 32), ("W", 16), ("B", 8)):
        PARENT["R%d%s" % (_i, _s)] = "R%d" % _i
        WIDTH["R%d%s" % (_i, _s)] = _w
VEC_RE = re.compile(r"^([XYZ])MM(\d+)$")
K_RE = re.compile(r"^K(\d)$")
CALLEE_SAVED = ["RBX", "RBP", "R12", "R13", "R14", "R15"]
ARG_REGS = ["RDI", "RSI", "RDX", "RCX", "R8", "R9"]
CALLER_SAVED = ["RAX", "RCX", "RDX", "RSI", "RDI", "R8", "R9", "R10", "R11"]
NORETURN = {"__stack_chk_fail", "__assert_fail", "abort", "exit", "_exit"}
MEMSIZE = (("zmmword ptr", 64), ("ymmword ptr", 32), ("xmmword ptr", 16), ("tbyte ptr", 10), ("qword ptr", 8), ("dword ptr", 4), ("word ptr", 2), ("byte ptr", 1))


def vec_of(reg):
    m = VEC_RE.match(reg)
    if m:
        return int(m.group(2)), {"X": 16, "Y": 32, "Z": 64}[m.group(1)]
    return None


PCREL_T = ("R_X86_64_PC32", "R_X86_64_PLT32", "R_X86_64_GOTPCREL", "R_X86_64_GOTPCRELX", "R_X86_64_REX_GOTPCRELX")


class Ins(object):
    __slots__ = ("sec", "addr", "size", "op", "text", "ndefs", "fl", "ops", "idefs", "iuses", "rel", "mem", "_msz")

    @property
    def next(self):
        return self.addr + self.size

    def reg(self, k):
        o = self.ops[k]
        return o[1] if o[0] == "r" and o[1] else None

    def imm(self, k):
        o = self.ops[k]
        return o[1] if o[0] == "i" else None

    def memop(self):
        """(base, scale, index, disp, seg) or None"""
        if self.mem < 0 or self.mem + 5 > len(self.ops):
            return None
        m = self.mem
        return (self.reg(m), self.imm(m + 1), self.reg(m + 2), self.imm(m + 3), self.reg(m + 4))

    def string_op(self):
        """For string instructions (movs/stos/lods/cmps/scas): (store_reg or None, load_reg or None)."""
        if self.mem < 0 or self.mem + 5 <= len(self.ops):
            return None
        op = self.op
        if op.startswith("STOS"):
            return ("RDI", None)
        if op.startswith("MOVS"):
            return ("RDI", "RSI")
        if op.startswith("LODS"):
            return (None, "RSI")
        if op.startswith(("CMPS", "SCAS")):
            return (None, "RSI")
        return ("RDI", "RSI")

    def memsize(self):
        t = self.text
        for k, sz in MEMSIZE:
            if k in t:
                return sz
        return None

    def explicit_defs(self):
        return [self.ops[k][1] for k in range(min(self.ndefs, len(self.ops))) if self.ops[k][0] == "r" and self.ops[k][1]]

    def explicit_uses(self):
        out = []
        for k in range(self.ndefs, len(self.ops)):
            o = self.ops[k]
            if o[0] == "r" and o[1]:
                out.append(o[1])
        return out

    def reg_uses_nomem(self):
        """Explicit register uses that are not part of the memory operand."""
        out = []
        for k in range(self.ndefs, len(self.ops)):
            if self.mem >= 0 and self.mem <= k < self.mem + 5:
                continue
            o = self.ops[k]
            if o[0] == "r" and o[1]:
                out.append(o[1])
        return out

    def writes_mem_operand(self):
        """The explicit memory operand is written (as opposed to implicit stack pushes)."""
        return "S" in self.fl and self.mem >= 0 and not self.op.startswith(("PUSH", "CALL", "PREFETCH", "CLFLUSH", "CLWB", "CLDEMOTE"))

    def reads_mem_operand(self):
        return "L" in self.fl and self.mem >= 0 and not self.op.startswith(("POP", "RET", "PREFETCH", "CLFLUSH", "LEA"))

    def is_ret(self):
        return "R" in self.fl and self.op.startswith("RET")

    def is_call(self):
        return "C" in self.fl

    def is_branch(self):
        return "B" in self.fl

    def is_indirect(self):
        return "I" in self.fl

    def is_cond(self):
        return "J" in self.fl

    def branch_target(self):
        """Absolute target within the section for direct branches/calls without relocation, else None."""
        if self.rel:
            return None
        if self.ops and self.ops[0][0] == "i" and (self.is_branch() or self.is_call()) and not self.is_indirect():
            return self.next + self.ops[0][1]
        return None

    def rel_target(self, obj, k=0):
        """(secidx, addr, name) of relocation k of this instruction, resolved within obj."""
        (off, sym, add_, rtype, ssec) = self.rel[k]
        return obj.reloc_target(sym, add_, rtype, ssec, self.size, off)

    def __repr__(self):
        return "<%#x %s>" % (self.addr, self.text.strip())


class Sym(object):
    __slots__ = ("name", "addr", "type", "sec", "bind", "size", "vis", "kind")


class Obj(object):
    """One lifted object.  The index (sections, symbols, relocations, code references) is parsed eagerly,
    the instructions and line table lazily (load_ins)."""

    def __init__(self, path, unit=None):
        self.path = path
        self.unit = unit
        self.name = os.path.basename(path).replace(".lift", ".o")
        self.src = unit["src"] if unit else None
        self.kind = unit["kind"] if unit else None
        self.sections = {}
        self.symbols = []
        self.relocs = []         # (sec, off, sym, addend, type, symsec)
        self.erefs = []          # (sec, insaddr, size, kind, off, sym, addend, rtype, symsec, opcode)
        self.local_calls = []    # (sec, insaddr, target)
        self.contents = {}       # secidx -> bytes (allocated non-text, non-bss sections)
        self._ins = None
        self.order = {}
        self.bad = set()
        self.lines = {}
        self._ins_off = None
        self._parse_index()

    def _parse_index(self):
        with open(self.path, "rb") as fh:
            pos = 0
            for raw in fh:
                if raw.startswith(b"#INS"):
                    self._ins_off = pos + len(raw)
                    break
                pos += len(raw)
                f = raw.decode("utf-8", "replace").rstrip("\n").split("\t")
                t = f[0]
                if t == "S":
                    s = Sym()
                    s.name = f[1]
                    s.addr = int(f[2])
                    s.type = f[3]
                    s.sec = int(f[4])
                    s.bind = f[5]
                    s.size = int(f[6])
                    s.vis = f[7]
                    s.kind = f[8]
                    self.symbols.append(s)
                elif t == "X":
                    self.sections[int(f[1])] = {"name": f[2], "size": int(f[3]), "flags": f[4], "align": int(f[5])}
                elif t == "R":
                    self.relocs.append((int(f[1]), int(f[2]), f[3], int(f[4]), f[5], int(f[6])))
                elif t == "E":
                    symadd, rtype, ssec = f[6].rsplit(":", 2)
                    sym, add = symadd.rsplit("+", 1)
                    self.erefs.append((int(f[1]), int(f[2]), int(f[3]), f[4], int(f[5]), sym, int(add), rtype, int(ssec), f[7]))
                elif t == "T":
                    self.local_calls.append((int(f[1]), int(f[2]), int(f[3])))
                elif t == "C":
                    self.contents[int(f[1])] = bytes.fromhex(f[2])
        self.text_secs = [k for k, v in self.sections.items() if "T" in v["flags"]]
        self.symtab = {}
        for s in self.symbols:
            if s.kind == "DEF":
                self.symtab.setdefault((s.sec, s.addr), []).append(s)

    @property
    def ins(self):
        if self._ins is None:
            self.load_ins()
        return self._ins

    def load_ins(self):
        ins = {}
        lines_tmp = {}
        with open(self.path, "r", errors="replace") as fh:
            if self._ins_off is not None:
                fh.seek(self._ins_off)
            for l in fh:
                f = l.rstrip("\n").split("\t")
                t = f[0]
                if t == "I":
                    i = Ins()
                    i.sec = int(f[1])
                    i.addr = int(f[2])
                    i.size = int(f[3])
                    i.op = f[4]
                    i.text = f[5]
                    i.ndefs = int(f[6])
                    i.fl = f[7]
                    ops = []
                    for o in f[8].split(","):
                        if not o:
                            continue
                        a, ot, tied = o.rsplit("/", 2)
                        if a.startswith("r:"):
                            ops.append(("r", a[2:], int(ot), int(tied)))
                        elif a.startswith("i:"):
                            ops.append(("i", int(a[2:]), int(ot), int(tied)))
                        else:
                            ops.append(("?", None, int(ot), int(tied)))
                    i.ops = ops
                    i.idefs = [x for x in f[9].split(",") if x]
                    i.iuses = [x for x in f[10].split(",") if x]
                    rel = []
                    if f[11]:
                        for r in f[11].split(";"):
                            if not r:
                                continue
                            off, rest = r.split("@", 1)
                            symadd, rtype, ssec = rest.rsplit(":", 2)
                            sym, add = symadd.rsplit("+", 1)
                            rel.append((int(off), sym, int(add), rtype, int(ssec)))
                    i.rel = rel
                    i.mem = int(f[12])
                    if i.mem < 0 and i.op.startswith("LEA") and len(ops) >= 6:
                        i.mem = 1
                    ins[(i.sec, i.addr)] = i
                elif t == "B":
                    self.bad.add((int(f[1]), int(f[2])))
                elif t == "L":
                    lines_tmp.setdefault(int(f[1]), []).append((int(f[2]), f[3], int(f[4])))
        self._ins = ins
        for k in ins:
            self.order.setdefault(k[0], []).append(k[1])
        for s in self.order:
            self.order[s].sort()
        for s, rows in lines_tmp.items():
            rows.sort()
            self.lines[s] = ([r[0] for r in rows], [(r[1], r[2]) for r in rows])

    def reloc_target(self, sym, addend, rtype, ssec, isz=0, off=0):
        """Resolve a relocation to (secidx or -1, address, symbol name).  nasm emits references to local
        symbols against the section symbol + addend; this maps them back to the named symbol at that address."""
        a = addend + (isz - off) if rtype in PCREL_T else addend
        if ssec >= 0:
            base = 0
            if not (sym == self.sections[ssec]["name"] or sym.startswith("sec:")):
                for sm in self.symbols:
                    if sm.name == sym and sm.sec == ssec and sm.kind == "DEF":
                        base = sm.addr
                        break
            addr = base + a
            nm = None
            for sm in self.symtab.get((ssec, addr), []):
                if sm.type != "O":
                    nm = sm.name
                    if sm.bind == "G":
                        break
            return (ssec, addr, nm)
        return (-1, a, sym)

    def resolve_symaddr(self, name, c, lib=None):
        """Resolve an abstract ('addr', name, c) to (obj, secidx, offset, symbol-name-at-that-address, section dict)
        or None for externals.  `name` may be a section name (nasm's section-relative relocations)."""
        for k, sx in self.sections.items():
            if sx["name"] == name and "A" in sx["flags"]:
                return (self, k, c, self._name_at(k, c), sx)
        for sm in self.symbols:
            if sm.name == name and sm.kind == "DEF":
                return (self, sm.sec, sm.addr + c, self._name_at(sm.sec, sm.addr + c) or name, self.sections.get(sm.sec))
            if sm.name == name and sm.kind == "COM":
                return (self, -2, c, name, {"name": "COMMON", "flags": "AW", "align": 0, "size": 0})
        if lib is not None and name in lib.globals:
            go, gs = lib.globals[name]
            return (go, gs.sec, gs.addr + c, name, go.sections.get(gs.sec))
        return None

    def initial_bytes(self, sec, addr, n):
        """Initial contents of n bytes at (sec, addr): bytes for initialised data, zeros for .bss, None if unknown."""
        sx = self.sections.get(sec)
        if sx is None:
            return None
        if "B" in sx["flags"]:
            return bytes(n)
        c = self.contents.get(sec)
        if c is None or addr + n > len(c):
            return None
        return c[addr:addr + n]

    def _name_at(self, sec, addr):
        """Named data symbol covering (sec, addr): exact match first, else the nearest preceding symbol."""
        best = None
        for sm in self.symbols:
            if sm.kind == "DEF" and sm.sec == sec and sm.type != "O" and sm.addr <= addr:
                if best is None or sm.addr > best.addr or (sm.addr == best.addr and sm.bind == "G"):
                    best = sm
        if best is None:
            return None
        return best.name if best.addr == addr else "%s+%#x" % (best.name, addr - best.addr)

    def line_of(self, sec, addr):
        self.ins
        t = self.lines.get(sec)
        if not t:
            return None
        k = bisect.bisect_right(t[0], addr) - 1
        if k < 0:
            return None
        return "%s:%d" % t[1][k]

    def sym_at(self, sec, addr, prefer_global=True):
        ss = self.symtab.get((sec, addr))
        if not ss:
            return None
        for s in ss:
            if s.bind == "G":
                return s.name
        return ss[0].name


class Func(object):
    """A function: entry (obj, sec, addr), its instructions, basic blocks and exits."""

    def __init__(self, obj, sec, entry, name):
        self.obj = obj
        self.sec = sec
        self.entry = entry
        self.name = name
        self.blocks = {}      # leader addr -> [Ins]
        self.succ = {}        # leader addr -> [leader addr]
        self.insns = 0
        self.problems = []    # analysis-breaking facts (undecodable reachable byte, unexpected indirect branch)
        self.tailcalls = []   # (ins, target description)
        self.calls = []       # (ins, target description)

    def key(self):
        return (self.obj.name, self.sec, self.entry)

    def __repr__(self):
        return "<Func %s %s>" % (self.obj.name, self.name)


PCREL = ("R_X86_64_PC32", "R_X86_64_PLT32", "R_X86_64_GOTPCREL", "R_X86_64_GOTPCRELX", "R_X86_64_REX_GOTPCRELX")
GOTREL = ("R_X86_64_GOTPCREL", "R_X86_64_GOTPCRELX", "R_X86_64_REX_GOTPCRELX")


class Library(object):
    def __init__(self, units):
        self.objs = []
        for u in units:
            if u.get("lift"):
                self.objs.append(Obj(u["lift"], u))
        self.by_name = {o.name: o for o in self.objs}
        self.globals = {}     # name -> (obj, Sym)
        for o in self.objs:
            for s in o.symbols:
                if s.kind == "DEF" and s.bind in ("G", "W"):
                    self.globals.setdefault(s.name, (o, s))
        self._find_entries()
        self.funcs = {}
        self._by_name = {}
        self.entry_list = sorted(((o.name, sec, addr), name) for (o, sec, addr), name in self.entries.items())
        for k, name in self.entry_list:
            self._by_name.setdefault(name, k)

    def func(self, key):
        """Func for key (objname, sec, addr); builds its CFG on first use (loads that object's instructions)."""
        f = self.funcs.get(key)
        if f is None:
            name = self.entries_by_key.get(key)
            if name is None:
                return None
            o = self.by_name[key[0]]
            f = self._build_func(o, key[1], key[2], name)
            self.funcs[key] = f
        return f

    def all_funcs(self, objs=None):
        for k, name in self.entry_list:
            if objs is None or k[0] in objs:
                yield self.func(k)

    # ---- entry discovery (DESIGN 2.2)
    def _find_entries(self):
        ent = {}
        self.code_refs = {}     # (objname, sec, addr) -> list of (from_obj, kind)

        def add(o, sec, addr, name=None, ref=None):
            if sec not in o.text_secs:
                return
            k = (o, sec, addr)
            if k not in ent:
                ent[k] = name or o.sym_at(sec, addr) or ("%s@%#x" % (o.name, addr))
            if ref:
                self.code_refs.setdefault((o.name, sec, addr), []).append(ref)
        for o in self.objs:
            for s in o.symbols:
                if s.kind == "DEF" and s.type == "F" and s.sec in o.text_secs:
                    add(o, s.sec, s.addr, s.name)
        for o in self.objs:
            for (sec, iaddr, isz, kind, off, sym, add_, rtype, ssec, opc) in o.erefs:
                if kind not in ("call", "jmp", "lea"):
                    # GOT loads of function addresses from C objects: mov reg, [rip+sym@GOTPCREL]
                    if not (rtype in GOTREL):
                        continue
                tgt_add = add_ + (isz - off) if rtype in PCREL else add_
                if rtype in GOTREL:
                    tgt_add = 0
                if ssec >= 0 and ssec in o.text_secs:
                    base = self._sym_addr(o, sym, ssec)
                    if base is not None:
                        add(o, ssec, base + tgt_add, None, (o.name, kind))
                elif sym in self.globals:
                    go, gs = self.globals[sym]
                    if gs.sec in go.text_secs:
                        add(go, gs.sec, gs.addr + tgt_add, gs.name if tgt_add == 0 else None, (o.name, kind))
            for (sec, iaddr, tgt) in o.local_calls:
                add(o, sec, tgt, None, (o.name, "call"))
            # data relocations pointing at code (dispatch slot initial values, function pointer tables)
            for (rsec, off, sym, add_, rtype, ssec) in o.relocs:
                sx = o.sections.get(rsec, {})
                if rsec in o.text_secs or "A" not in sx.get("flags", ""):
                    continue
                if ssec >= 0 and ssec in o.text_secs:
                    base = self._sym_addr(o, sym, ssec)
                    if base is not None:
                        add(o, ssec, base + add_, None, (o.name, "data"))
                elif sym in self.globals:
                    go, gs = self.globals[sym]
                    if gs.sec in go.text_secs:
                        add(go, gs.sec, gs.addr + add_, gs.name, (o.name, "data"))
        self.entries = ent
        self.entries_by_key = {(o.name, sec, addr): name for (o, sec, addr), name in ent.items()}
        self.entry_addrs = {}
        for (o, sec, addr) in ent:
            self.entry_addrs.setdefault((o.name, sec), set()).add(addr)

    def _sym_addr(self, o, sym, ssec):
        """Address of symbol `sym` (a name, or a section name for section symbols) within section ssec."""
        if sym == o.sections[ssec]["name"] or sym.startswith("sec:"):
            return 0
        for s in o.symbols:
            if s.name == sym and s.sec == ssec and s.kind == "DEF":
                return s.addr
        return None

    # ---- resolution helpers
    def resolve_reloc_target(self, o, i):
        """For a call/jmp with a relocation: ('func', Func) | ('ext', name) | None."""
        for (off, sym, add_, rtype, ssec) in i.rel:
            tgt_add = add_ + (i.size - off)
            if ssec >= 0 and ssec in o.text_secs:
                base = self._sym_addr(o, sym, ssec)
                if base is not None:
                    k = (o.name, ssec, base + tgt_add)
                    if k in self.entries_by_key:
                        return ("func", k)
            if sym in self.globals:
                go, gs = self.globals[sym]
                k = (go.name, gs.sec, gs.addr + tgt_add)
                if k in self.entries_by_key:
                    return ("func", k)
                return ("ext", sym)
            return ("ext", sym)
        return None

    def func_named(self, name):
        k = self._by_name.get(name)
        return self.func(k) if k else None

    # ---- CFG recovery by recursive traversal
    def _build_func(self, o, sec, entry, name):
        f = Func(o, sec, entry, name)
        ents = self.entry_addrs.get((o.name, sec), set())
        leaders = {entry}
        seen = set()
        work = [entry]
        edges = {}
        while work:
            a = work.pop()
            while True:
                if a in seen:
                    break
                i = o.ins.get((sec, a))
                if i is None:
                    f.problems.append("reachable address %#x is not a decoded instruction" % a)
                    break
                seen.add(a)
                nxt = i.next
                if i.is_ret():
                    break
                if i.op in ("UD2", "HLT", "INT3", "TRAP"):
                    break
                if i.is_branch():
                    if i.is_indirect():
                        break
                    t = i.branch_target()
                    if "U" in i.fl or i.op.startswith("JMP"):
                        if t is not None and t not in ents:
                            leaders.add(t)
                            edges.setdefault(a, []).append(t)
                            work.append(t)
                        elif t is not None and t == entry:
                            leaders.add(t)
                            edges.setdefault(a, []).append(t)
                        break
                    # conditional
                    if t is not None and (t not in ents or t == entry):
                        leaders.add(t)
                        edges.setdefault(a, []).append(t)
                        work.append(t)
                    elif t is not None:
                        f.problems.append("conditional branch at %#x into another function's entry %#x" % (a, t))
                    leaders.add(nxt)
                    edges.setdefault(a, []).append(nxt)
                    a = nxt
                    continue
                if i.is_call():
                    tgt = None
                    if i.rel:
                        r = i.rel[0]
                        if r[1] in NORETURN:
                            break
                    a = nxt
                    if a in ents and a != entry:
                        # call as last instruction before another function (noreturn callee)
                        break
                    continue
                if nxt in ents and nxt != entry:
                    # falls through into another function: treated as a tail call
                    edges.setdefault(a, []).append(("fall", nxt))
                    break
                a = nxt
        # split into blocks
        addrs = sorted(seen)
        f.insns = len(addrs)
        aset = seen
        # any branch target is a leader; also instruction after a branch
        cur = None
        for a in addrs:
            i = o.ins[(sec, a)]
            if a in leaders or cur is None or prev_end != a or prev_term:
                cur = a
                f.blocks[cur] = []
                leaders.add(a)
            f.blocks[cur].append(i)
            prev_end = i.next
            prev_term = i.is_ret() or i.is_branch() or i.op in ("UD2", "HLT")
        for b, ins in f.blocks.items():
            last = ins[-1]
            s = []
            if last.addr in edges:
                s = [x for x in edges[last.addr] if not isinstance(x, tuple)]
            elif not (last.is_ret() or last.is_branch() or last.op in ("UD2", "HLT")):
                n = last.next
                if n in aset and not (n in ents and n != entry):
                    s = [n]
            f.succ[b] = s
        f.fallthrough = {a: x[1] for a, xs in edges.items() for x in xs if isinstance(x, tuple)}
        return f


