"""Findings, known-findings filter, evidence writer and exit-code contract shared by all checks.

exit 0  rule held on everything analysed (KNOWN-FINDING lines allowed)
exit 1  VIOLATION property=<id> replay=<path>   for a finding not listed in known_findings.json
exit 2  analysis broken (anchor vanished, instance floor not met, unmodelled construct)
"""
import json
import os
import sys
import time

VERIF = os.path.dirname(os.path.dirname(os.path.abspath(__file__)))
KNOWN = os.path.join(VERIF, "known_findings.json")
EVID = os.environ.get("VERIF_EVIDENCE_DIR") or os.path.join(VERIF, "evidence")


class Finding:
    def __init__(self, rule, obj, function, construct, message, loc=None, detail=None):
        self.rule = rule
        self.obj = obj
        self.function = function
        self.construct = construct
        self.message = message
        self.loc = loc
        self.detail = detail or {}

    def ident(self):
        return (self.rule, self.obj, self.function, self.construct)

    def to_json(self):
        return {"rule": self.rule, "object": self.obj, "function": self.function, "construct": self.construct,
                "message": self.message, "loc": self.loc, "detail": self.detail}

    def line(self):
        return "%s %s %s::%s [%s] %s%s" % (self.rule, self.loc or "", self.obj, self.function, self.construct, self.message, "")


class Check:
    def __init__(self, prop, level="other", rule_text="", tier=None):
        self.prop = prop
        self.level = level
        self.tier = tier or os.environ.get("VERIF_TIER", "quick")
        if self.tier not in ("quick", "thorough"):
            self.tier = "quick"
        try:
            self.seed = int(os.environ.get("VERIF_SEED", "0"))
        except ValueError:
            self.seed = 0
        self.t0 = time.time()
        self.findings = []
        self.broken = []
        self.obligations = {}     # rule -> [n_obligations, n_discharged]
        self.samples = []
        self.distinct = set()
        self.assumptions = []
        self.trusted = []
        self.extra = {}
        self.rule_text = rule_text
        self.notes = []

    # ---- recording
    def obligation(self, rule, ok, key=None, sample=None):
        o = self.obligations.setdefault(rule, [0, 0])
        o[0] += 1
        if ok:
            o[1] += 1
        if key is not None:
            self.distinct.add((rule,) + (tuple(key) if isinstance(key, (list, tuple)) else (key,)))
        if sample is not None and sum(1 for s in self.samples if s.get("rule") == rule) < 3:
            s = {"rule": rule}
            s.update(sample if isinstance(sample, dict) else {"case": sample})
            self.samples.append(s)

    def finding(self, f):
        self.findings.append(f)

    def broke(self, msg):
        self.broken.append(msg)

    def floor(self, what, measured, floor):
        self.extra.setdefault("floors", {})[what] = {"measured": measured, "floor": floor}
        if measured < floor:
            self.broke("instance floor not met: %s = %d < %d" % (what, measured, floor))

    # ---- finishing
    def finish(self, explanation=""):
        known = {"known": [], "fixed": []}
        if os.path.exists(KNOWN):
            with open(KNOWN) as fh:
                known = json.load(fh)
        kmap = {}
        for k in known.get("known", []):
            if k.get("property") == self.prop:
                kmap[(k["rule"], k["object"], k["function"], k["construct"])] = k
        new, old = [], []
        seen = set()
        for f in self.findings:
            if f.ident() in seen:
                continue
            seen.add(f.ident())
            (old if f.ident() in kmap else new).append(f)
        os.makedirs(os.path.join(EVID, "replay"), exist_ok=True)
        for old_f in os.listdir(os.path.join(EVID, "replay")):
            if old_f.startswith(self.prop + "-"):
                os.remove(os.path.join(EVID, "replay", old_f))
        for f in old:
            print("KNOWN-FINDING: property=%s %s" % (self.prop, f.line()))
        vio_paths = []
        for n, f in enumerate(new):
            p = os.path.join(EVID, "replay", "%s-%03d.json" % (self.prop, n))
            with open(p, "w") as fh:
                json.dump({"property": self.prop, "finding": f.to_json()}, fh, indent=1)
            vio_paths.append(p)
            print("VIOLATION property=%s replay=%s" % (self.prop, p))
            print("  " + f.line())
        for b in self.broken:
            print("ANALYSIS-BROKEN property=%s %s" % (self.prop, b))
        n_obl = sum(v[0] for v in self.obligations.values())
        n_dis = sum(v[1] for v in self.obligations.values())
        cov = {
            "obligations": n_obl,
            "discharged": n_dis,
            "evaluations": max(n_obl, 1),
            "distinct_nontrivial": len(self.distinct),
            "rule": self.rule_text,
            "explanation": explanation or self.rule_text,
            "samples": self.samples[:40] or [{"note": "no obligation instances"}],
            "checker_cmd": "./check %s" % self.prop,
            "trusted_base": self.trusted,
            "per_rule": {k: {"obligations": v[0], "discharged": v[1]} for k, v in sorted(self.obligations.items())},
            "exhaustive": not self.broken,
            "known_findings_matched": [f.to_json() for f in old],
            "new_findings": [f.to_json() for f in new],
            "analysis_broken": self.broken,
            "notes": self.notes,
        }
        cov.update(self.extra)
        ev = {"property_id": self.prop, "tier": self.tier, "seed": self.seed, "level": self.level, "coverage": cov,
              "assumptions": self.assumptions, "wall_s": round(time.time() - self.t0, 2), "violations": len(new)}
        with open(os.path.join(EVID, "%s.json" % self.prop), "w") as fh:
            json.dump(ev, fh, indent=1, sort_keys=True)
        print("%s: %d obligations, %d discharged, %d known finding(s), %d new violation(s), %d analysis error(s), %.1fs" % (
            self.prop, n_obl, n_dis, len(old), len(new), len(self.broken), time.time() - self.t0))
        if new:
            return 1
        if self.broken:
            return 2
        return 0
