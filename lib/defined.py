"""Phase-2 definedness dataflow (C20) over a function whose stack geometry has been resolved by lib/absint.py.

State: per GPR a byte mask (8 bits), per vector register a byte mask (64 bits), per opmask register a bool, two
flag groups (CF, ARITH), and byte masks for fixed slots of frames the function created.  Join = AND.

Undefined values propagate memcheck-style and are reported only at sinks: an address computation, a store to
non-stack memory, a flag-consuming instruction on undefined flags, an argument of a call, the return value.
"""
import absint
import x86

FULL8 = 0xFF
FULL64 = (1 << 64) - 1


def vmask(nbytes):
    return (1 << nbytes) - 1


MOVE_OPS = ("MOVDQA", "MOVDQU", "MOVAPS", "MOVUPS", "MOVAPD", "MOVUPD", "VMOVDQA", "VMOVDQU", "VMOVAPS", "VMOVUPS", "VMOVAPD", "VMOVUPD", "LDDQU", "VLDDQU", "MOVNTDQ", "VMOVNTDQ", "MOVNTPS", "VMOVNTPS")
LANEWISE = ("PXOR", "POR", "PAND", "PANDN", "XORPS", "XORPD", "ORPS", "ORPD", "ANDPS", "ANDPD", "ANDNPS", "ANDNPD",
            "VPXOR", "VPOR", "VPAND", "VPANDN", "VXORPS", "VXORPD", "VORPS", "VORPD", "VANDPS", "VANDPD", "VANDNPS", "VANDNPD",
            "PADD", "PSUB", "VPADD", "VPSUB", "PMINU", "PMINS", "PMAXU", "PMAXS", "VPMINU", "VPMINS", "VPMAXU", "VPMAXS", "PCMPEQ", "PCMPGT", "VPCMPEQ", "VPCMPGT",
            "PAVG", "VPAVG", "PABS", "VPABS", "VPTERNLOG", "PSLLW", "PSLLD", "PSLLQ", "PSRLW", "PSRLD", "PSRLQ", "PSRAW", "PSRAD", "VPSLLW", "VPSLLD", "VPSLLQ", "VPSRLW", "VPSRLD", "VPSRLQ",
            "VPSRAW", "VPSRAD", "VPSRAQ", "VPROLD", "VPROLQ", "VPRORD", "VPRORQ", "VPSLLV", "VPSRLV", "PMULLD", "VPMULLD", "PMULLW", "VPMULLW", "PMULUDQ", "VPMULUDQ", "PSHUFB", "VPSHUFB",
            "AESENC", "AESDEC", "VAESENC", "VAESDEC", "PCLMULQDQ", "VPCLMULQDQ", "SHA1", "SHA256")
LANE = {"B": 1, "W": 2, "D": 4, "Q": 8}
ZERO_IDIOM = ("PXOR", "XORPS", "XORPD", "VPXOR", "VXORPS", "VXORPD", "PSUBB", "PSUBW", "PSUBD", "PSUBQ", "VPSUBB", "VPSUBW", "VPSUBD", "VPSUBQ", "PCMPEQ", "VPCMPEQ", "PCMPGT", "VPCMPGT", "PANDN", "VPANDN")
FLAG_USERS_PREFIX = ("JCC", "CMOV", "SETCC", "ADC", "SBB", "PUSHF", "LAHF", "RCL", "RCR", "ADCX", "ADOX", "CMC")


class DefResult(object):
    def __init__(self):
        self.reports = []      # (ins, kind, what)
        self.ins = 0
        self.exits = 0
        self.exit_state = None
        self.broken = []
        self.unknown_slot_loads = 0
        self.sinks_checked = 0


class DefInterp(object):
    def __init__(self, lib, func, p1, entry_state, call_handler, ret_defined=False):
        self.lib = lib
        self.f = func
        self.p1 = p1
        self.entry = entry_state
        self.call_handler = call_handler
        self.res = DefResult()
        self.ret_defined = ret_defined
        self.kver = 0

    @staticmethod
    def sysv_entry(nargs):
        g = {r: 0 for r in x86.G64}
        for r in x86.ARG_REGS[:max(0, min(6, nargs))]:
            g[r] = FULL8
        for r in x86.CALLEE_SAVED + ["RSP"]:
            g[r] = FULL8
        return (g, {}, {}, {"CF": False, "AR": False}, {})

    # state = (gpr, vec, kreg, flags, slots)
    @staticmethod
    def copy(st):
        return (dict(st[0]), dict(st[1]), dict(st[2]), dict(st[3]), dict(st[4]))

    @staticmethod
    def join(a, b):
        ch = False
        g = {}
        for r in x86.G64:
            v = a[0][r] & b[0][r]
            if v != a[0][r]:
                ch = True
            g[r] = v
        vv = {}
        for i in set(a[1]) | set(b[1]):
            x, y = a[1].get(i, 0), b[1].get(i, 0)
            x = x if not isinstance(x, tuple) else x
            m = DefInterp.vjoin(x, y)
            if m != a[1].get(i, 0):
                ch = True
            vv[i] = m
        kk = {}
        for i in set(a[2]) | set(b[2]):
            m = a[2].get(i, False) and b[2].get(i, False)
            if m != a[2].get(i, False):
                ch = True
            kk[i] = m
        fl = {}
        for k in ("CF", "AR"):
            m = a[3][k] and b[3][k]
            if m != a[3][k]:
                ch = True
            fl[k] = m
        sl = {}
        for k in b[4]:
            if k[-1] == "*" and k not in a[4]:
                sl[k] = (0, 0)
                ch = True
        for k, (sz, m) in a[4].items():
            if k[-1] == "*":
                sl[k] = (0, 0)
                continue
            o = b[4].get(k)
            if o is None or o[0] != sz:
                ch = True
                continue
            mm = m & o[1]
            if mm != m:
                ch = True
            sl[k] = (sz, mm)
        return (g, vv, kk, fl, sl), ch

    @staticmethod
    def vjoin(x, y):
        # masks may carry a tag: (mask, (kreg, version)) = "bytes outside the mask register are undefined"
        tx = x[1] if isinstance(x, tuple) else None
        ty = y[1] if isinstance(y, tuple) else None
        mx = x[0] if isinstance(x, tuple) else x
        my = y[0] if isinstance(y, tuple) else y
        m = mx & my
        if tx is not None and tx == ty:
            return (m, tx)
        return m

    # ---- helpers
    def report(self, i, kind, what, final):
        if final:
            self.res.reports.append((i, kind, what))

    def gread(self, gpr, r):
        p = x86.PARENT[r]
        w = x86.WIDTH[r]
        need = {64: 0xFF, 32: 0x0F, 16: 0x03, 8: 0x01}[w]
        if r.endswith("H") and w == 8 and r in ("AH", "BH", "CH", "DH"):
            need = 0x02
        return (gpr[p] & need) == need

    def gwrite(self, gpr, r, defined):
        p = x86.PARENT[r]
        w = x86.WIDTH[r]
        if w >= 32:
            gpr[p] = FULL8 if defined else 0
        else:
            bits_ = {16: 0x03, 8: 0x01}[w]
            if r in ("AH", "BH", "CH", "DH"):
                bits_ = 0x02
            gpr[p] = (gpr[p] | bits_) if defined else (gpr[p] & ~bits_)

    @staticmethod
    def vget(vec, reg):
        idx, n = x86.vec_of(reg)
        v = vec.get(idx, 0)
        tag = None
        if isinstance(v, tuple):
            v, tag = v
        return v & vmask(n), n, tag

    @staticmethod
    def vset(vec, reg, mask, vex, tag=None):
        idx, n = x86.vec_of(reg)
        old = vec.get(idx, 0)
        if isinstance(old, tuple):
            old = old[0]
        if vex:
            new = (mask & vmask(n)) | (FULL64 & ~vmask(n))       # upper bytes zeroed = defined
        else:
            new = (mask & vmask(n)) | (old & ~vmask(n))
        vec[idx] = (new, tag) if tag is not None else new

    def slot_load_mask(self, st, av, size):
        """Definedness mask of `size` bytes loaded from abstract address av (own frame: tracked; else defined)."""
        v, indexed, _sz = av
        if v[0] not in ("sp", "fr") or indexed or size is None:
            return vmask(size or 8)
        key = absint.Interp.slot_key(v)
        if key[0] == "sp" and key[-1] >= 0:
            return vmask(size)          # caller's frame: stack arguments / return address
        base, off = key[:-1], key[-1]
        if base + ("*",) in st[4]:
            return vmask(size)          # an indexed store into this frame may have written the slot
        m = 0
        for kk, (sz, mm) in st[4].items():
            if kk[:-1] != base or kk[-1] == "*":
                continue
            o = kk[-1]
            lo, hi = max(o, off), min(o + sz, off + size)
            if lo < hi:
                for b in range(lo, hi):
                    if mm >> (b - o) & 1:
                        m |= 1 << (b - off)
        return m

    def slot_store(self, st, av, size, mask):
        v, indexed, _sz = av
        if v[0] not in ("sp", "fr"):
            return False
        if indexed or size is None:
            key = absint.Interp.slot_key(v)
            st[4][key[:-1] + ("*",)] = (0, 0)      # from now on loads from this frame count as defined (R20.2 is about fixed slots)
            return True
        key = absint.Interp.slot_key(v)
        base, off = key[:-1], key[-1]
        for kk in list(st[4]):
            if kk[:-1] == base and kk[-1] != "*":
                o, (sz, mm) = kk[-1], st[4][kk]
                if off <= o and o + sz <= off + size:
                    del st[4][kk]
                elif o < off + size and off < o + sz:
                    # partial overlap: update overlapping bytes
                    for b in range(max(o, off), min(o + sz, off + size)):
                        if mask >> (b - off) & 1:
                            mm |= 1 << (b - o)
                        else:
                            mm &= ~(1 << (b - o))
                    st[4][kk] = (sz, mm)
        st[4][key] = (size, mask & vmask(size))
        return True

    # ---- fixpoint
    def run(self):
        f = self.f
        states = {f.entry: self.copy(self.entry)}
        work = [f.entry]
        inw = {f.entry}
        it = 0
        while work:
            b = work.pop()
            inw.discard(b)
            it += 1
            if it > 200000:
                self.res.broken.append("definedness fixpoint did not converge in %s" % f.name)
                break
            st = self.copy(states[b])
            self.block(b, st, False)
            for s in f.succ.get(b, []):
                if (b, s) in getattr(self.p1, "dead_edges", ()):
                    continue
                if s not in states:
                    states[s] = self.copy(st)
                    if s not in inw:
                        work.append(s)
                        inw.add(s)
                else:
                    j, ch = self.join(states[s], st)
                    if ch:
                        states[s] = j
                        if s not in inw:
                            work.append(s)
                            inw.add(s)
        for b in sorted(f.blocks):
            if b in states:
                self.block(b, self.copy(states[b]), True)
        return self.res

    def block(self, b, st, final):
        for i in self.f.blocks[b]:
            if final:
                self.res.ins += 1
            self.step(i, st, final)

    def at_exit(self, st, i, final):
        if not final:
            return
        self.res.exits += 1
        if self.ret_defined and not self.gread(st[0], "RAX"):
            self.report(i, "return-value", "rax", final)
        if self.res.exit_state is None:
            self.res.exit_state = self.copy(st)
        else:
            self.res.exit_state, _ = self.join(self.res.exit_state, st)

    def step(self, i, st, final):
        gpr, vec, kreg, flags, slots = st
        op = i.op
        p1 = self.p1
        if i.is_ret():
            self.at_exit(st, i, final)
            return
        if i.is_branch():
            if i.is_cond():
                if final:
                    self.res.sinks_checked += 1
                if not (flags["AR"] and flags["CF"]):
                    need = self.flags_needed(i)
                    if any(not flags[k] for k in need):
                        self.report(i, "flags", "conditional branch on undefined flags", final)
            elif i.is_indirect() or i.rel or (i.branch_target() in self.lib.entry_addrs.get((self.f.obj.name, self.f.sec), ()) and i.branch_target() != self.f.entry):
                self.at_exit(st, i, final)
            return
        if i.is_call():
            self.call_handler(self, i, st, final)
            return
        if op.startswith(("ENDBR", "NOOP", "PAUSE", "LFENCE", "MFENCE", "SFENCE", "PREFETCH")):
            return
        av = p1.maddr.get(i.addr)
        so = i.string_op() if i.mem >= 0 else None
        # ---- address sinks
        if i.mem >= 0 and so is None and not op.startswith("NOOP"):
            m = i.memop()
            if m:
                if final:
                    self.res.sinks_checked += 1
                for r in (m[0], m[2]):
                    if r and r in x86.PARENT and x86.PARENT[r] != "RSP" and not self.gread(gpr, r):
                        self.report(i, "address", r.lower(), final)
        # ---- flag consumers
        uses_flags = "EFLAGS" in i.iuses
        if uses_flags and op.startswith(FLAG_USERS_PREFIX):
            if final:
                self.res.sinks_checked += 1
            need = self.flags_needed(i)
            if any(not flags[k] for k in need):
                self.report(i, "flags", "`%s` consumes undefined flags" % i.text.strip(), final)
        # ---- push/pop
        if op == "PUSH64r":
            sp = self.sp_at(i)
            if sp is not None:
                self.slot_store(st, (absint.add_const(sp, -8), False, 8), 8, FULL8 if self.gread(gpr, i.reg(0)) else 0)
            return
        if op.startswith("PUSH"):
            sp = self.sp_at(i)
            if sp is not None:
                self.slot_store(st, (absint.add_const(sp, -8), False, 8), 8, FULL8)
            return
        if op == "POP64r":
            sp = self.sp_at(i)
            m = self.slot_load_mask(st, (sp, False, 8), 8) if sp is not None else FULL8
            gpr[x86.PARENT[i.reg(0)]] = FULL8 if m == FULL8 else 0
            return
        if op.startswith("POP"):
            return
        # ---- gather source definedness
        reads_mem = i.reads_mem_operand() and so is None
        writes_mem = i.writes_mem_operand() and so is None
        memmask = None
        msize = i.memsize()
        if reads_mem and av is not None:
            memmask = self.slot_load_mask(st, av, msize or 8)
            if av[0][0] in ("sp", "fr") and (av[1] or msize is None):
                self.res.unknown_slot_loads += 1
        srcs = []        # (reg, mask, nbytes, tied, tag)
        kmask = None
        for k in range(i.ndefs, len(i.ops)):
            if i.mem >= 0 and i.mem <= k < i.mem + 5 and so is None:
                continue
            o = i.ops[k]
            if o[0] != "r" or not o[1]:
                continue
            r = o[1]
            if x86.K_RE.match(r):
                if r != "K0":
                    kmask = r
                continue
            if x86.vec_of(r):
                m, n, tag = self.vget(vec, r)
                srcs.append((r, m, n, o[3] >= 0, tag))
            elif r in x86.PARENT and x86.PARENT[r] != "RSP":
                srcs.append((r, FULL8 if self.gread(gpr, r) else 0, 8, o[3] >= 0, None))
        for u in i.iuses:
            if u in x86.PARENT and x86.PARENT[u] != "RSP":
                srcs.append((u, FULL8 if self.gread(gpr, u) else 0, 8, False, None))
        defs = i.explicit_defs()
        vdefs = [d for d in defs if x86.vec_of(d)]
        gdefs = [d for d in defs + i.idefs if d in x86.PARENT and x86.PARENT[d] != "RSP"]
        kdefs = [d for d in defs if x86.K_RE.match(d)]
        vex = op.startswith("V")
        # ---- zero / ones idioms
        zero = False
        if op.startswith(ZERO_IDIOM) and i.mem < 0 and kmask is None:
            vs = [s[0] for s in srcs if x86.vec_of(s[0])]
            if len(vs) == 2 and x86.vec_of(vs[0])[0] == x86.vec_of(vs[1])[0]:
                zero = True
        if op in ("XOR64rr", "XOR32rr", "SUB64rr", "SUB32rr", "XOR16rr", "XOR8rr") and i.reg(1) == i.reg(2):
            zero = True
        if op.startswith("VPTERNLOG") and i.imm(len(i.ops) - 1) in (0xFF, 0, -1):
            zero = True
        all_src_def = all(m == vmask(n) for (r, m, n, t, tag) in srcs) and (memmask is None or memmask == vmask(msize or 8))
        # flags written
        if "EFLAGS" in i.idefs or "EFLAGS" in defs:
            d = zero or all_src_def
            flags["AR"] = d
            flags["CF"] = d if not op.startswith(("INC", "DEC")) else flags["CF"]
        # ---- vector destinations
        for d in vdefs:
            idx, n = x86.vec_of(d)
            if zero:
                self.vset(vec, d, vmask(n), vex)
                continue
            tag = None
            if kmask is not None and "{z}" not in i.text:
                # merge masking: bytes under the mask come from the operation, the others keep the old value
                if not kreg.get(kmask, False):
                    self.report(i, "mask", kmask.lower(), final)
                nontied = [x for x in srcs if not x[3]]
                newm = self.vector_result(i, d, n, nontied, memmask, msize)
                old = [m for (r, m, nn, t, tg) in srcs if t]
                cur = vec.get(idx, 0)
                oldm = (old[0] if old else (cur[0] if isinstance(cur, tuple) else cur)) & vmask(n)
                if oldm == vmask(n) and newm == vmask(n):
                    mask = vmask(n)
                elif newm == vmask(n):
                    mask = oldm
                    tag = (kmask, self.kver_of(kreg, kmask))
                else:
                    mask = oldm & newm
            elif kmask is not None:
                if not kreg.get(kmask, False):
                    self.report(i, "mask", kmask.lower(), final)
                mask = self.vector_result(i, d, n, [x for x in srcs if not x[3]], memmask, msize)
            else:
                mask = self.vector_result(i, d, n, srcs, memmask, msize)
                # a lane-wise operation keeps "undefined only outside mask k" confined to the same bytes
                tags = {tg for (r, m, nn, t, tg) in srcs if tg is not None}
                if len(tags) == 1 and mask != vmask(n) and (op.startswith(LANEWISE) or (op[1:] if vex else op).startswith(LANEWISE)):
                    if all(m == vmask(nn) for (r, m, nn, t, tg) in srcs if tg is None and x86.vec_of(r)) and (memmask is None or memmask == vmask(msize or 8)):
                        tg0 = next(iter(tags))
                        if tg0 == (tg0[0], self.kver_of(kreg, tg0[0])):
                            tag = tg0
            self.vset(vec, d, mask, vex, tag)
        # ---- opmask destinations
        for d in kdefs:
            kreg[d] = zero or all_src_def
            kreg[d + "#v"] = kreg.get(d + "#v", 0) + 1
        # ---- GPR destinations
        for d in gdefs:
            if i.op.startswith(("CPUID", "XGETBV", "RDTSC")):
                self.gwrite(gpr, d, True)
                continue
            if zero or not srcs and memmask is None:
                self.gwrite(gpr, d, True)
                continue
            # vector -> gpr moves: only the low bytes moved matter
            dm = all_src_def
            if op in ("MOVPDI2DIrr", "VMOVPDI2DIrr", "MOVPQIto64rr", "VMOVPQIto64rr", "VMOVPDI2DIZrr", "VMOVPQIto64Zrr", "MOVSS2DIrr", "VMOVSS2DIrr"):
                need = 4 if "DI2DI" in op or "SS2DI" in op else 8
                vs = [(m, n) for (r, m, n, t, tg) in srcs if x86.vec_of(r)]
                dm = bool(vs) and (vs[0][0] & vmask(need)) == vmask(need)
            elif op.startswith(("PEXTR", "VPEXTR")):
                vs = [(m, n) for (r, m, n, t, tg) in srcs if x86.vec_of(r)]
                imm = i.imm(len(i.ops) - 1) or 0
                w = {"B": 1, "W": 2, "D": 4, "Q": 8}.get(op.replace("VPEXTR", "").replace("PEXTR", "")[:1], 4)
                dm = bool(vs) and ((vs[0][0] >> (imm * w)) & vmask(w)) == vmask(w)
            elif op.startswith(("MOVMSK", "VMOVMSK", "PMOVMSK", "VPMOVMSK", "KMOV")):
                dm = all_src_def
            self.gwrite(gpr, d, dm)
        # ---- stores
        if so is not None:
            if so[0] and av is not None:
                pass
            return
        if writes_mem and av is not None:
            smask = None
            size = msize or 8
            # value stored = the (single) non-address register source, or an immediate
            vals = [(r, m, n, tg) for (r, m, n, t, tg) in srcs]
            if not vals:
                smask = vmask(size)
            else:
                r, m, n, tg = vals[-1]
                if x86.vec_of(r):
                    smask = m & vmask(size) if size <= n else m
                    if tg is not None and kmask is not None and tg == (kmask, self.kver_of(kreg, kmask)):
                        smask = vmask(size)       # masked store under the very mask that guarded the load
                    elif kmask is not None and "{z}" not in i.text and tg is None:
                        pass
                else:
                    smask = vmask(size) if m == FULL8 else 0
                if reads_mem and memmask is not None:
                    smask &= memmask
            if av[0][0] in ("sp", "fr"):
                self.slot_store(st, av, None if av[1] else size, smask)
            else:
                if final:
                    self.res.sinks_checked += 1
                if smask != vmask(size):
                    self.report(i, "store", "`%s` stores undefined bytes to memory" % i.text.strip(), final)

    def kver_of(self, kreg, k):
        return kreg.get(k + "#v", 0)

    def flags_needed(self, i):
        # condition codes that read only CF: B/AE (2,3); only ZF etc: E/NE/S/NS/P/NP/L/GE/LE/G/O/NO; both: BE/A
        cc = None
        for o in reversed(i.ops):
            if o[0] == "i":
                cc = o[1]
                break
        if i.op.startswith(("ADC", "SBB", "RCL", "RCR", "ADCX", "CMC")):
            return ("CF",)
        if cc in (2, 3):
            return ("CF",)
        if cc in (6, 7):
            return ("CF", "AR")
        return ("AR",)

    def sp_at(self, i):
        r = self.p1.reg_at.get(i.addr)
        if r is None:
            return None
        v = r["RSP"]
        return v if v[0] in ("sp", "fr") else None

    # ---- vector result masks
    def vector_result(self, i, d, n, srcs, memmask, msize):
        op = i.op
        vs = [(r, m, nn, t) for (r, m, nn, t, tg) in srcs if x86.vec_of(r)]
        gs = [(r, m) for (r, m, nn, t, tg) in srcs if not x86.vec_of(r)]
        full = vmask(n)
        base = op[1:] if op.startswith("V") else op
        imm = None
        if i.ops and i.ops[-1][0] == "i":
            imm = i.ops[-1][1] & 0xFF
        if memmask is not None and "{1to" in i.text:
            # embedded broadcast: one element replicated over the whole vector
            memmask = full if memmask == vmask(msize or 4) else 0
            msize = n
        allsrc = [m for (r, m, nn, t) in vs] + ([self.widen(memmask, msize, n)] if memmask is not None else [])
        # plain moves / loads / broadcasts
        if base.startswith(("MOVDQ", "MOVAP", "MOVUP", "LDDQU", "MOVNT")) or op.startswith(MOVE_OPS):
            src = allsrc[-1] if allsrc else full
            if memmask is not None and msize and msize < n and not vs:
                return (memmask & vmask(msize)) | (full & ~vmask(msize))
            return src & full
        if base.startswith(("MOVQI2PQI", "MOV64toPQI", "MOVDI2PDI", "MOVZPQILo2PQI", "MOVPQI2QI", "MOVSDrm", "MOVSSrm", "MOVQ")) or (base.startswith(("MOVD", "MOVSS", "MOVSD")) and not vs):
            # scalar load / gpr->xmm move: zero-extends into the rest of the register
            if gs:
                return full if gs[0][1] == FULL8 else full & ~vmask(8 if "64" in base or "Q" in base else 4)
            if memmask is not None:
                sz = msize or 8
                return (memmask & vmask(sz)) | (full & ~vmask(sz))
            if vs:
                return (vs[-1][1] & vmask(8)) | (full & ~vmask(8))
            return full
        if base.startswith(("PBROADCAST", "BROADCAST", "PBROADCASTD", "PBROADCASTQ")) or "BROADCAST" in base:
            if gs:
                return full if gs[0][1] == FULL8 else 0
            if memmask is not None:
                return full if memmask == vmask(msize or 4) else 0
            if vs:
                w = 1 if base.endswith(("Brr", "BZrr")) else 4
                return full if (vs[-1][1] & vmask(4)) == vmask(4) or (vs[-1][1] & vmask(8)) == vmask(8) else 0
            return full
        # byte shifts of the whole lane (zeros shifted in are defined)
        if base.startswith(("PSRLDQ", "PSLLDQ")) and imm is not None:
            src = allsrc[0] if allsrc else 0
            out = 0
            for lane in range(0, n, 16):
                lm = (src >> lane) & vmask(16)
                lm = ((lm >> imm) | (vmask(16) & ~(vmask(16) >> imm))) if "SRL" in base else (((lm << imm) & vmask(16)) | vmask(min(imm, 16)))
                out |= (lm & vmask(16)) << lane
            return out & full
        if base.startswith("PALIGNR") and imm is not None and len(allsrc) >= 2:
            a, b = allsrc[0], allsrc[1]       # result = (a:b) >> imm bytes, per 16-byte lane; LLVM order: src1 (high), src2 (low)
            out = 0
            for lane in range(0, n, 16):
                hi = (a >> lane) & vmask(16)
                lo = (b >> lane) & vmask(16)
                cat = (hi << 16) | lo
                catdef = cat | (~vmask(32) & ((1 << 48) - 1))     # bytes beyond 32 are zeros = defined
                out |= ((catdef >> imm) & vmask(16)) << lane
            return out & full
        if base.startswith("PSHUFD") and imm is not None and allsrc:
            src = allsrc[-1]
            out = 0
            for lane in range(0, n, 16):
                lm = (src >> lane) & vmask(16)
                for k in range(4):
                    sel = (imm >> (2 * k)) & 3
                    out |= ((lm >> (4 * sel)) & 0xF) << (lane + 4 * k)
            return out & full
        if base.startswith(("PINSR",)) and imm is not None:
            w = {"B": 1, "W": 2, "D": 4, "Q": 8}.get(base[5:6], 4)
            old = vs[0][1] if vs else 0
            newdef = (gs[0][1] == FULL8) if gs else (memmask == vmask(msize or w) if memmask is not None else True)
            pos = (imm % (16 // w)) * w
            out = old & ~(vmask(w) << pos)
            if newdef:
                out |= vmask(w) << pos
            return out & full
        if base.startswith(("PUNPCKL", "PUNPCKH", "UNPCKL", "UNPCKH")) and len(allsrc) >= 2:
            w = {"BW": 1, "WD": 2, "DQ": 4, "QDQ": 8}.get(base.replace("PUNPCKL", "").replace("PUNPCKH", "")[:3].rstrip("r").rstrip("m"), None)
            if base.startswith(("UNPCKLPS", "UNPCKHPS")):
                w = 4
            if base.startswith(("UNPCKLPD", "UNPCKHPD")):
                w = 8
            if w is None:
                for key, ww in (("QDQ", 8), ("BW", 1), ("WD", 2), ("DQ", 4)):
                    if key in base:
                        w = ww
                        break
            if w:
                a, b = allsrc[0], allsrc[1]
                out = 0
                high = "H" in base[5:8] or base.startswith("UNPCKH")
                for lane in range(0, n, 16):
                    la = (a >> lane) & vmask(16)
                    lb = (b >> lane) & vmask(16)
                    off = 8 if high else 0
                    pos = 0
                    for k in range(8 // w):
                        ea = (la >> (off + k * w)) & vmask(w)
                        eb = (lb >> (off + k * w)) & vmask(w)
                        out |= ea << (lane + pos)
                        out |= eb << (lane + pos + w)
                        pos += 2 * w
                return out & full
        if base.startswith(("MOVLHPS",)) and len(allsrc) >= 2:
            return ((allsrc[0] & vmask(8)) | ((allsrc[1] & vmask(8)) << 8)) & full
        if base.startswith(("MOVHLPS",)) and len(allsrc) >= 2:
            return (((allsrc[1] >> 8) & vmask(8)) | (allsrc[0] & (vmask(8) << 8))) & full
        if base.startswith(("EXTRACTI", "EXTRACTF", "EXTRACTI32x4", "EXTRACTI64x4")) and imm is not None and vs:
            w = n
            return (vs[-1][1] >> (imm * w)) & full
        if base.startswith(("INSERTI", "INSERTF")) and imm is not None and len(allsrc) >= 2:
            w = 32 if ("64x4" in base or "32x8" in base or "256" in base) else 16
            old, new = allsrc[0], allsrc[1]
            return ((old & ~(vmask(w) << (imm * w))) | ((new & vmask(w)) << (imm * w))) & full
        if base.startswith(("ALIGNQ", "ALIGND")) and imm is not None and len(allsrc) >= 2:
            esz = 8 if base.startswith("ALIGNQ") else 4
            a, b = allsrc[0], allsrc[1]          # result = (a:b) >> imm elements, across the whole vector
            cat = ((a & full) << n) | (b & full)
            return (cat >> (esz * (imm % (n // esz)))) & full
        if base.startswith(("EXTRACTI32x4", "EXTRACTI64x2", "EXTRACTF32x4", "EXTRACTF64x2", "EXTRACTI128", "EXTRACTF128")) and imm is not None and vs:
            return (vs[-1][1] >> (imm * 16)) & vmask(16) | (full & ~vmask(16))
        if base.startswith(("PERM2I128", "PERM2F128")) and imm is not None and len(allsrc) >= 2:
            a, b = allsrc[0], allsrc[1]
            out = 0
            for half in range(2):
                sel = (imm >> (4 * half)) & 0xF
                if sel & 8:
                    lm = vmask(16)
                else:
                    srcm = a if (sel & 2) == 0 else b
                    lm = (srcm >> (16 * (sel & 1))) & vmask(16)
                out |= lm << (16 * half)
            return out & full
        # lane-wise computations
        if op.startswith(LANEWISE) or base.startswith(LANEWISE):
            m = full
            cb = self.const_mem_bytes(i, msize) if memmask is not None else None
            if cb is not None and base.startswith(("PAND", "ANDP")) and not base.startswith(("PANDN", "ANDNP")) and vs:
                # AND with a constant: bytes where the constant is zero are defined (zero) whatever the register holds
                zero_bytes = 0
                for k, bb in enumerate(cb[:n]):
                    if bb == 0:
                        zero_bytes |= 1 << k
                return ((vs[0][1] & full) | zero_bytes) & full
            for x in allsrc:
                m &= x | (full & ~vmask(min(n, 64)))
            lane = 1
            for suf, w in (("B", 1), ("W", 2), ("D", 4), ("Q", 8)):
                if base.rstrip("rmiZ0123456789bk").endswith(suf) or (suf + "rr") in base or (suf + "rm") in base or (suf + "Z") in base:
                    lane = w
            if base.startswith(("AESENC", "AESDEC", "PCLMUL", "SHA1", "SHA256", "PSHUFB")):
                lane = 16
            if lane > 1:
                out = 0
                for k in range(0, n, lane):
                    if (m >> k) & vmask(lane) == vmask(lane):
                        out |= vmask(lane) << k
                m = out
            return m & full
        # default: everything or nothing
        ok = all(x & full == full for x in [mm for (r, mm, nn, t) in vs if nn >= n] + [mm | (full & ~vmask(nn)) for (r, mm, nn, t) in vs if nn < n and (mm == vmask(nn))] ) and all((mm == vmask(nn)) for (r, mm, nn, t) in vs) and (memmask is None or memmask == vmask(msize or 8)) and all(m == FULL8 for (r, m) in gs)
        return full if ok else 0

    def const_mem_bytes(self, i, msize):
        """Bytes of a rip-relative constant operand (static data never written by the library), else None."""
        if not i.rel or i.mem < 0:
            return None
        m = i.memop()
        if not m or m[0] != "RIP":
            return None
        o = self.f.obj
        try:
            tsec, taddr, tname = i.rel_target(o)
        except Exception:
            return None
        if tsec < 0:
            return None
        return o.initial_bytes(tsec, taddr, msize or 16)

    @staticmethod
    def widen(memmask, msize, n):
        sz = msize or 8
        if sz >= n:
            return memmask & vmask(n)
        return memmask & vmask(sz)
