"""Alignment-demanding memory accesses (DESIGN part III).

An x86 memory access faults (#GP) on a misaligned address only for a known set of encodings:
  * legacy-SSE (non-VEX) instructions with a 16-byte memory operand, except the explicitly unaligned moves
    (movdqu / movups / movupd / lddqu);
  * the explicitly aligned VEX/EVEX moves vmovdqa* / vmovaps / vmovapd and the non-temporal vmovntdq(a) / vmovntp*.
`need(i)` returns the alignment the instruction demands of its memory operand (0 = none).  Whether the address
is a caller's free-alignment buffer is decided by the caller from the phase-1 provenance of the address.
"""
import re

UNALIGNED_SSE = re.compile(r"^(MOVDQU|MOVUPS|MOVUPD|LDDQU)")
ALIGNED_VEX = re.compile(r"^V(MOVDQA|MOVAPS|MOVAPD|MOVNTDQ|MOVNTPS|MOVNTPD)")
NONTEMPORAL = re.compile(r"^V?MOVNT")


def need(i):
    if i.mem < 0 or i.op.startswith("LEA"):
        return 0
    if i.mem + 5 > len(i.ops):
        return 0                      # string instructions: byte/word granular
    ms = i.memsize()
    if ALIGNED_VEX.match(i.op):
        return ms or 16
    if i.op.startswith("V"):
        return 0
    if ms == 16 and "xmm" in i.text and not UNALIGNED_SSE.match(i.op):
        return 16
    return 0


def is_nontemporal(i):
    return bool(NONTEMPORAL.match(i.op))


def sinks(f):
    return [i for b in f.blocks.values() for i in b if need(i)]
