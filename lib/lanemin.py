"""The job managers subtract the minimum lane length from every lane (C06 R06.11).

After choosing the lane with the least work a manager runs the kernel for that many blocks and subtracts that
count from lens[] of *all* lanes, in one or two vector subtractions.  The subtrahend is produced by a min-reduction
tree (pminud / palignr / perm / extract) followed by a broadcast; a reduction step done at the wrong width leaves part
of the broadcast zero and the lanes in that part keep their old length while their data pointers advance.

Dependence sets on the length skeleton (lib/ghash.py's machine, union semantics, 128-bit lanes, instructions that
are not known to be lane-wise spread every source lane to every destination lane): every 16-byte granule of lens[]
is a symbol; at each vector subtraction whose minuend carries lens symbols, every 128-bit lane of the subtrahend
(up to the operand width) must depend on every lens granule loaded so far.  Presence only: cannot false-alarm."""
import re

import ghash
import lenrun


class LaneMachine(ghash.GhashMachine):
    def __init__(self, lib, f, entry, lens_range, **kw):
        ghash.GhashMachine.__init__(self, lib, f, entry, in_tag=None, ctx_tag="state", key_tag=None, aad_tag=None, **kw)
        self.lens_range = lens_range
        self.seen = set()
        # a load whose address depends on the chosen lane may read any lens word: it carries every lens symbol
        self.unknown_load_value = frozenset((("LEN", k), 0) for k in range(lens_range[0] // 16, (lens_range[1] - 1) // 16 + 1))
        self.subs = []        # (ins, missing per lane)

    def mget(self, a, size):
        if a is not None and a[0] == "p" and a[1] == "state":
            lo, hi = a[2], a[2] + size
            if lo < self.lens_range[1] and self.lens_range[0] < hi:
                syms = frozenset((("LEN", k), 0) for k in range(max(lo, self.lens_range[0]) // 16, (min(hi, self.lens_range[1]) - 1) // 16 + 1))
                self.seen |= {s[0] for s in syms}
                return syms
            return ghash.EMPTY
        return ghash.GhashMachine.mget(self, a, size)

    def vstep(self, i):
        if re.match(r"^V?PSUB[DQ]", i.op) and i.mem < 0:
            vu = [u for u in i.reg_uses_nomem() if ghash.VEC.match(u)]
            if len(vu) >= 2:
                a_, b_ = self.lanes_of(vu[-2]), self.lanes_of(vu[-1])
                nl = ghash.nlanes(vu[-1])
                if any(isinstance(s[0], tuple) and s[0][0] == "LEN" for L in a_[:nl] for s in L) and vu[-1] != vu[-2]:
                    miss = []
                    for j in range(nl):
                        have = {s[0] for s in b_[j]}
                        miss.append(sorted(self.seen - have))
                    self.subs.append((i, miss))
        ghash.GhashMachine.vstep(self, i)
