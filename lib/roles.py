"""Roles of the arguments of internal (dispatched) interfaces, derived from the repository itself: the C
wrappers call `_X(...)` with their own, named parameters; the name of the parameter passed at each position
is that position's role name (DESIGN 2.5).  A small dictionary maps names to role classes."""
import ir

KEY_NAMES = {"key_data", "keys", "k1", "k2", "key", "exp_key_enc", "exp_key_dec", "keys_blk", "expkey_enc", "expkey_dec", "exp_key"}
TWEAK_NAMES = {"initial_tweak", "TW_initial"}
IV_NAMES = {"iv", "IV"}
OUT_NAMES = {"out", "auth_tag", "digest", "ct_out", "pt_out"}
OBJ_NAMES = {"context_data", "ctx", "mgr", "state"}


def role_class(name):
    if name is None:
        return "unknown"
    if name in KEY_NAMES:
        return "key"
    if name in TWEAK_NAMES:
        return "tweak"
    if name in IV_NAMES:
        return "iv"
    if name in OUT_NAMES:
        return "output"
    if name in OBJ_NAMES:
        return "object"
    if name == "<local>":
        return "local"
    return "data"


def root_param_name(F, v):
    """Name of the parameter that value v is (a cast / field address of), '<local>' for allocas, else None."""
    r, _off = F.ptr_root(v)
    for _ in range(8):
        if isinstance(r, ir.Inst) and r.op in ("zext", "sext", "trunc", "ptrtoint", "inttoptr", "bitcast"):
            r, _o = F.ptr_root(r.ops[0])
        else:
            break
    if isinstance(r, dict) and r.get("k") == "a":
        return F.args[r["n"]].get("name") or None
    if isinstance(r, ir.Inst) and r.op == "alloca":
        return "<local>"
    return None


def root_param(F, v):
    """(name, pointee_is_const) of the parameter that v derives from, ('<local>', False) for allocas, else None."""
    r, _off = F.ptr_root(v)
    for _ in range(8):
        if isinstance(r, ir.Inst) and r.op in ("zext", "sext", "trunc", "ptrtoint", "inttoptr", "bitcast"):
            r, _o = F.ptr_root(r.ops[0])
        else:
            break
    if isinstance(r, dict) and r.get("k") == "a":
        a = F.args[r["n"]]
        dt = a.get("dtype") or ""
        # "const T*" = pointer to const;  "T* const" = const pointer to mutable
        const_pointee = dt.endswith("*") and dt.startswith("const ") or ("*" in dt and dt.split("*")[0].strip().startswith("const "))
        return (a.get("name") or None, bool(const_pointee), dt)
    if isinstance(r, ir.Inst) and r.op == "alloca":
        return ("<local>", False, "")
    return None


def interface_signatures(mods):
    """{internal callee: [(role name, pointee const?, declared type) per argument]}; isal_ wrappers take precedence,
    then non-static callers."""
    out = {}
    prio = {}
    for src, M in mods.items():
        for F in M.defined():
            p = 3 if F.name.startswith("isal_") else 2 if not F.local else 1
            for I in F.calls():
                c = I.callee or ""
                if not c.startswith("_") or c.startswith("__"):
                    continue
                n = I.raw.get("nargs", 0)
                sig = [root_param(F, I.ops[k]) for k in range(n)]
                if c not in out or p > prio[c]:
                    out[c] = sig
                    prio[c] = p
    return out


def interface_roles(mods):
    """{internal callee name: [role name per argument position]} from every call site in the C units; call
    sites inside isal_ wrappers take precedence (their parameter names are the documented ones)."""
    out = {}
    prio = {}
    for src, M in mods.items():
        for F in M.defined():
            p = 2 if F.name.startswith("isal_") else 1
            for I in F.calls():
                c = I.callee or ""
                if not c.startswith("_") or c.startswith("__"):
                    continue
                n = I.raw.get("nargs", 0)
                names = [root_param_name(F, I.ops[k]) for k in range(n)]
                if c not in out or p > prio[c]:
                    out[c] = names
                    prio[c] = p
    return out
