"""GHASH schedule analysis (DESIGN part III, C07 R07.5 / C02 R02.7): which power of H multiplies which block.

GHASH folds the blocks X_1..X_n of a message into  Y = sum X_i * H^(n-i+1).  The implementations aggregate
(8, 16, 32 or 48 blocks against a table of precomputed powers), defer reductions, park ciphertext on the stack
and keep a pending partial block in the context, so "the right power meets the right block" is spread over
hundreds of instructions and differs between the one-shot and the streaming instantiation of the same macro.

This module decides that clause without computing a single field element.  On the path the length skeleton
selects (lib/lenrun.py: constant propagation over the scalar arguments, nothing else) every value carries a set
of *monomials* (symbol, exponent):

    ("A", e)        the hash the context carried into the call, times H^e
    (("D", i), e)   the i-th 16-byte block of this call's data (block boundaries as GHASH sees them, i.e. shifted
                    by the pending partial block), times H^e
    ("K", e)        H^e itself (only in key-table values)

Transfer: a carry-less multiply forms all pairwise products (exponents add; an operand without monomials - a
constant such as the reduction polynomial - multiplies as 1); every other instruction gives its destination the
union of its sources' sets, lane by lane (128-bit lanes) for the instructions known to be lane-wise, across all
lanes otherwise.  The sets therefore over-approximate the monomials really present; the rule only ever demands
that an expected monomial *is present*, so imprecision can hide a defect but cannot raise an alarm.

The key table is not assumed: the precomp body of the same family is interpreted first (the block it encrypts
to obtain H is ("K", 1)) and the sets it stores through key_data are what the update body later loads.
"""
import re

import lenrun
from x86 import PARENT, WIDTH

EMPTY = frozenset()
VEC = re.compile(r"^([XYZ])MM(\d+)$")
LANEWISE = re.compile(r"^V?(AESENC|AESENCLAST|AESDEC|AESDECLAST|MOVDQ[AU]|MOVDQA|MOVDQU|MOVAPS|MOVUPS|PADD[BWDQ]|PSUB[BWDQ]|PAND|PANDN|POR|PXOR|PXORQ|PXORD|PANDQ|PORQ|"
                      r"PSHUFB|PSHUFD|PSLLDQ|PSRLDQ|PSLL[WDQ]|PSRL[WDQ]|PTERNLOG[DQ]|PCMPEQ[BWDQ]|PBLENDVB|PBLENDW|PALIGNR)(\d|Y|Z|r|m|$)")


def nlanes(reg):
    m = VEC.match(reg or "")
    return {"X": 1, "Y": 2, "Z": 4}[m.group(1)] if m else 0


def vkey(reg):
    return int(VEC.match(reg).group(2))


def product(a, b):
    if not a:
        return b
    if not b:
        return a
    out = set()
    for (s1, e1) in a:
        for (s2, e2) in b:
            if s1 == "K":
                out.add((s2, e1 + e2))
            elif s2 == "K":
                out.add((s1, e1 + e2))
    return frozenset(out)


class GhashMachine(lenrun.Machine):
    """in_tag / ctx_tag / key_tag: pointer tags of the data input, the context and the key data; pb: pending
    partial-block bytes; hash_off: offset of aad_hash in the context; precomp=True marks the block cipher output as H."""

    def __init__(self, lib, f, entry, mem_hook=None, in_tag="in", ctx_tag="context_data", key_tag="key_data", pb=0, hash_off=0, keymem=None,
                 precomp=False, aad_tag=None, len_range=None, budget=600000):
        lenrun.Machine.__init__(self, lib, f, entry, mem_hook=mem_hook, budget=budget)
        self.vregs = {}          # register number -> [set, set, set, set]
        self.gt = {}             # 64-bit GPR -> set
        self.vmem = {}           # tag -> [(lo, hi, set)]
        if keymem:
            self.vmem[key_tag] = list(keymem)
        self.in_tag, self.ctx_tag, self.key_tag, self.aad_tag = in_tag, ctx_tag, key_tag, aad_tag
        self.pb = pb
        self.hash_off = hash_off
        self.precomp = precomp
        self.len_range = len_range
        self.finals = []         # abstract memory at every return
        self.final_scalars = []  # scalar fields of caller objects written with a known value, at every return
        self.nmul = 0

    # ---- abstract memory
    def mget(self, a, size):
        if a is None or a[0] != "p":
            return EMPTY
        tag, lo, hi = a[1], a[2], a[2] + size
        if tag == self.in_tag:
            first = (lo + self.pb) // 16
            last = (hi - 1 + self.pb) // 16
            return frozenset((("D", k), 0) for k in range(first, last + 1))
        if tag == self.aad_tag:
            return frozenset((("AAD", k), 0) for k in range(lo // 16, (hi - 1) // 16 + 1))
        out = set()
        covered = False
        for (l2, h2, s) in self.vmem.get(tag, ()):
            if l2 < hi and lo < h2:
                out |= s
                if l2 <= lo and hi <= h2:
                    covered = True
        if tag == self.ctx_tag and not covered and lo < self.hash_off + 16 and self.hash_off < hi:
            out.add(("A", 0))
        if tag == self.ctx_tag and not covered and self.len_range and lo < self.len_range[1] and self.len_range[0] < hi:
            out.add(("L", 0))
        return frozenset(out)

    def mput(self, a, size, s, merge=False):
        if a is None or a[0] != "p":
            return
        tag, lo, hi = a[1], a[2], a[2] + size
        if tag in (self.in_tag, "out", "rip") or tag.startswith("data:"):
            return
        if tag == self.ctx_tag and self.len_range and lo < self.len_range[1] and self.len_range[0] < hi:
            s = frozenset(s) | frozenset([("L", 0)])
        ents = self.vmem.setdefault(tag, [])
        if not merge:
            ents[:] = [e for e in ents if not (lo <= e[0] and e[1] <= hi)]
        else:
            s = frozenset(s) | self.mget(a, size)
        ents.append((lo, hi, frozenset(s)))

    def lanes_of(self, reg):
        return self.vregs.get(vkey(reg)) or [EMPTY, EMPTY, EMPTY, EMPTY]

    # ---- one instruction
    def step(self, i):
        op = i.op
        try:
            self.vstep(i)
        finally:
            lenrun.Machine.step(self, i)

    def vstep(self, i):
        op = i.op
        if op.startswith(("ENDBR", "NOOP", "PREFETCH", "LFENCE", "SFENCE", "MFENCE", "CMP", "TEST", "KMOV", "KSHIFT", "KOR", "KAND", "KXOR")) or op.startswith("LEA"):
            return
        size = i.memsize() if i.mem >= 0 else None
        a = self.addr(i) if (i.mem >= 0 and i.mem + 5 <= len(i.ops)) else None
        defs = list(i.explicit_defs())
        vdefs = [d for d in defs if VEC.match(d)]
        gdefs = [PARENT[d] for d in defs + list(i.idefs) if d in PARENT and PARENT[d] != "RSP"]
        uses = i.reg_uses_nomem()
        vuses = [u for u in uses if VEC.match(u)]
        guses = [PARENT[u] for u in uses if u in PARENT]
        merge_mask = bool(re.search(r"k$", op)) and not op.endswith("kz")
        reads = i.mem >= 0 and i.reads_mem_operand()
        writes = i.mem >= 0 and i.writes_mem_operand()
        if op in ("PUSH64r", "POP64r"):
            if op == "POP64r":
                self.gt[PARENT[i.reg(0)]] = EMPTY
            return
        # ---- stores
        if writes and not vdefs and not gdefs or (writes and op.startswith(("MOV", "VMOV", "VPEXTR", "PEXTR", "VEXTRACT")) and not reads):
            if vuses:
                src = vuses[-1] if not op.startswith(("VEXTRACT", "VPEXTR", "PEXTR")) else vuses[0]
                L = self.lanes_of(src)
                if op.startswith("VEXTRACT"):
                    im = [o[1] for o in i.ops if o[0] == "i"]
                    sel = (im[-1] if im else 0)
                    if "64X4" in op.upper():
                        L = L[2:4] if sel & 1 else L[0:2]
                    else:
                        L = [L[sel & 3]]
                n = max(1, (size or 16) // 16)
                if (size or 16) < 16:
                    self.mput(a, size, L[0], merge=merge_mask)
                else:
                    for j in range(n):
                        self.mput(("p", a[1], a[2] + 16 * j) if a and a[0] == "p" else None, 16, L[j] if j < len(L) else EMPTY, merge=merge_mask)
            else:
                s = EMPTY
                for g in guses:
                    s |= self.gt.get(g, EMPTY)
                if reads:
                    s |= self.mget(a, size or 8)
                self.mput(a, size or 8, s)
            return
        # ---- sources
        mem_l = None
        if reads and (vdefs or gdefs) and (a is None or a[0] != "p"):
            # the sets must over-approximate: a value loaded from an address the length skeleton does not determine
            # could carry any monomial, so the run cannot be judged
            top = getattr(self, "unknown_load_value", None)
            if top is None:
                raise lenrun.Stop("`%s` loads from an address the length skeleton does not determine" % i.text.strip())
            mem_l = [top] * max(1, (size or 16) // 16)
        elif reads:
            n = max(1, (size or 16) // 16)
            if (size or 16) < 16 or a is None or a[0] != "p":
                mem_l = [self.mget(a, size or 8)]
            else:
                mem_l = [self.mget(("p", a[1], a[2] + 16 * j), 16) for j in range(n)]
        gsrc = EMPTY
        for g in guses:
            gsrc |= self.gt.get(g, EMPTY)
        # zero idioms
        if i.mem < 0 and re.match(r"^V?(PXOR|XORPS|XORPD|PXORQ|PXORD|PSUB[BWDQ])", op) and len(set(vuses)) == 1 and len(vuses) == 2 and vdefs:
            self.setv(vdefs[0], [EMPTY] * nlanes(vdefs[0]), vex=op.startswith("V"))
            return
        if i.mem < 0 and op in ("XOR32rr", "XOR64rr", "SUB32rr", "SUB64rr") and i.reg(1) == i.reg(2):
            self.gt[PARENT[i.reg(0)]] = EMPTY
            return
        if vdefs:
            d = vdefs[0]
            nl = nlanes(d)
            vex = op.startswith("V")
            srcl = [self.lanes_of(u) for u in vuses]
            if "PCLMULQDQ" in op:
                self.nmul += 1
                ops_ = list(srcl)
                if mem_l is not None:
                    ops_.append(mem_l + [EMPTY] * 4)
                if len(ops_) == 1:
                    ops_ = ops_ * 2
                new = [product(ops_[0][j], ops_[1][j]) for j in range(nl)]
                self.setv(d, new, vex=vex)
                return
            if self.precomp and "AESENCLAST" in op:
                self.setv(d, [frozenset([("K", 1)])] * nl, vex=vex)
                return
            if op.startswith("VBROADCAST") or op.startswith("VPBROADCAST"):
                s = EMPTY
                for L in srcl:
                    s |= L[0]
                if mem_l is not None:
                    for x in mem_l:
                        s |= x
                s |= gsrc
                self.setv(d, [s] * nl, vex=True)
                return
            if op.startswith("VEXTRACT") and i.mem < 0 and srcl:
                im = [o[1] for o in i.ops if o[0] == "i"]
                sel = im[-1] if im else 0
                L = srcl[0]
                if "64x4" in op or "64X4" in op:
                    new = L[2:4] if sel & 1 else L[0:2]
                else:
                    new = [L[sel & 3]]
                self.setv(d, new, vex=True)
                return
            if op.startswith("VINSERTI64x2") or op.startswith("VINSERTI32x4") or op.startswith("VINSERTF"):
                im = [o[1] for o in i.ops if o[0] == "i"]
                sel = (im[-1] if im else 0) & 3
                base = list(srcl[0]) if srcl else [EMPTY] * 4
                ins = mem_l[0] if mem_l is not None else (srcl[1][0] if len(srcl) > 1 else EMPTY)
                if "128" in op or ("256" in op and False):
                    pass
                base = (base + [EMPTY] * 4)[:4]
                if nl == 2:
                    sel &= 1
                base[sel] = ins
                self.setv(d, base[:nl], vex=True)
                return
            if op.startswith("VSHUFI64X2") or op.startswith("VSHUFF64X2") or op.startswith("VSHUFI32X4"):
                im = [o[1] for o in i.ops if o[0] == "i"]
                sel = im[-1] if im else 0
                s1 = srcl[0] if srcl else [EMPTY] * 4
                s2 = srcl[1] if len(srcl) > 1 else (mem_l + [EMPTY] * 4 if mem_l is not None else s1)
                if nl == 4:
                    new = [s1[sel & 3], s1[(sel >> 2) & 3], s2[(sel >> 4) & 3], s2[(sel >> 6) & 3]]
                else:
                    new = [s1[sel & 1], s2[(sel >> 1) & 1]]
                self.setv(d, new, vex=True, merge=merge_mask)
                return
            if LANEWISE.match(op) and all(nlanes(u) >= 1 for u in vuses):
                new = []
                for j in range(nl):
                    s = gsrc
                    for L in srcl:
                        s |= L[j]
                    if mem_l is not None and j < len(mem_l):
                        s |= mem_l[j]
                    new.append(s)
                self.setv(d, new, vex=vex, merge=merge_mask)
                return
            # anything else: every lane of the destination may depend on every lane of every source
            s = gsrc
            for L in srcl:
                for x in L:
                    s |= x
            if mem_l is not None:
                for x in mem_l:
                    s |= x
            legacy_partial = not vex
            self.setv(d, [s] * nl, vex=vex, merge=legacy_partial or merge_mask)
            return
        if gdefs:
            s = gsrc
            for u in vuses:
                for x in self.lanes_of(u):
                    s |= x
            if mem_l is not None:
                for x in mem_l:
                    s |= x
            if op.startswith("MOV") and not op.startswith(("MOVZX", "MOVSX")) and len(gdefs) == 1 and WIDTH.get(defs[0] if defs else "", 64) >= 32:
                self.gt[gdefs[0]] = s
            else:
                for g in gdefs:
                    self.gt[g] = s | (self.gt.get(g, EMPTY) if g in guses or WIDTH.get(defs[0] if defs else "", 64) < 32 else EMPTY)
            return

    def setv(self, reg, lanes, vex=True, merge=False):
        k = vkey(reg)
        old = self.vregs.get(k) or [EMPTY] * 4
        new = list(old)
        for j, s in enumerate(lanes[:4]):
            new[j] = (s | old[j]) if merge else s
        if vex:
            for j in range(len(lanes), 4):
                new[j] = EMPTY
        self.vregs[k] = new

    def snap(self):
        return (lenrun.Machine.snap(self), {k: list(v) for k, v in self.vregs.items()}, dict(self.gt), {t: list(e) for t, e in self.vmem.items()})

    def restore(self, t):
        lenrun.Machine.restore(self, t[0])
        self.vregs = {k: list(v) for k, v in t[1].items()}
        self.gt = dict(t[2])
        self.vmem = {k: list(e) for k, e in t[3].items()}

    def on_ret(self, i):
        self.finals.append({t: list(e) for t, e in self.vmem.items()})
        self.final_scalars.append(dict(self.stack))

    def _key(self, blk):
        base = lenrun.Machine._key(self, blk)
        return (base, tuple(sorted((k, tuple(v)) for k, v in self.vregs.items() if any(v))), tuple(sorted((k, v) for k, v in self.gt.items() if v)),
                tuple(sorted((t, tuple(sorted((l, h, tuple(sorted(map(repr, s_)))) for (l, h, s_) in e))) for t, e in self.vmem.items())))


# ---- drivers shared by rules/c07.py (streaming bodies) and rules/c02.py (one-shot and init bodies)
ARGREGS = ["RDI", "RSI", "RDX", "RCX", "R8", "R9"]
_PRE = {}


def precomp_keymem(lib, keybits, family):
    """Abstract key table of one family: what its precomp body stores through key_data (None if not interpretable)."""
    pre_name = "_aes_gcm_precomp_%s_%s" % (keybits, family)
    if pre_name not in _PRE:
        km = None
        try:
            pf = lib.func_named(pre_name)
        except Exception:
            pf = None
        if pf is not None:
            pm = GhashMachine(lib, pf, {"RDI": ("p", "key_data", 0)}, precomp=True)
            pr = pm.run()
            if pr.returned and not pr.stopped and pm.finals:
                km = pm.finals[0].get("key_data", [])
                if not any(("K", 1) in e[2] for e in km):
                    km = None
        _PRE[pre_name] = km
    return _PRE[pre_name], pre_name


def run_case(lib, f, sig, fields, keymem, L=None, PB=0, aad_len=None, tag_len=16):
    entry = {}
    sargs = {}
    for k, sg in enumerate(sig):
        if sg is None:
            continue
        isptr = "*" in (sg[2] or "")
        nm_ = sg[0] or ("arg%d" % k)
        v_ = ("p", nm_, 0) if isptr else (L if nm_ == "len" else tag_len if nm_ == "auth_tag_len" else aad_len if nm_ == "aad_len" else None)
        if k < 6:
            entry[ARGREGS[k]] = v_
        else:
            sargs[8 + 8 * (k - 6)] = v_
    pboff = fields["partial_block_length"][0]

    def hook(i, a, size):
        if a[0] == "p" and a[1] == "sp" and a[2] in sargs and size == 8:
            return sargs[a[2]]
        if a[0] == "p" and a[1] == "context_data" and a[2] == pboff and size == 8:
            return PB
        return None
    m = GhashMachine(lib, f, entry, mem_hook=hook, pb=PB, hash_off=fields["aad_hash"][0], keymem=keymem, aad_tag="aad",
                     len_range=(fields["aad_length"][0], fields["in_length"][0] + 8))
    m.result = m.run()
    return m


def collect(fin, tag, lo=None, hi=None):
    got = set()
    for (l, h, ss) in fin.get(tag, []):
        if lo is None or (l < hi and lo < h):
            got |= ss
    return got


def describe(sym):
    if sym == "A":
        return "the hash carried in the context"
    if sym == "L":
        return "the length block"
    if isinstance(sym, tuple) and sym[0] == "AAD":
        return "block %d of the AAD" % sym[1]
    if isinstance(sym, tuple) and sym[0] == "D":
        return "block %d of the data" % sym[1]
    return repr(sym)


def first_missing(got, want):
    for w in want:
        if w not in got:
            have = sorted(e for (s_, e) in got if s_ == w[0])
            return w, have
    return None
