"""Stream conservation in the multi-buffer hash context layer (C01 R01.8), on the IR skeleton (lib/irskel.py).

The context layer cuts the caller's stream into what the block-oriented managers can take: bytes are topped up
into the carried block, whole blocks are handed over straight from the caller's buffer, the tail is saved for
the next call and LAST appends the padding.  For one context the order in which bytes reach the manager is
independent of what other contexts do, so it can be replayed with the manager modelled as "hands the submitted
job back at once": the constant-propagation interpreter follows the one path that (flags, carried bytes, len)
selects through submit -> resubmit -> hash_pad and the recorded events (copies, stores of job.buffer / job.len,
manager submits) are checked against the stream:

  * every job continues the stream exactly where the previous one ended (no gap, no byte twice, no reordering);
  * the carried block is submitted as data only when it holds a whole block made of the carried bytes followed by
    the next bytes of the caller's buffer;
  * without LAST the call returns with everything before the saved tail hashed, the tail (< block) in the carried
    block and partial_block_buffer_length equal to it; with LAST the padding job covers the residue with 1 or 2
    blocks as the residue and the length field require;
  * total_length is the stream length.
"""
import re

import irskel
from report import Finding

UNIT = re.compile(r"^(sha1|sha256|sha512|md5|sm3)_mb/\w*_ctx_(?!base)\w+\.c$")
COPY = re.compile(r"^(llvm\.memcpy|llvm\.memmove|memcpy|memmove|__memcpy_chk|memcpy_\w+)")


def rule(chk, rule_id, mods):
    nfun = ncase = 0
    for src, M in sorted(mods.items()):
        mu = UNIT.match(src)
        if not mu:
            continue
        algo = mu.group(1)
        B = 128 if algo == "sha512" else 64
        LF = 16 if algo == "sha512" else 8
        ctxs = job = None
        for sn, ds in M.distructs.items():
            names = {m["name"]: m for m in ds["members"]}
            if sn.endswith("_HASH_CTX") and "partial_block_buffer" in names:
                ctxs = names
            if sn.endswith("_JOB") and "buffer" in names and "len" in names:
                job = names
        sub = [F for F in M.defined() if re.match(r"^_%s_ctx_mgr_submit_\w+$" % algo, F.name)]
        if not ctxs or not job or len(sub) != 1:
            chk.broke("%s: context / job layout or the submit function not found" % src)
            continue
        F = sub[0]
        an = {a.get("name"): n for n, a in enumerate(F.args)}
        if not {"mgr", "ctx", "buffer", "len", "flags"} <= set(an):
            chk.broke("%s: parameters of %s not recognised" % (src, F.name))
            continue
        off = {k: (v["off"], v["size"]) for k, v in ctxs.items()}
        joff = off["job"][0]
        jb, jl = (joff + job["buffer"]["off"], 8), (joff + job["len"]["off"], job["len"]["size"])
        pbb, pbl, tl, st = off["partial_block_buffer"], off["partial_block_buffer_length"], off["total_length"], off["status"]
        fmap = M.functions
        enter_ok = {n for n in fmap if not fmap[n].decl and (re.search(r"_ctx_mgr_resubmit$", n) or n == "hash_pad")}

        def enter(cal):
            return fmap[cal] if cal in enter_ok else None

        def extern(cal, av):
            if re.match(r"^_\w+_(mb|sb)_mgr_submit_\w+$", cal) and len(av) >= 2:
                return av[1]
            return None
        nfun += 1
        bad = None
        grid = []
        for flags in (0, 2):
            for P in (0, 1, B - LF - 1, B - LF, B - 1):
                for L in sorted({0, 1, B - P - 1, B - P, B - P + 1, B, B + 1, 2 * B - P, 2 * B - P + LF, 3 * B + 5}):
                    if L >= 0:
                        grid.append((flags, P, L))
        for flags in (1, 3):
            for L in (0, 1, B - LF - 1, B - LF, B - 1, B, B + 1, 3 * B + 5):
                grid.append((flags, 7, L))
        for (flags, P, L) in grid:
            first = bool(flags & 1)
            last = bool(flags & 2)
            T0 = 5 * B + P
            args = [None] * len(F.args)
            args[an["mgr"]] = ("p", "mgr", 0)
            args[an["ctx"]] = ("p", "ctx", 0)
            args[an["buffer"]] = ("p", "in", 0)
            args[an["len"]] = L
            args[an["flags"]] = flags

            def mem_init(tag, o, size, _P=P, _T=T0):
                if tag != "ctx":
                    return None
                if (o, size) == tl:
                    return _T
                if (o, size) == pbl:
                    return _P
                if (o, size) == st:
                    return 0
                return None
            try:
                try:
                    rr = irskel.run(F, args, mem_init, enter=enter, extern=extern, keep=lambda cal: bool(re.match(r"^_\w+_(mb|sb)_mgr_submit_\w+$", cal)))
                except irskel.Unknown:
                    rr = irskel.run(F, args, mem_init, enter=enter, extern=extern, keep=lambda cal: bool(re.match(r"^_\w+_(mb|sb)_mgr_submit_\w+$", cal)), unknown_dir=1)
            except irskel.Unknown as e:
                chk.broke("%s: IR skeleton not followed for flags = %d, carried = %d, len = %d: %s" % (F.name, flags, P, L, e))
                break
            ncase += 1
            if bad:
                continue
            P0 = 0 if first else P
            buf_start, fill = -P0, P0
            pos = -P0
            jbuf = jlen = None
            newpbl = None
            newtl = None
            finished = False
            why = None
            lastI = F.first()
            for ev in rr.events:
                lastI = ev[-1]
                if ev[0] == "store":
                    _, tag, o, size, v, I = ev
                    if tag == "ctx":
                        if (o, size) == jb:
                            jbuf = v
                        elif (o, size) == jl:
                            jlen = v
                        elif (o, size) == pbl:
                            newpbl = v
                        elif (o, size) == tl:
                            newtl = v
                    continue
                _, cal, av, I = ev
                if COPY.match(cal) and len(av) >= 3:
                    dst, s_, nb = av[0], av[1], av[2]
                    if not (isinstance(s_, tuple) and s_[1] == "in"):
                        continue
                    if not (isinstance(dst, tuple) and dst[1] == "ctx" and pbb[0] <= dst[2] < pbb[0] + pbb[1]) or not isinstance(nb, int):
                        why = (I, "bytes of the caller's buffer are copied somewhere other than the carried block")
                        break
                    d = dst[2] - pbb[0]
                    if nb == 0:
                        continue
                    if fill == 0:
                        buf_start = s_[2]
                    if d != fill or buf_start + fill != s_[2]:
                        why = (I, "%d byte(s) from offset %d of the caller's buffer are copied to offset %d of the carried block, which holds %d byte(s) of the stream from position %d" % (nb, s_[2], d, fill, buf_start))
                        break
                    if fill + nb > B or s_[2] + nb > L:
                        why = (I, "a copy of %d byte(s) overruns the carried block (%d held) or the caller's buffer (offset %d of %d)" % (nb, fill, s_[2], L))
                        break
                    fill += nb
                elif re.match(r"^_\w+_(mb|sb)_mgr_submit_\w+$", cal):
                    if finished:
                        why = (I, "a job is submitted after the padding")
                        break
                    if not isinstance(jbuf, tuple) or not isinstance(jlen, int):
                        why = (I, "a job is submitted whose buffer / len the skeleton does not determine")
                        break
                    if jbuf[1] == "ctx" and jbuf[2] == pbb[0]:
                        if fill == B and jlen == 1 and not (last and pos + B > L and False):
                            if pos != buf_start:
                                why = (I, "the carried block (stream position %d) is submitted while the stream has been hashed up to position %d" % (buf_start, pos))
                                break
                            pos += B
                            fill = 0
                        else:
                            # padding job
                            if not last:
                                why = (I, "the carried block is submitted holding %d of %d bytes (%d block(s)) in a call without LAST" % (fill, B, jlen))
                                break
                            if fill and pos != buf_start:
                                why = (I, "the padded residue starts at stream position %d but the stream has been hashed up to %d" % (buf_start, pos))
                                break
                            want = 1 if fill + 1 + LF <= B else 2
                            if jlen != want:
                                why = (I, "the padding job has %d block(s); a residue of %d byte(s) with a %d-byte length field needs %d" % (jlen, fill, LF, want))
                                break
                            pos += fill
                            fill = 0
                            finished = True
                    elif jbuf[1] == "in":
                        if jbuf[2] != pos:
                            why = (I, "a job starts at offset %d of the caller's buffer while the stream has been hashed up to position %d" % (jbuf[2], pos))
                            break
                        if jlen <= 0 or jbuf[2] + jlen * B > L:
                            why = (I, "a job of %d block(s) from offset %d does not fit the %d-byte buffer" % (jlen, jbuf[2], L))
                            break
                        pos += jlen * B
                    else:
                        why = (I, "a job's buffer is neither the carried block nor the caller's buffer")
                        break
            if why is None:
                tot_want = (0 if first else T0) + L
                if last:
                    if not finished:
                        why = (lastI, "LAST was given but no padding job is submitted")
                    elif pos != L:
                        why = (lastI, "the stream has been hashed up to position %d of %d when the padding is submitted" % (pos, L))
                else:
                    if fill >= B:
                        why = (lastI, "the call returns with a full carried block that was not submitted")
                    elif (fill and buf_start != pos) or pos + fill != L:
                        why = (lastI, "at return the stream is hashed up to position %d and %d byte(s) from position %s are carried; the buffer had %d bytes" % (pos, fill, buf_start, L))
                    elif (newpbl if newpbl is not None else P) != fill:
                        why = (lastI, "partial_block_buffer_length is %s at return but %d byte(s) are carried" % (newpbl if newpbl is not None else P, fill))
                if why is None and (newtl if newtl is not None else T0) != tot_want:
                    why = (lastI, "total_length is %s at return, %d is due" % (newtl if newtl is not None else T0, tot_want))
            if why:
                bad = (flags, P, L, why)
        chk.obligation(rule_id, bad is None, key=(src, F.name), sample={"unit": src, "function": F.name, "cases": len(grid), "block": B})
        if bad and "does not determine" in bad[3][1]:
            chk.broke("%s: flags = %d, carried = %d, len = %d: %s" % (F.name, bad[0], bad[1], bad[2], bad[3][1]))
            bad = None
        if bad:
            flags, P, L, (I, msg) = bad
            fl = {0: "UPDATE", 1: "FIRST", 2: "LAST", 3: "ENTIRE"}[flags]
            chk.finding(Finding(rule_id, src, F.name, "stream:%s,carried=%d,len=%d" % (fl, P, L), "with flags = %s, %d byte(s) carried and len = %d: %s" % (fl, P, L, msg), loc=I.loc() if hasattr(I, "loc") else src))
    return nfun, ncase
