"""Small value-set (k-set) abstract interpretation of x86-64 general-purpose registers, used for clauses of the
form "when argument A lies in a small range, this code is unreachable" (DESIGN part III, C03 R03.1).

Domain: each 64-bit GPR is either unknown (absent) or a finite set of at most KMAX concrete 64-bit values; the
flags are remembered as the set of (CF, ZF, SF, OF) outcomes of the last flag-setting instruction, element-wise
linked to the register that produced them so that a conditional branch can (1) be pruned when every element
decides it the same way and (2) refine the register's set on each edge otherwise.  Everything that is not a
move / add / sub / and / or / xor / shift / cmp / test of registers and immediates makes its destinations
unknown.  Memory is not modelled (loads give unknown).  Join = set union, widened to unknown above KMAX, so the
fixpoint terminates.  Nothing is executed: the result is the set of CFG edges that cannot be taken under the
entry assumption.
"""
import re

from x86 import G64, PARENT, WIDTH

KMAX = 64
M64 = (1 << 64) - 1
M32 = (1 << 32) - 1


def _mask(w):
    return M64 if w == 64 else M32 if w == 32 else (1 << w) - 1


def _signed(v, w):
    return v - (1 << w) if v >> (w - 1) else v


def flags_sub(a, b, w):
    m = _mask(w)
    a &= m
    b &= m
    r = (a - b) & m
    cf = a < b
    zf = r == 0
    sf = bool(r >> (w - 1))
    of = ((a ^ b) & (a ^ r)) >> (w - 1) & 1 == 1
    return (cf, zf, sf, of), r


def flags_add(a, b, w):
    m = _mask(w)
    a &= m
    b &= m
    r = (a + b) & m
    cf = a + b > m
    zf = r == 0
    sf = bool(r >> (w - 1))
    of = (~(a ^ b) & (a ^ r)) >> (w - 1) & 1 == 1
    return (cf, zf, sf, of), r


def flags_logic(r, w):
    r &= _mask(w)
    return (False, r == 0, bool(r >> (w - 1)), False)


def cond_holds(cc, fl):
    cf, zf, sf, of = fl
    base = cc & ~1
    if base == 0:
        v = of
    elif base == 2:
        v = cf
    elif base == 4:
        v = zf
    elif base == 6:
        v = cf or zf
    elif base == 8:
        v = sf
    elif base == 10:
        return None                   # parity: not modelled
    elif base == 12:
        v = sf != of
    else:
        v = zf or (sf != of)
    return (not v) if cc & 1 else v


class Result(object):
    def __init__(self):
        self.reached = set()          # block leaders reached
        self.dead_edges = set()       # (block, succ) proved infeasible
        self.decided = []             # (ins addr, text, 'taken'|'fall') conditional branches decided one way
        self.iters = 0


def _operand_set(i, k, regs):
    o = i.ops[k]
    if o[0] == "i":
        return {o[1] & M64}
    if o[0] == "r" and o[1] in PARENT:
        s = regs.get(PARENT[o[1]])
        w = WIDTH[o[1]]
        if s is None or w < 32:
            return None
        return {v & _mask(w) for v in s}
    return None


KEEP = object()
ALU = ("AND", "SUB", "ADD", "OR", "XOR", "CMP", "TEST")


def step(i, st, load_hook=None):
    """Transfer one instruction.  st = {'r': {reg: frozenset}, 'fl': None | (linked reg or None, {key: flags})}
    where key is the linked register's value (linked) or an arbitrary index (unlinked)."""
    regs = st["r"]
    op = i.op
    killed = set()
    for r in list(i.explicit_defs()) + list(i.idefs):
        if r in PARENT:
            killed.add(PARENT[r])
    setv = {}
    fl_new = KEEP
    nomem = i.mem < 0
    if i.is_call():
        st["r"] = {}
        st["fl"] = None
        return
    if nomem and op in ("MOV64rr", "MOV32rr"):
        src = _operand_set(i, 1, regs)
        if src is not None:
            setv[PARENT[i.reg(0)]] = frozenset(src)
    elif load_hook is not None and op in ("MOV64rm", "MOV32rm"):
        v = load_hook(i)
        if v is not None:
            setv[PARENT[i.reg(0)]] = frozenset((x & (M32 if op == "MOV32rm" else M64)) for x in v)
    elif nomem and op in ("MOV64ri32", "MOV64ri", "MOV32ri"):
        setv[PARENT[i.reg(0)]] = frozenset({i.imm(1) & (M32 if op == "MOV32ri" else M64)})
    elif nomem and op.startswith(ALU) and re.match(r"^(AND|SUB|ADD|OR|XOR|CMP|TEST)(64|32)(ri8|ri32|ri|rr|i32)$", op):
        base = re.match(r"^[A-Z]+", op).group(0)
        is_cmp = base in ("CMP", "TEST")
        ra = i.ops[0][1] if i.ops and i.ops[0][0] == "r" else None
        a = b = None
        if ra in PARENT and WIDTH[ra] >= 32:
            w = WIDTH[ra]
            if is_cmp and len(i.ops) >= 2:
                a, b = _operand_set(i, 0, regs), _operand_set(i, 1, regs)
            elif not is_cmp and len(i.ops) >= 3:
                a, b = _operand_set(i, 1, regs), _operand_set(i, 2, regs)
            if base == "XOR" and op.endswith("rr") and i.reg(1) == i.reg(2):
                a, b = {0}, {0}
        if a is not None and b is not None and len(a) * len(b) <= KMAX:
            d = PARENT[ra]
            outs = set()
            fl = {}
            consistent = True
            for x in a:
                for y in b:
                    if base in ("SUB", "CMP"):
                        f, r = flags_sub(x, y, w)
                    elif base == "ADD":
                        f, r = flags_add(x, y, w)
                    else:
                        r = ((x & y) if base in ("AND", "TEST") else (x | y) if base == "OR" else (x ^ y)) & _mask(w)
                        f = flags_logic(r, w)
                    key = x if is_cmp else r
                    if key in fl and fl[key] != f:
                        consistent = False
                    fl[key] = f
                    outs.add(r)
            if not is_cmp:
                setv[d] = frozenset(outs)
            if consistent and (len(b) == 1 or not is_cmp):
                fl_new = (d, fl)
            else:
                allf = set()
                for x in a:
                    for y in b:
                        if base in ("SUB", "CMP"):
                            allf.add(flags_sub(x, y, w)[0])
                        elif base == "ADD":
                            allf.add(flags_add(x, y, w)[0])
                        else:
                            allf.add(flags_logic(((x & y) if base in ("AND", "TEST") else (x | y) if base == "OR" else (x ^ y)), w))
                fl_new = (None, dict(enumerate(sorted(allf))))
    elif nomem and op in ("SHL64ri", "SHR64ri", "SHL32ri", "SHR32ri", "SAR64ri", "SAR32ri") and len(i.ops) >= 3:
        ra = i.reg(0)
        a = _operand_set(i, 1, regs)
        k = (i.imm(2) or 0) & 63
        if a is not None and ra in PARENT:
            w = WIDTH[ra]
            if op.startswith("SHL"):
                setv[PARENT[ra]] = frozenset(((x << k) & _mask(w)) for x in a)
            elif op.startswith("SHR"):
                setv[PARENT[ra]] = frozenset(((x & _mask(w)) >> k) for x in a)
            else:
                setv[PARENT[ra]] = frozenset((_signed(x & _mask(w), w) >> k) & _mask(w) for x in a)
    for d in killed:
        regs.pop(d, None)
    for d, v in setv.items():
        regs[d] = v
    writes_flags = "EFLAGS" in i.idefs or "EFLAGS" in i.explicit_defs()
    if fl_new is not KEEP:
        st["fl"] = fl_new
    elif writes_flags:
        st["fl"] = None
    cur = st["fl"]
    if fl_new is KEEP and cur is not None and cur[0] is not None and cur[0] in killed:
        st["fl"] = (None, dict(enumerate(sorted(set(cur[1].values())))))      # outcomes stay valid, the link does not


def run(f, entry_sets, kmax=KMAX, load_hook=None):
    """f: x86.Func; entry_sets: {reg64: iterable of ints}.  Returns Result."""
    res = Result()
    init = {"r": {r: frozenset(v) for r, v in entry_sets.items()}, "fl": None}
    states = {f.entry: init}
    work = [f.entry]
    feasible = set()
    while work:
        b = work.pop()
        res.iters += 1
        if res.iters > 200000:
            raise RuntimeError("valset fixpoint did not converge in %s" % f.name)
        s0 = states[b]
        st = {"r": dict(s0["r"]), "fl": s0["fl"]}
        res.reached.add(b)
        ins = f.blocks[b]
        for i in ins:
            step(i, st, load_hook)
        last = ins[-1]
        succs = f.succ.get(b, [])
        for s in succs:
            ns = {"r": dict(st["r"]), "fl": st["fl"]}
            if last.is_cond() and len(last.ops) >= 2 and st["fl"] is not None and len(set(succs)) == 2:
                cc = last.imm(1)
                tgt = last.branch_target()
                if tgt is not None and tgt != last.next:
                    want = (s == tgt)
                    linked, outcomes = st["fl"]
                    keep = {}
                    undecided = False
                    for k, fl in outcomes.items():
                        h = cond_holds(cc, fl)
                        if h is None:
                            undecided = True
                            keep[k] = fl
                        elif h == want:
                            keep[k] = fl
                    if not keep:
                        continue              # infeasible edge under the entry assumption
                    if not undecided:
                        if linked is not None and linked in ns["r"]:
                            ns["r"][linked] = frozenset(v for v in ns["r"][linked] if v in keep)
                        ns["fl"] = (linked, keep)
            feasible.add((b, s))
            old = states.get(s)
            if old is None:
                states[s] = ns
                work.append(s)
                continue
            changed = False
            jr = {}
            for r, v in old["r"].items():
                w = ns["r"].get(r)
                if w is None:
                    changed = True
                    continue
                u = v | w
                if len(u) > kmax:
                    changed = True
                    continue
                if u != v:
                    changed = True
                jr[r] = u
            jf = old["fl"]
            if jf is not None and jf != ns["fl"]:
                jf2 = None
                if ns["fl"] is not None and jf[0] == ns["fl"][0] and jf[0] is not None:
                    m = dict(jf[1])
                    ok = True
                    for k, v in ns["fl"][1].items():
                        if k in m and m[k] != v:
                            ok = False
                        m[k] = v
                    if ok:
                        jf2 = (jf[0], m)
                elif ns["fl"] is not None and jf[0] is None and ns["fl"][0] is None:
                    jf2 = (None, dict(enumerate(sorted(set(jf[1].values()) | set(ns["fl"][1].values())))))
                if jf2 != jf:
                    changed = True
                jf = jf2
            if changed:
                states[s] = {"r": jr, "fl": jf}
                if s not in work:
                    work.append(s)
    for b in res.reached:
        last = f.blocks[b][-1]
        for s in f.succ.get(b, []):
            if (b, s) not in feasible:
                res.dead_edges.add((b, s))
                if last.is_cond():
                    res.decided.append((last.addr, last.text.strip(), "fall" if s == last.branch_target() else "taken"))
    res.states = states
    return res
