"""AES round typestate on the length skeleton (DESIGN part IV; C02 R02.9, C03 R03.6, C04 R04.7 / R04.8).

"The right ciphertext" is arithmetic; that every block passes through the whitening and then through rounds
1..Nr with the round keys in order, and is stored only after the last round, is a typestate that can be followed
instruction by instruction on the path a length selects (lib/lenrun.py).  Each 128-bit lane of each vector
register (and each 16-byte granule of the own frame) carries

    state   None            nothing of the cipher applied yet
            (tag, k)        k rounds of the schedule behind pointer `tag` applied (k = 0: whitened)
            "done"          the last round applied (sticky under further xors: chaining, tweaks, CTR data)
            "dd"            made from finished blocks by something other than xor (stealing shuffles, the encrypted
                            tweak times alpha): acceptable as output, plain as input of a further encryption
            BOT             the engine lost track - anything derived from it is not judged
    rk      the round keys xored in since the last round instruction, as a set of (tag, index); a register
            loaded from `tag + 16 r` is (None, {(tag, r)})
    data    which 16-byte blocks of the input (and the IV) the value depends on - an over-approximating union,
            used only for presence demands (CBC chaining)

A round instruction `aesenc state, key` demands: key carries exactly one round key (tag, r); the state lane is
(tag, r-1), or un-processed data whitened with (tag, 0) when r = 1; the *last forms demand r = Nr.  A mismatch
with both sides known is a violation; anything unknown makes the result BOT.  Stores through the output pointer
must be "done".  Imprecision therefore only loses judgements.
"""
import re

import lenrun
from x86 import PARENT
from ghash import VEC, LANEWISE, nlanes, vkey

BOT = "BOT"
E = frozenset()
PLAIN = (None, E, E)
BOTV = (BOT, E, E)
XORS = re.compile(r"^V?(PXOR|PXORQ|PXORD|XORPS|XORPD)(\d|Y|Z|r|m|$)")


def xor_vals(vals):
    states = [v[0] for v in vals if v[0] is not None]
    rk = E
    data = E
    for v in vals:
        rk = rk ^ v[1]
        data = data | v[2]
    if not states:
        st = None
    elif BOT in states:
        st = BOT
    elif all(s in ("done", "dd") for s in states):
        st = "dd" if ("dd" in states or len(states) > 1) else "done"
    else:
        st = BOT          # a mid-round value is xored with something: not a form this engine follows
    if st in ("done", "dd") and rk:
        # a finished block xored with a round key is the input of the next encryption (CBC chaining: c[j-1] ^ p[j] ^ rk0)
        st = None
    return (st, rk, data)


def other_vals(vals):
    """Any non-xor, non-round operation: plain stays plain; anything made from finished blocks (byte shuffles for
    ciphertext stealing, the encrypted tweak multiplied by alpha) is "dd" - derived from done: acceptable as output,
    plain as the input of a further encryption; a mid-round value or a value holding key material is lost."""
    data = E
    for v in vals:
        data = data | v[2]
    if any(v[0] not in (None, "done", "dd") or v[1] for v in vals):
        return (BOT, E, data)
    if any(v[0] in ("done", "dd") for v in vals):
        return ("dd", E, data)
    return (None, E, data)


class AesMachine(lenrun.Machine):
    def __init__(self, lib, f, entry, nr, key_tags, in_tag="in", out_tag="out", iv_tag=None, mem_hook=None, decrypt=False, carried_done=None, budget=800000):
        lenrun.Machine.__init__(self, lib, f, entry, mem_hook=mem_hook, budget=budget)
        self.nr = nr
        self.key_tags = set(key_tags)
        self.in_tag, self.out_tag, self.iv_tag = in_tag, out_tag, iv_tag
        self.vregs = {}
        self.vmem = {}
        self.viol = []           # (ins, message)
        self.rounds_ok = 0
        self.rounds_unk = 0
        self.out_stores = []     # (off, size, lanes)
        self.finals = 0
        self.carried_done = carried_done     # (tag, offset) of a 16-byte field that holds a finished block from an earlier call

    # ---- memory
    def mget16(self, a):
        if a is None or a[0] != "p":
            return BOTV
        tag, lo = a[1], a[2]
        if tag in self.key_tags:
            if lo % 16 == 0 and 0 <= lo <= 16 * self.nr:
                return (None, frozenset([(tag, lo // 16)]), E)
            return PLAIN if lo > 16 * self.nr else BOTV
        if tag == self.in_tag:
            return (None, E, frozenset(("D", k) for k in range(lo // 16, (lo + 15) // 16 + 1)))
        if tag == self.iv_tag:
            return (None, E, frozenset(["IV"]))
        if tag == self.out_tag:
            return BOTV
        ents = self.vmem.get(tag)
        if self.carried_done and tag == self.carried_done[0] and lo == self.carried_done[1] and not (ents and lo in ents):
            return ("done", E, E)
        if ents is not None:
            v = ents.get(lo)
            if v is not None:
                return v
            for l2 in ents:
                if l2 < lo + 16 and lo < l2 + 16:
                    return (BOT, E, ents[l2][2])
        return PLAIN

    def mput16(self, a, v):
        if a is None or a[0] != "p":
            return
        tag, lo = a[1], a[2]
        if tag in (self.in_tag, "rip") or tag.startswith("data:") or tag in self.key_tags:
            return
        ents = self.vmem.setdefault(tag, {})
        for l2 in list(ents):
            if l2 != lo and l2 < lo + 16 and lo < l2 + 16:
                ents[l2] = (BOT, E, ents[l2][2] | v[2])
        ents[lo] = v

    def lanes_of(self, reg):
        return self.vregs.get(vkey(reg)) or [PLAIN] * 4

    def setv(self, reg, lanes, vex=True):
        k = vkey(reg)
        old = self.vregs.get(k) or [PLAIN] * 4
        new = list(old)
        for j, s in enumerate(lanes[:4]):
            new[j] = s
        if vex:
            for j in range(len(lanes), 4):
                new[j] = PLAIN
        self.vregs[k] = new

    def step(self, i):
        try:
            self.vstep(i)
        finally:
            lenrun.Machine.step(self, i)

    def vstep(self, i):
        op = i.op
        if not any(o[0] == "r" and VEC.match(o[1] or "") for o in i.ops):
            if self.gpr_tweak(i):
                return
            # scalar stores into a tracked granule spoil it
            if i.mem >= 0 and i.writes_mem_operand() and i.mem + 5 <= len(i.ops):
                a = self.addr(i)
                if a is not None and a[0] == "p" and a[1] in self.vmem:
                    sz = i.memsize() or 8
                    for l2 in list(self.vmem[a[1]]):
                        if l2 < a[2] + sz and a[2] < l2 + 16:
                            self.vmem[a[1]][l2] = other_vals([self.vmem[a[1]][l2], PLAIN])
            return
        size = i.memsize() if i.mem >= 0 else None
        a = self.addr(i) if (i.mem >= 0 and i.mem + 5 <= len(i.ops)) else None
        defs = list(i.explicit_defs())
        vdefs = [d for d in defs if VEC.match(d)]
        uses = i.reg_uses_nomem()
        vuses = [u for u in uses if VEC.match(u)]
        guse = any(u in PARENT for u in uses)
        reads = i.mem >= 0 and i.reads_mem_operand()
        writes = i.mem >= 0 and i.writes_mem_operand()
        masked = bool(re.search(r"k$|kz$", op))
        # ---- stores
        if writes and not vdefs:
            if not vuses:
                return
            src = vuses[-1] if not op.startswith(("VEXTRACT", "VPEXTR", "PEXTR")) else vuses[0]
            L = self.lanes_of(src)
            if op.startswith("VEXTRACT"):
                im = [o[1] for o in i.ops if o[0] == "i"]
                sel = im[-1] if im else 0
                L = (L[2:4] if sel & 1 else L[0:2]) if "64x4" in op.lower() else [L[sel & 3]]
            n = max(1, (size or 16) // 16)
            if a is not None and a[0] == "p" and a[1] == self.out_tag:
                self.out_stores.append((i, a[2], size or 16, list(L[:n]), masked))
                return
            if (size or 16) < 16 or a is None or a[0] != "p":
                if a is not None and a[0] == "p":
                    self.mput16(a, other_vals([L[0]]))
                return
            for j in range(n):
                v = L[j] if j < len(L) else PLAIN
                self.mput16(("p", a[1], a[2] + 16 * j), v if not masked else other_vals([v, self.mget16(("p", a[1], a[2] + 16 * j))]))
            return
        if not vdefs:
            # a tweak half that travels from a vector register into a general register (movq / pextrq)
            if i.mem < 0 and re.match(r"^V?(MOVPQIto64|PEXTRQ|MOVPQI2QI)", op) and vuses:
                gd = [PARENT[x] for x in defs if x in PARENT]
                e = self.tw_exp(self.lanes_of(vuses[0])[0])
                gtab = self.__dict__.setdefault("gt", {})
                for g in gd:
                    if e is not None:
                        gtab[g] = e
                    else:
                        gtab.pop(g, None)
            return
        d = vdefs[0]
        nl = nlanes(d)
        vex = op.startswith("V")
        srcl = [self.lanes_of(u) for u in vuses]
        mem_l = None
        if reads:
            n = max(1, (size or 16) // 16)
            if a is None or a[0] != "p":
                mem_l = [BOTV] * n
            elif (size or 16) < 16:
                v = self.mget16(("p", a[1], a[2] - a[2] % 16)) if a[1] not in (self.in_tag, self.iv_tag) else self.mget16(a)
                mem_l = [other_vals([v])]
            else:
                mem_l = [self.mget16(("p", a[1], a[2] + 16 * j)) for j in range(n)]
        # zero idioms
        if i.mem < 0 and XORS.match(op) and len(vuses) == 2 and vuses[0] == vuses[1]:
            self.setv(d, [PLAIN] * nl, vex=vex)
            return
        m_aes = re.match(r"^V?AES(ENC|DEC)(LAST)?", op)
        if m_aes and "KEYGEN" not in op and "IMC" not in op:
            last = bool(m_aes.group(2))
            st_l = srcl[0] if srcl else [BOTV] * 4
            key_l = (mem_l + [BOTV] * 4) if mem_l is not None else (srcl[1] if len(srcl) > 1 else [BOTV] * 4)
            new = []
            for j in range(nl):
                s, k = st_l[j], key_l[j]
                ks = [x for x in k[1]]
                if s[0] == BOT or k[0] not in (None,) or len(ks) != 1 or not isinstance(ks[0], tuple):
                    self.rounds_unk += 1
                    new.append((BOT, E, s[2]))
                    continue
                tag, r = ks[0]
                if s[0] is None or (s[0] == "dd" and not s[1]):
                    if s[0] is None and s[1] == frozenset([(tag, 0)]):
                        cur = 0
                    elif not s[1]:
                        self.viol.append((i, "a round instruction with round key %d is applied to a value that was never xored with round key 0 (no whitening)" % r))
                        new.append((BOT, E, s[2]))
                        continue
                    else:
                        self.rounds_unk += 1
                        new.append((BOT, E, s[2]))
                        continue
                elif s[0] == "done":
                    self.viol.append((i, "a round instruction with round key %d is applied to a block that already went through the last round" % r))
                    new.append((BOT, E, s[2]))
                    continue
                else:
                    if s[0][0] != tag or s[1]:
                        self.rounds_unk += 1
                        new.append((BOT, E, s[2]))
                        continue
                    cur = s[0][1]
                want = cur + 1
                if r != want or (last and r != self.nr) or (not last and r >= self.nr):
                    self.viol.append((i, "after %d round(s) the block meets round key %d with `%s` (%d rounds in this cipher): round %d with round key %d is due%s" % (
                        cur, r, op.lower().split("r")[0] if False else i.text.strip().split()[0], self.nr, want, want, ", as the last-round form" if want == self.nr else "")))
                    new.append((BOT, E, s[2]))
                    continue
                self.rounds_ok += 1
                new.append(("done" if last else (tag, r), E, s[2] | k[2]))
            self.setv(d, new, vex=vex)
            return
        if op.startswith(("VBROADCAST", "VPBROADCAST")):
            v = mem_l[0] if mem_l is not None else (srcl[0][0] if srcl else (PLAIN if guse else BOTV))
            self.setv(d, [v] * nl, vex=True)
            return
        if op.startswith("VEXTRACT") and i.mem < 0 and srcl:
            im = [o[1] for o in i.ops if o[0] == "i"]
            sel = im[-1] if im else 0
            L = srcl[0]
            self.setv(d, (L[2:4] if sel & 1 else L[0:2]) if "64x4" in op.lower() else [L[sel & 3]], vex=True)
            return
        if op.startswith(("VINSERTI64x2", "VINSERTI32x4", "VINSERTF")):
            im = [o[1] for o in i.ops if o[0] == "i"]
            sel = (im[-1] if im else 0) & (3 if nl == 4 else 1)
            base = (list(srcl[0]) + [PLAIN] * 4)[:4] if srcl else [PLAIN] * 4
            base[sel] = mem_l[0] if mem_l is not None else (srcl[1][0] if len(srcl) > 1 else BOTV)
            self.setv(d, base[:nl], vex=True)
            return
        if op.startswith(("VSHUFI64X2", "VSHUFF64X2", "VSHUFI32X4")) and not masked:
            im = [o[1] for o in i.ops if o[0] == "i"]
            sel = im[-1] if im else 0
            s1 = srcl[0] if srcl else [BOTV] * 4
            s2 = srcl[1] if len(srcl) > 1 else ((mem_l + [BOTV] * 4) if mem_l is not None else s1)
            new = [s1[sel & 3], s1[(sel >> 2) & 3], s2[(sel >> 4) & 3], s2[(sel >> 6) & 3]] if nl == 4 else [s1[sel & 1], s2[(sel >> 1) & 1]]
            self.setv(d, new, vex=True)
            return
        # a tweak half that travels from a general register straight into a vector register (movq / pinsrq)
        gtags = self.__dict__.get("gt", {})
        gsrc = [gtags[PARENT[u]] for u in uses if u in PARENT and PARENT[u] in gtags]
        if gsrc and i.mem < 0 and re.match(r"^V?(MOV64toPQI|MOVQI2PQI|PINSRQ|MOVDI2PDI)", op):
            base = srcl[0][0] if (srcl and "PINSR" in op) else PLAIN
            data = frozenset(base[2]) | frozenset(("TW", e) for e in gsrc)
            st_ = "dd" if base[0] in (None, "dd", "done") and not base[1] else BOT
            self.setv(d, [(st_, E, data)], vex=vex)
            return
        if op.startswith(("VALIGNQ", "VALIGND")) and len(srcl) >= 2 and i.mem < 0 and not masked:
            im = [o[1] for o in i.ops if o[0] == "i"]
            sh = (im[-1] if im else 0)
            per = 2 if op.startswith("VALIGNQ") else 4
            cat = list(srcl[1][:nl]) + list(srcl[0][:nl])          # low part first
            new = []
            for j in range(nl):
                lo_el = j * per + sh
                parts = {lo_el // per, (lo_el + per - 1) // per}
                vals = [cat[q] for q in sorted(parts) if q < len(cat)]
                if len(vals) == 1:
                    new.append(vals[0])
                else:
                    ov = other_vals(vals or [PLAIN])
                    new.append(ov)
            self.setv(d, new, vex=True)
            return
        # right shifts of a tweak: either the extraction of the bits that a left shift pushes out (a fragment of the same
        # product) or - where decryption needs the previous tweak - a division by alpha^c.  Both are covered by giving
        # the result the exponent e - c: for a fragment that symbol is spurious, and only presence is ever demanded.
        mrs = re.match(r"^V?(PSRLVQ|PSRLDQ|PSRLQ|PSRAQ|PSHRDQ|PSHRDVQ)", op)
        if mrs and srcl:
            kind = mrs.group(1)
            im = [o[1] for o in i.ops if o[0] == "i"]
            counts = None
            if kind == "PSRLVQ" and mem_l is not None and a is not None and a[0] == "p" and isinstance(a[1], str) and a[1].startswith("data:"):
                b_ = self.f.obj.initial_bytes(int(a[1][5:]), a[2], 16 * nl)
                if b_ is not None and len(b_) == 16 * nl:
                    counts = []
                    for j in range(nl):
                        q0 = int.from_bytes(b_[16 * j:16 * j + 8], "little")
                        q1 = int.from_bytes(b_[16 * j + 8:16 * j + 16], "little")
                        counts.append(q0 if q0 == q1 else None)
            elif kind in ("PSRLDQ", "PSRLQ", "PSRAQ", "PSHRDQ") and im and i.mem < 0:
                counts = [(im[-1] * 8 if kind == "PSRLDQ" else im[-1])] * nl
            new = []
            for j in range(nl):
                vals = [L[j] for L in srcl]
                c = counts[j] if counts is not None else None
                data = set()
                for v in vals:
                    for x in v[2]:
                        if x == "IV" or (isinstance(x, tuple) and x[0] == "TW"):
                            e = 0 if x == "IV" else x[1]
                            if c is None or e == "*":
                                data.add(("TW", "*"))
                            elif e - c >= 0:             # a negative exponent is a carry fragment: never a tweak anyone asks for
                                data.add(("TW", e - c))
                        else:
                            data.add(x)
                ov = other_vals(vals)
                new.append((ov[0], E, frozenset(data)))
            self.setv(d, new, vex=vex)
            return
        # XTS tweaks computed with vector shifts (VAES bodies): a left shift by c bits multiplies the tweak by alpha^c
        msh = re.match(r"^V?(PSLLVQ|PSLLDQ|PSLLQ)", op)
        if msh and srcl:
            kind = msh.group(1)
            counts = None
            if kind == "PSLLVQ":
                if mem_l is not None and a is not None and a[0] == "p" and isinstance(a[1], str) and a[1].startswith("data:"):
                    b = self.f.obj.initial_bytes(int(a[1][5:]), a[2], 16 * nl)
                    if b is not None and len(b) == 16 * nl:
                        cs = []
                        for j in range(nl):
                            q0 = int.from_bytes(b[16 * j:16 * j + 8], "little")
                            q1 = int.from_bytes(b[16 * j + 8:16 * j + 16], "little")
                            cs.append(q0 if q0 == q1 else None)
                        counts = cs
            else:
                im = [o[1] for o in i.ops if o[0] == "i"]
                if im and i.mem < 0:
                    counts = [(im[-1] * 8 if kind == "PSLLDQ" else im[-1])] * nl
            src0 = srcl[0]
            new = []
            for j in range(nl):
                v = src0[j]
                c = counts[j] if counts is not None else None
                data = set()
                for x in v[2]:
                    if x == "IV" or (isinstance(x, tuple) and x[0] == "TW"):
                        e = 0 if x == "IV" else x[1]
                        data.add(("TW", e + c) if (c is not None and e != "*") else ("TW", "*"))
                        if kind == "PSLLDQ" and c != 8:
                            data.add(("TW", e))         # a byte shift by more than one byte may be data movement, not a product
                    else:
                        data.add(x)
                ov = other_vals([v])
                new.append((ov[0], E, frozenset(data)))
            self.setv(d, new, vex=vex)
            return
        is_mov = re.match(r"^V?(MOVDQ[AU]|MOVAPS|MOVUPS|MOVDQA|MOVDQU)", op) is not None
        is_xor = XORS.match(op) is not None or (op.startswith("VPTERNLOG") and [o[1] for o in i.ops if o[0] == "i"][-1:] == [0x96])
        if LANEWISE.match(op) or is_xor:
            new = []
            old = self.lanes_of(d)
            for j in range(nl):
                vals = [L[j] for L in srcl]
                if mem_l is not None and j < len(mem_l):
                    vals.append(mem_l[j])
                elif mem_l is not None:
                    vals.append(PLAIN)
                if is_mov and len(vals) == 1 and not masked:
                    v = vals[0]
                elif is_mov and masked:
                    v = other_vals(vals + [old[j]])
                elif is_xor:
                    v = xor_vals(vals)
                    if masked:
                        v = other_vals([v, old[j]])
                else:
                    v = other_vals(vals + ([PLAIN] if guse else []))
                new.append(v)
            self.setv(d, new, vex=vex)
            return
        # anything else: every lane may depend on every lane of every source
        allv = [x for L in srcl for x in L] + (mem_l or [])
        self.setv(d, [other_vals(allv or [PLAIN])] * nl, vex=vex)

    # ---- XTS tweak sequence: the tweak is multiplied by alpha in a pair of general registers (shl / adc / cmovc / xor)
    # and written back to the frame in two halves; the exponent of alpha travels with it
    @staticmethod
    def tw_exp(v):
        es = {x[1] for x in v[2] if isinstance(x, tuple) and x[0] == "TW"}
        if "IV" in v[2]:
            es.add(0)
        return next(iter(es)) if len(es) == 1 else None

    def gpr_tweak(self, i):
        op = i.op
        gt = self.__dict__.setdefault("gt", {})
        half = self.__dict__.setdefault("tw_half", {})
        if i.mem >= 0 and i.mem + 5 <= len(i.ops):
            a = self.addr(i)
            onstack = a is not None and a[0] == "p" and (a[1] == "sp" or a[1].startswith("fr"))
            al = 0
            if onstack:
                ks = list(self.vmem.get(a[1], {}))
                al = (ks[0] % 16) if ks else 0          # 16-byte granules sit where the vector stores put them
            if op == "MOV64rm" and onstack and (a[2] - al) % 8 == 0:
                v = self.vmem.get(a[1], {}).get(a[2] - (a[2] - al) % 16)
                e = self.tw_exp(v) if v is not None else None
                d = PARENT.get(i.reg(0))
                if e is not None:
                    gt[d] = e
                else:
                    gt.pop(d, None)
                return False
            if op == "MOV64mr" and onstack and (a[2] - al) % 8 == 0:
                src = i.ops[i.mem + 5][1] if i.mem + 5 < len(i.ops) else None
                e = gt.get(PARENT.get(src))
                if e is None:
                    half.pop((a[1], a[2]), None)
                    return False
                half[(a[1], a[2])] = e
                base = a[2] - (a[2] - al) % 16
                if half.get((a[1], base)) == e and half.get((a[1], base + 8)) == e:
                    self.vmem.setdefault(a[1], {})[base] = ("dd", E, frozenset([("TW", e)]))
                else:
                    self.vmem.setdefault(a[1], {})[base] = (BOT, E, E)
                return True
        defs = [PARENT.get(d) for d in list(i.explicit_defs()) + list(i.idefs) if d in PARENT]
        new = {}
        wflags = "EFLAGS" in i.idefs or "EFLAGS" in i.explicit_defs()
        cf_from = self.__dict__.get("tw_cf")
        if i.mem < 0:
            if op in ("SHL64r1",) or (op == "SHL64ri" and i.imm(2) == 1) or (op == "ADD64rr" and i.reg(1) == i.reg(2)):
                r = PARENT.get(i.reg(0))
                if r in gt:
                    new[r] = gt[r] + 1
                    self.tw_cf = gt[r]           # CF now holds the bit shifted out of a tweak half at this exponent
                    wflags = False
            elif op == "ADC64rr" and i.reg(1) == i.reg(2):
                r = PARENT.get(i.reg(0))
                if r in gt:
                    new[r] = gt[r] + 1
                    if cf_from != gt[r]:
                        self.viol.append((i, "the high half of the tweak is doubled with a carry flag that does not come from the shift of its low half (an instruction in between rewrote the flags): the bit that moves from the low to the high half is lost"))
                    self.tw_cf = None
                    wflags = False
            elif (op.startswith("SHRD64rri") and (i.imm(len(i.ops) - 1) == 1)) or op == "SHR64r1" or (op == "SHR64ri" and i.imm(2) == 1):
                # division by alpha in general registers (the previous tweak, for the stolen block when decrypting)
                r = PARENT.get(i.reg(0))
                if r in gt and gt[r] >= 1:
                    new[r] = gt[r] - 1
            elif op in ("XOR64ri8", "XOR64ri32", "AND64ri8", "AND64ri32", "OR64ri8", "OR64ri32") or op.startswith(("CMOV64rr", "NEG64r", "SAR64r", "SBB64rr")):
                # the conditional reduction constant (xor 0x87 / mask built from the carry) leaves the exponent alone
                r = PARENT.get(i.reg(0))
                if r in gt and op.startswith(("XOR64ri", "AND64ri", "OR64ri")) and op.startswith("XOR64ri"):
                    new[r] = gt[r]
            elif op == "XOR64rr" and i.reg(1) != i.reg(2):
                r = PARENT.get(i.reg(0))
                if r in gt and PARENT.get(i.reg(2)) not in gt:
                    new[r] = gt[r]
            elif op == "MOV64rr":
                if PARENT.get(i.reg(1)) in gt:
                    new[PARENT.get(i.reg(0))] = gt[PARENT.get(i.reg(1))]
        if wflags:
            self.tw_cf = None
        uses_ = {PARENT.get(u) for u in i.reg_uses_nomem() if u in PARENT}
        for d in defs:
            if d in gt and d not in new:
                if d in uses_ and not op.startswith(("MOV", "CMP", "TEST")):
                    # a tweak half is transformed by an instruction this engine has no rule for: whatever is derived
                    # from it is not judged (no verdict rather than a wrong one)
                    self.tw_unmodelled = self.__dict__.get("tw_unmodelled", 0) + 1
                del gt[d]
        gt.update(new)
        return False

    def snap(self):
        return (lenrun.Machine.snap(self), {k: list(v) for k, v in self.vregs.items()}, {t: dict(e) for t, e in self.vmem.items()}, dict(self.__dict__.get("gt", {})), dict(self.__dict__.get("tw_half", {})))

    def restore(self, t):
        lenrun.Machine.restore(self, t[0])
        self.vregs = {k: list(v) for k, v in t[1].items()}
        self.vmem = {k: dict(e) for k, e in t[2].items()}
        self.gt = dict(t[3])
        self.tw_half = dict(t[4])

    def on_ret(self, i):
        self.finals += 1

    def _key(self, blk):
        base = lenrun.Machine._key(self, blk)

        def kv(v):
            return (repr(v[0]), tuple(sorted(map(repr, v[1]))), tuple(sorted(map(repr, v[2]))))
        return (base, tuple(sorted((k, tuple(kv(x) for x in v)) for k, v in self.vregs.items())),
                tuple(sorted((t, tuple(sorted((l, kv(v)) for l, v in e.items()))) for t, e in self.vmem.items())))


# ---- driver shared by rules/c02.py, c03.py, c04.py
ARGREGS = ["RDI", "RSI", "RDX", "RCX", "R8", "R9"]
KEYNAMES = ("keys", "key_data", "k1", "k2")
LENNAMES = ("len", "len_bytes", "N")


def run_body(lib, f, sig, nr, L, pb=0, pboff=None, aad_len=20, ctx_tag="context_data", carried_done=None, cls=None):
    entry = {}
    sargs = {}
    names = []
    for k, sg in enumerate(sig):
        if sg is None:
            continue
        isptr = "*" in (sg[2] or "")
        nm = sg[0] or ("arg%d" % k)
        names.append(nm)
        v = ("p", nm, 0) if isptr else (L if nm in LENNAMES else 16 if nm == "auth_tag_len" else aad_len if nm == "aad_len" else None)
        if k < 6:
            entry[ARGREGS[k]] = v
        else:
            sargs[8 + 8 * (k - 6)] = v

    def hook(i, a, size):
        if a[0] == "p" and a[1] == "sp" and a[2] in sargs and size == 8:
            return sargs[a[2]]
        if pboff is not None and a[0] == "p" and a[1] == ctx_tag and a[2] == pboff and size == 8:
            return pb
        return None
    keytags = [n for n in names if n in KEYNAMES]
    iv = "iv" if "iv" in names else ("initial_tweak" if "initial_tweak" in names else None)
    m = (cls or AesMachine)(lib, f, entry, nr, keytags, in_tag="in", out_tag="out", iv_tag=iv, mem_hook=hook, carried_done=carried_done)
    m.result = m.run()
    return m


def judge(m, chain=None):
    """(violation message or None, judged out-store lanes, unjudged out-store lanes).  chain: None, 'cbc-dec' or 'cbc-enc'."""
    if m.viol:
        i, msg = m.viol[0]
        return (i, "`%s`: %s" % (i.text.strip(), msg)), 0, 0
    nj = nu = 0
    for (i, off, size, lanes, masked) in m.out_stores:
        for j, v in enumerate(lanes):
            if v[0] == BOT:
                nu += 1
                continue
            nj += 1
            if v[0] not in ("done", "dd"):
                what = "before any round" if v[0] is None else "after %d of %d rounds" % (v[0][1], m.nr)
                return (i, "`%s` stores bytes %d..%d of the output %s" % (i.text.strip(), off + 16 * j, off + 16 * j + min(15, size - 1), what)), nj, nu
            if chain and size >= 16:
                blk = off // 16 + j
                want = [("D", blk), ("D", blk - 1) if blk > 0 else "IV"]
                for w in want:
                    if w not in v[2]:
                        return (i, "`%s`: output block %d does not depend on %s (CBC chains every block with the previous ciphertext block, the first with the IV)" % (
                            i.text.strip(), blk, "the IV" if w == "IV" else "input block %d" % w[1])), nj, nu
    return None, nj, nu


def judge_tweaks(m, L, decrypt):
    """XTS tweak sequence on the stores through out: block j carries tweak T*alpha^j; with r = L mod 16 != 0 the last
    full position (m-1) carries alpha^m when encrypting / alpha^(m-1) when decrypting, and the r tail bytes (the
    store that starts at 16(m-1)+r) the other one.  Only the last store to each position counts (the VAES bodies
    write position m-1 twice).  Presence only.  Returns (ins, message) or None, judged count."""
    nblk, r = L // 16, L % 16
    if m.__dict__.get("tw_unmodelled"):
        return None, 0
    final = {}
    for (i, off, size, lanes, masked) in m.out_stores:
        if size < 16 or masked:
            continue
        for k, v in enumerate(lanes[:max(1, size // 16)]):
            o = off + 16 * k
            if o % 16 and size != 16:
                continue
            final[o] = (i, v)
    n = 0
    for o in sorted(final):
        i, v = final[o]
        have = {x[1] for x in v[2] if isinstance(x, tuple) and x[0] == "TW"} | ({0} if "IV" in v[2] else set())
        if o % 16 == 0:
            j = o // 16
            if r and j == nblk - 1:
                want = nblk - 1 if decrypt else nblk
            elif j < nblk:
                want = j
            else:
                continue
            what = "output block %d" % j
        else:
            if not r or o != 16 * (nblk - 1) + r:
                continue
            want = nblk if decrypt else nblk - 1
            what = "the %d trailing byte(s)" % r
        if not have:
            continue            # no tweak symbol reached this value at all: the engine lost it; not judged
        n += 1
        if want not in have and "*" not in have:
            return (i, "`%s`: %s must be processed with the tweak multiplied by alpha^%d; the value stored depends on alpha^%s" % (
                i.text.strip(), what, want, "{" + ", ".join(map(str, sorted(have, key=str))) + "}")), n
    return None, n
