"""Hit-index rule for the rolling-hash scan loops (C09 R09.8): path-sensitive linear forms over the object code.

Every entry->return path (a block at most twice) is executed over the symbolic linear forms of lib/inplace.py -
no joins, so the position counter stays one opaque symbol plus a constant.  A register loaded with a byte of the
incoming stream carries that byte's index form; the byte is consumed where the register indexes table t1.  On each
path the index of the last consumed byte is compared with the value finally stored through the idx pointer: equal when the path leaves through the "hit" edge of the last trigger compare, one more when it leaves
because the bound was reached."""
import absint
import inplace
from x86 import PARENT


def _flat(v):
    rs = absint.roots(v)
    out = set()
    for r in rs or ():
        if isinstance(r, str):
            out.add(r)
        elif isinstance(r, tuple) and r and r[0] == "ld":
            out |= {x for x in r[1] if isinstance(x, str)}
    return out


def paths(f, bound=1, limit=5000):
    out = []
    st = [(f.entry, (f.entry,))]
    while st:
        b, p = st.pop()
        ss = f.succ.get(b, [])
        if not ss:
            out.append(p)
            if len(out) > limit:
                raise RuntimeError("too many paths in %s" % f.name)
            continue
        for s in ss:
            if p.count(s) > bound:
                continue
            st.append((s, p + (s,)))
    return out


def analyse(f, p1, stream_reg="R8", idx_reg="RDI", table_reg="RDX", is_trigger_cmp=None):
    """[(path, kind, I form, S form, load ins, store ins)] with kind in {'hit','bound','?'}; trigger compares are
    recognised by is_trigger_cmp(ins)."""
    res = []
    mismatches = {}
    ncmp = 0
    for p in paths(f):
        dom = {}
        st = {r: inplace.lf_sym(("in", r)) for r in inplace.G64}
        btag = {}
        last_load = None
        last_kind = None
        stored = None
        for k, b in enumerate(p):
            bl = f.blocks[b]
            pending_cmp = None
            for i in bl:
                newtag = None
                if i.mem < 0 and i.op in ("MOV64rr", "MOV32rr") and PARENT.get(i.reg(1)) in btag:
                    newtag = (PARENT.get(i.reg(0)), btag[PARENT.get(i.reg(1))])
                if i.mem >= 0 and not i.op.startswith(("LEA", "PREFETCH")):
                    m = p1.maddr.get(i.addr)
                    if m:
                        a = inplace.addr_form(i, st)
                        if i.reads_mem_operand() and (i.memsize() or 0) == 1 and stream_reg in _flat(m[0]) and a is not None and i.op.startswith("MOVZX"):
                            newtag = (PARENT.get(i.reg(0)), (inplace.lf_add(a, inplace.lf_sym(("in", stream_reg)), -1), i))
                        if i.reads_mem_operand() and table_reg in _flat(m[0]) and (i.memsize() or 0) == 8:
                            mo = i.memop()
                            ix = PARENT.get(mo[2]) if mo and mo[2] else None
                            bs = PARENT.get(mo[0]) if mo and mo[0] else None
                            tg = btag.get(ix) or btag.get(bs)
                            if tg is not None:
                                last_load = tg
                                last_kind = None
                            else:
                                last_load = ("unknown", i)
                        if i.writes_mem_operand() and m[0] == ("init", idx_reg, 0) and not m[1]:
                            src = i.ops[i.mem + 5] if i.mem + 5 < len(i.ops) else None
                            r = PARENT.get(src[1]) if src and src[0] == "r" else None
                            stored = (st.get(r) if r else None, i)
                if is_trigger_cmp(i):
                    pending_cmp = i
                    if i.op.startswith("CMP"):
                        ncmp += 1
                        rs_ = [PARENT.get(u) for u in i.reg_uses_nomem() if u in PARENT] if i.mem < 0 else [PARENT.get(i.reg(0))] if i.reg(0) else []
                        ds = [dom.get(r_) == "pext" for r_ in rs_]
                        if i.mem >= 0:
                            ds.append(False)
                        if any(ds) and not all(ds):
                            mismatches.setdefault(i.addr, (i, p))
                elif pending_cmp is not None and "EFLAGS" in i.idefs and not i.is_cond():
                    pending_cmp = None
                if i.is_cond() and pending_cmp is not None and k + 1 < len(p):
                    cc = i.imm(1)
                    taken = p[k + 1] == i.branch_target() and not (i.branch_target() == i.next)
                    if cc == 4:
                        last_kind = "hit" if taken else "miss"
                    elif cc == 5:
                        last_kind = "miss" if taken else "hit"
                    else:
                        last_kind = "?"
                for r_ in list(i.explicit_defs()) + list(i.idefs):
                    btag.pop(PARENT.get(r_), None)
                    dom.pop(PARENT.get(r_), None)
                if i.op.startswith("PEXT") and i.mem < 0:
                    dom[PARENT.get(i.reg(0))] = "pext"
                elif i.mem < 0 and i.op in ("MOV64rr", "MOV32rr") and PARENT.get(i.reg(1)) in dom:
                    dom[PARENT.get(i.reg(0))] = dom[PARENT.get(i.reg(1))]
                if newtag is not None and newtag[0] is not None:
                    btag[newtag[0]] = newtag[1]
                inplace.step_forms(i, st)
        res.append((p, last_kind, last_load, stored))
    return res, list(mismatches.values()), ncmp
