"""Positive controls: tiny objects under /verif/selftest that each rule with an expected count of zero on
the library must flag on every run (guards against a rule that silently matches nothing)."""
import os
import shutil
import subprocess
import tempfile

import build
import x86

VERIF = build.VERIF


def build_control(asm_name, extra_flags=()):
    """Assemble selftest/<asm_name> into a scratch dir, lift it, return (Library, tmpdir)."""
    tmp = tempfile.mkdtemp(prefix="ctl_", dir=os.path.join(build.CACHE, "tmp"))
    src = os.path.join(VERIF, "selftest", asm_name)
    obj = os.path.join(tmp, asm_name.replace(".asm", ".o"))
    subprocess.run(["nasm", "-f", "elf64", "-g", "-F", "dwarf"] + list(extra_flags) + ["-o", obj, src], check=True, cwd=build.REPO)
    lift = obj.replace(".o", ".lift")
    subprocess.run([build.X86LIFT, obj, lift], check=True)
    lib = x86.Library([{"lift": lift, "src": "selftest/" + asm_name, "kind": "asm", "obj": obj}])
    return lib, tmp


def control_c19(worker):
    os.makedirs(os.path.join(build.CACHE, "tmp"), exist_ok=True)
    lib, tmp = build_control("c19_bad.asm")
    try:
        import c19
        saved = (dict(c19._SUMM), dict(c19._RES))
        c19._SUMM.clear(); c19._RES.clear()
        r = worker(lib, "c19_bad.o", {"private": set()})
        c19._SUMM.clear(); c19._RES.clear()
        c19._SUMM.update(saved[0]); c19._RES.update(saved[1])
    finally:
        shutil.rmtree(tmp, ignore_errors=True)
    got = {(f["function"], f["rule"]) for f in r["findings"]}
    want = {("ctl_clobber_rbx", "R19.2"), ("ctl_rsp_leak", "R19.1"), ("ctl_std", "R19.3"), ("ctl_mxcsr", "R19.3"), ("ctl_fpcw", "R19.3"),
            ("ctl_smash", "R19.4"), ("ctl_join", "R19.5"), ("ctl_partial_restore", "R19.2")}
    clean = not any(f["function"] == "ctl_good" for f in r["findings"])
    return {"ok": want <= got and clean, "missing": sorted(want - got), "clean_function_silent": clean, "flagged": sorted(got)}


def control_c14():
    import absint
    import secrecy
    os.makedirs(os.path.join(build.CACHE, "tmp"), exist_ok=True)
    lib, tmp = build_control("c14_bad.asm")
    got = set()
    try:
        for key, name in lib.entry_list:
            f = lib.func(key)
            p1 = absint.Interp(lib, lambda t: absint.SYSV, keep_regs=True).run(f)
            role = lambda root: {"RDI": "key"}.get(root, "data")
            r = secrecy.SecInterp(lib, f, p1, role).run()
            if r.reg_findings:
                got.add((name, "R14.1"))
            if r.stack_findings:
                got.add((name, "R14.2"))
    finally:
        shutil.rmtree(tmp, ignore_errors=True)
    want = {("ctl_key_in_reg", "R14.1"), ("ctl_key_on_stack", "R14.2")}
    clean = not any(n == "ctl_clean" for (n, _r) in got)
    return {"ok": want <= got and clean, "missing": sorted(want - got), "clean_function_silent": clean, "flagged": sorted(got)}


def control_c20():
    import absint
    import defined
    os.makedirs(os.path.join(build.CACHE, "tmp"), exist_ok=True)
    lib, tmp = build_control("c20_bad.asm")
    got = set()
    try:
        for key, name in lib.entry_list:
            f = lib.func(key)
            p1 = absint.Interp(lib, lambda t: absint.SYSV, keep_regs="rsp").run(f)
            di = defined.DefInterp(lib, f, p1, defined.DefInterp.sysv_entry(1), lambda *a: None)
            r = di.run()
            for (i, kind, what) in r.reports:
                got.add((name, kind))
    finally:
        shutil.rmtree(tmp, ignore_errors=True)
    want = {("ctl_undef_addr", "address"), ("ctl_undef_flags", "flags"), ("ctl_undef_store", "store"), ("ctl_undef_spill", "address")}
    clean = not any(n == "ctl_partial_ok" for (n, _k) in got)
    return {"ok": want <= got and clean, "missing": sorted(want - got), "clean_function_silent": clean, "flagged": sorted(got)}
