"""'The optimiser kept it': an IR-level store that the property needs (e.g. the message bit length written into the
padding) must survive in the object code the real build produces.  The -O0 IR shows the store the source asks
for; type-punned stores (a uint64_t written into a char buffer that is then read as uint32_t words) are undefined
behaviour that -O2 may delete.  The rule: some machine instruction attributed (DWARF line table) to the source
line of the IR store - or of the memcpy that consumes the stored temporary - writes memory."""
import re

import absint
import ir
import x86


def length_sinks(M, F):
    """IR stores in F of a value derived from the message length (total_length member or a len parameter, times 8)
    into a byte buffer.  Returns [(store inst, [source lines that may carry the machine store])]."""
    out = []
    allocas_to_memcpy = {}
    for I in F.all_insts():
        if I.op == "call" and (I.callee or "").startswith(("llvm.memcpy", "memcpy", "__memcpy_chk")):
            sroot = F.ptr_root(I.ops[1])[0]
            if isinstance(sroot, ir.Inst) and sroot.op == "alloca":
                allocas_to_memcpy.setdefault(sroot.id, []).append(I)
    for I in F.all_insts():
        if I.op != "store" or I.raw.get("valty") not in ("i64", "i32"):
            continue
        e = ir.expr_str(F, I.ops[0])
        if not re.search(r"total_length|arg:(len|total_len|length)\b", e):
            continue
        if not re.search(r"mul\([^()]*(\([^()]*\))?[^()]*,8\)|shl\(.*,3\)|mul\(.*,8\)", e):
            continue
        root, off = F.ptr_root(I.ops[1])
        lines = [I.line]
        kind = None
        if isinstance(root, ir.Inst) and root.op == "alloca":
            t = root.raw.get("allocty") or ""
            if "x i8]" in t:
                kind = "local byte buffer"
            elif root.id in allocas_to_memcpy:
                kind = "temporary copied with memcpy"
                lines += [C.line for C in allocas_to_memcpy[root.id]]
        elif isinstance(root, dict) and root.get("k") == "a":
            a = F.args[root["n"]]
            if (a.get("ty") or "").startswith("i8*") or "uint8_t" in (a.get("dtype") or ""):
                kind = "byte-buffer parameter %s" % (a.get("name") or root["n"])
            else:
                fld = F.field(I.ops[1])
                if fld and fld[1] and "buffer" in fld[1][-1][1]:
                    kind = "context member %s" % fld[1][-1][1]
        if kind:
            out.append((I, sorted(set(l for l in lines if l)), kind))
    return out


def machine_stores_on_lines(obj, srcfile, lines):
    """Machine instructions of obj that write memory and are attributed to srcfile:line for a line in lines."""
    base = srcfile.split("/")[-1]
    want = set(lines)
    hits = []
    n_on = 0
    for i in obj.ins.values():
        ln = obj.line_of(i.sec, i.addr)
        if not ln:
            continue
        m = re.match(r"^(.*):(\d+)$", ln)
        if not m or int(m.group(2)) not in want or not m.group(1).endswith(base):
            continue
        n_on += 1
        if i.writes_mem_operand() or i.op.startswith(("MOVS", "STOS")):
            hits.append(i)
    return hits, n_on


ARGREGS = ["RDI", "RSI", "RDX", "RCX", "R8", "R9"]


def tainted_store_exists(lib, obj, F, store_inst, summary_of):
    """Fallback when the line table does not attribute a store to the source line (e.g. a fortified memcpy expands
    in a system header): in the object code of function F some instruction stores, to memory, a value that derives
    from the length parameter named in the IR store's value expression.  Returns (decided?, found?, detail)."""
    e = ir.expr_str(F, store_inst.ops[0])
    names = set(re.findall(r"arg:(\w+)", e))
    regs = [ARGREGS[k] for k, a in enumerate(F.args) if a.get("name") in names and k < len(ARGREGS)]
    if not regs:
        return (False, False, "the length does not come from a register parameter")
    f = lib.func_named(F.name)
    if f is None or f.obj is not obj:
        return (False, False, "function %s has no symbol of its own in %s" % (F.name, obj.name))
    ip = absint.Interp(lib, summary_of, keep_regs=True)
    r = ip.run(f)
    n = 0
    for b in f.blocks.values():
        for i in b:
            if not i.writes_mem_operand() or i.mem < 0 or i.mem + 5 >= len(i.ops):
                continue
            src = i.ops[i.mem + 5]
            if src[0] != "r" or src[1] not in x86.PARENT:
                continue
            st = r.reg_at.get(i.addr)
            if not st:
                continue
            v = st.get(x86.PARENT[src[1]])
            rs = absint.roots(v) if v is not None else None
            if rs and any(x in rs for x in regs):
                n += 1
    return (True, n > 0, "%d store(s) of a value derived from %s" % (n, "/".join(x.lower() for x in regs)))


def narrow_bit_length(F, store_inst):
    """The *8 / <<3 that turns the byte length into the bit length on the def chain of the stored value, when it is
    done in fewer than 64 bits: returns that instruction, else None."""
    seen = set()
    stack = [store_inst.ops[0]]
    while stack:
        v = stack.pop()
        I = F.resolve(v)
        if not isinstance(I, ir.Inst) or I.id in seen:
            continue
        seen.add(I.id)
        if I.op in ("mul", "shl") and len(I.ops) == 2:
            k = F.const_int(I.ops[1])
            k0 = F.const_int(I.ops[0])
            by8 = (I.op == "mul" and (k == 8 or k0 == 8)) or (I.op == "shl" and k == 3)
            if by8 and I.ty in ("i32", "i16", "i8"):
                e = ir.expr_str(F, {"k": "i", "id": I.id})
                if re.search(r"total_length|arg:(len|total_len|length)\b", e):
                    return I
        if I.op in ("load", "call", "phi") and I.op != "phi":
            continue
        ops = I.ops if I.incoming is None else [x["v"] for x in I.incoming]
        for o in ops:
            stack.append(o)
    return None
