"""Length-skeleton interpretation (DESIGN part III, C08 R08.9).

The control flow of the AES bodies depends only on their scalar arguments (len, aad_len, tag_len) and on a few
scalar context fields, never on the data.  With those scalars fixed, constant propagation with branch folding
follows exactly one path through the body: general-purpose registers hold a known 64-bit constant, a known offset
from a pointer argument / from the stack pointer, or "unknown" (everything that comes from data, keys or vector
registers).  Every memory access whose address is "pointer argument + known offset" is recorded.  If a conditional
branch (or cmov / setcc feeding an address) depends on an unknown value the run stops and that length is reported as
*not judged* - never as a violation - so imprecision can only lose coverage.

Nothing is executed: no data byte, key or vector value is ever computed; only the length arithmetic the code
itself performs (add / sub / and / shifts / lea / cmp on registers and immediates, spills to the own frame).
"""
from x86 import PARENT, WIDTH

M64 = (1 << 64) - 1


class Stop(Exception):
    pass


def _m(w):
    return (1 << w) - 1


def _flags_sub(a, b, w):
    m = _m(w)
    a &= m
    b &= m
    r = (a - b) & m
    return {"CF": a < b, "ZF": r == 0, "SF": bool(r >> (w - 1)), "OF": bool(((a ^ b) & (a ^ r)) >> (w - 1) & 1)}, r


def _flags_add(a, b, w, carry=0):
    m = _m(w)
    a &= m
    b &= m
    r = (a + b + carry) & m
    return {"CF": a + b + carry > m, "ZF": r == 0, "SF": bool(r >> (w - 1)), "OF": bool((~(a ^ b) & (a ^ r)) >> (w - 1) & 1)}, r


def _flags_logic(r, w):
    r &= _m(w)
    return {"CF": False, "ZF": r == 0, "SF": bool(r >> (w - 1)), "OF": False}


def cond(cc, fl):
    if fl is None:
        return None
    base = cc & ~1
    try:
        if base == 0:
            v = fl["OF"]
        elif base == 2:
            v = fl["CF"]
        elif base == 4:
            v = fl["ZF"]
        elif base == 6:
            v = fl["CF"] or fl["ZF"]
        elif base == 8:
            v = fl["SF"]
        elif base == 10:
            return None
        elif base == 12:
            v = fl["SF"] != fl["OF"]
        else:
            v = fl["ZF"] or (fl["SF"] != fl["OF"])
    except (KeyError, TypeError):
        return None
    if v is None:
        return None
    return (not v) if cc & 1 else v


class Run(object):
    def __init__(self):
        self.accesses = []      # (ins, tag, offset, size, 'r'|'w'|'rw', masked)
        self.steps = 0
        self.stopped = None     # reason when the run could not be followed to a return
        self.returned = False


class Machine(object):
    """regs: name -> int | ('p', tag, off) | None ; flags: dict or None ; stack: {(tag, off): value} for 8-byte spills."""

    def __init__(self, lib, f, entry, mem_hook=None, budget=400000):
        self.lib = lib
        self.f = f
        self.regs = {r: None for r in set(PARENT.values())}
        self.regs.update(entry)
        self.regs["RSP"] = ("p", "sp", 0)
        self.flags = None
        self.stack = {}
        self.mem_hook = mem_hook
        self.budget = budget
        self.res = Run()
        self.fr = 0
        self.kregs = {}

    # ---- register access
    def get(self, name):
        p = PARENT.get(name)
        if p is None:
            return None
        v = self.regs.get(p)
        w = WIDTH[name]
        if w == 64 or v is None:
            return v
        if isinstance(v, tuple):
            return None
        if name.endswith("H") and name in ("AH", "BH", "CH", "DH"):
            return (v >> 8) & 0xFF
        return v & _m(w)

    def put(self, name, v):
        p = PARENT[name]
        w = WIDTH[name]
        if w == 64:
            self.regs[p] = v if not isinstance(v, int) else v & M64
        elif w == 32:
            self.regs[p] = None if (v is None or isinstance(v, tuple)) else v & 0xFFFFFFFF
        else:
            old = self.regs.get(p)
            if v is None or isinstance(v, tuple) or old is None or isinstance(old, tuple) or name in ("AH", "BH", "CH", "DH"):
                self.regs[p] = None
            else:
                self.regs[p] = (old & ~_m(w) & M64) | (v & _m(w))

    # ---- addresses
    def addr(self, i):
        m = i.memop()
        if m is None:
            return None
        base, scale, index, disp, seg = m
        if seg:
            return None
        if base == "RIP":
            if i.rel:
                try:
                    tsec, taddr, _tn = i.rel_target(self.f.obj)
                except Exception:
                    return ("p", "rip", i.addr)
                if tsec is not None and tsec >= 0:
                    extra = 0
                    if index:
                        v = self.get(index) if WIDTH.get(index) == 64 else None
                        if not isinstance(v, int):
                            return None
                        extra = (v if v < (1 << 63) else v - (1 << 64)) * (scale or 1)
                    return ("p", "data:%d" % tsec, taddr + extra)
            return ("p", "rip", i.addr)
        total = disp or 0
        tag = None
        a32 = False
        for (r, k) in ((base, 1), (index, scale or 1)):
            if not r:
                continue
            if WIDTH.get(r) == 32:
                # address-size override (lea r32, [r32 + disp]): 32-bit arithmetic on known integers only
                v = self.get(r)
                if not isinstance(v, int):
                    return None
                a32 = True
                total += v * k
                continue
            v = self.get(r) if WIDTH.get(r) == 64 else None
            if v is None:
                return None
            if isinstance(v, tuple):
                if k != 1 or tag is not None:
                    return None
                tag = v[1]
                total += v[2]
            else:
                total += (v if v < (1 << 63) else v - (1 << 64)) * k
        if a32:
            if tag is not None:
                return None
            return ("abs", total & 0xFFFFFFFF)
        if tag is None:
            return ("abs", total & M64)
        return ("p", tag, total)

    def load(self, i, a, size):
        if a is None:
            return None
        if a[0] == "p" and a[1] != "sp" and not a[1].startswith(("fr", "data:")):
            # a scalar field of a caller's object that this call has already written (e.g. the GCM context's
            # partial_block_length, stored and read back within one update) holds what was stored, not the value
            # the call was entered with
            if size == 8 and (a[1], a[2]) in self.stack:
                return self.stack[(a[1], a[2])]
            for k in self.stack:
                if k[0] == a[1] and k[1] < a[2] + size and a[2] < k[1] + 8:
                    return None
        if self.mem_hook is not None:
            h = self.mem_hook(i, a, size)
            if h is not None:
                return h
        if a[0] == "p" and isinstance(a[1], str) and a[1].startswith("data:") and size in (1, 2, 4, 8):
            b = self.f.obj.initial_bytes(int(a[1][5:]), a[2], size)
            if b is not None and len(b) == size:
                return int.from_bytes(b, "little")
            return None
        if a[0] == "p" and a[1] in ("sp",) or (a[0] == "p" and isinstance(a[1], str) and a[1].startswith("fr")):
            if size == 8:
                return self.stack.get((a[1], a[2]))
        return None

    def store(self, a, size, v):
        if a is None:
            # a store to an unknown address may hit a spill slot
            self.stack = {}
            return
        if a[0] == "p" and (a[1] == "sp" or a[1].startswith("fr")):
            for k in list(self.stack):
                if k[0] == a[1] and k[1] < a[2] + size and a[2] < k[1] + 8:
                    del self.stack[k]
            if size == 8:
                self.stack[(a[1], a[2])] = v
        elif a[0] == "p" and a[1] != "rip" and not a[1].startswith("data:"):
            for k in list(self.stack):
                if k[0] == a[1] and k[1] < a[2] + size and a[2] < k[1] + 8:
                    self.stack[k] = None
            if size == 8:
                self.stack[(a[1], a[2])] = v
            elif size < 8:
                self.stack[(a[1], a[2] & ~7)] = None

    def record(self, i, a, size, rw):
        if a is not None and a[0] == "p" and a[1] not in ("sp", "rip") and not a[1].startswith(("fr", "data:")):
            t = i.text.replace(" ", "")
            import re
            mk = re.search(r"\{(k[1-7])\}", t)
            masked = bool(mk)
            off = a[2]
            if mk:
                kv = self.kregs.get(mk.group(1).upper())
                em = re.match(r"^V?(?:P?MOVDQU|MOVDQA|MOVUPS|MOVAPS)(8|16|32|64)?", i.op)
                esz = int(em.group(1)) // 8 if em and em.group(1) else (4 if em else None)
                if isinstance(kv, int) and esz:
                    n = max(1, size // esz)
                    kv &= (1 << n) - 1
                    if kv == 0:
                        return                      # nothing accessed
                    lo = (kv & -kv).bit_length() - 1
                    hi = kv.bit_length()
                    off, size, masked = a[2] + lo * esz, (hi - lo) * esz, False
            self.res.accesses.append((i, a[1], off, size, rw, masked))

    # ---- one instruction
    def step(self, i):
        op = i.op
        if op.startswith(("ENDBR", "NOOP", "PAUSE", "PREFETCH", "LFENCE", "SFENCE", "MFENCE")):
            return
        size = i.memsize() if i.mem >= 0 else None
        a = self.addr(i) if (i.mem >= 0 and i.mem + 5 <= len(i.ops)) else None
        isstring = i.mem >= 0 and i.mem + 5 > len(i.ops)
        if isstring:
            raise Stop("string instruction `%s`" % i.text.strip())
        if i.mem >= 0 and not op.startswith("LEA"):
            rw = ("r" if i.reads_mem_operand() else "") + ("w" if i.writes_mem_operand() else "")
            if a is None:
                # unknown address: cannot be an argument + known offset; it may still be one of the buffers
                self.res.unknown_addr = getattr(self.res, "unknown_addr", 0) + 1
            elif rw:
                self.record(i, a, size or 1, rw)
        # constants fetched through a sliding (unaligned) window into the object's constant tables, and their use
        # as a byte mask: recorded for the rules (C02 R02.11), no influence on the interpretation
        if op[:1] in "VPMA" or op.startswith(("MOVDQ", "MOVUP", "MOVAP")):
            self._window_consts(i, op, a, size)
        gdefs = [d for d in list(i.explicit_defs()) + list(i.idefs) if d in PARENT]
        wflags = "EFLAGS" in i.idefs or "EFLAGS" in i.explicit_defs()
        # ---- handled forms
        import re
        m = re.match(r"^(MOV|ADD|SUB|AND|OR|XOR|CMP|TEST|ADC|SBB)(64|32|16|8)(rr|ri8|ri32|ri|i32|i8|rm|mr|mi8|mi32|mi|r1)(_REV)?$", op)
        if op in ("MOV64ri", "MOV64ri32", "MOV32ri", "MOV16ri", "MOV8ri"):
            self.put(i.reg(0), i.imm(1) & M64)
            return
        if m:
            base, w, form = m.group(1), int(m.group(2)), m.group(3)
            if form in ("i32", "i8"):
                dst = {64: "RAX", 32: "EAX", 16: "AX", 8: "AL"}[w]
                x, y = self.get(dst), i.imm(0)
                dreg = dst
            elif form in ("rr",):
                if base in ("CMP", "TEST", "MOV"):
                    x, y = self.get(i.reg(0)), self.get(i.reg(1))
                else:
                    x, y = self.get(i.reg(1)), self.get(i.reg(2))
                dreg = i.reg(0)
            elif form.startswith("ri"):
                if base in ("CMP", "TEST", "MOV"):
                    x, y = self.get(i.reg(0)), i.imm(1)
                else:
                    x, y = self.get(i.reg(1)), i.imm(2)
                dreg = i.reg(0)
            elif form == "rm":
                dreg = i.reg(0)
                y = self.load(i, a, size or (w // 8))
                x = self.get(i.reg(1)) if base not in ("MOV", "CMP", "TEST") else self.get(i.reg(0))
                if base == "MOV":
                    self.put(dreg, y)
                    return
            elif form == "mr":
                src = i.ops[i.mem + 5][1] if i.mem + 5 < len(i.ops) else None
                y = self.get(src) if src else None
                if base == "MOV":
                    self.store(a, size or (w // 8), y if w == 64 else None)
                    return
                x = self.load(i, a, size or (w // 8))
                dreg = None
            elif form.startswith("mi"):
                y = i.imm(i.mem + 5)
                if base == "MOV":
                    self.store(a, size or (w // 8), (y & M64) if w == 64 else None)
                    return
                x = self.load(i, a, size or (w // 8))
                dreg = None
            else:
                x = y = None
                dreg = i.reg(0) if i.ops and i.ops[0][0] == "r" else None
            if base == "MOV":
                self.put(dreg, x if form == "rr" and False else y)
                return
            # pointer arithmetic
            res = None
            fl = None
            if base in ("XOR", "SUB") and form == "rr" and i.reg(1) == i.reg(2):
                res, fl = 0, _flags_logic(0, w)
            elif isinstance(x, tuple) or isinstance(y, tuple):
                if w == 64 and base == "ADD" and isinstance(x, tuple) != isinstance(y, tuple):
                    p, k = (x, y) if isinstance(x, tuple) else (y, x)
                    if isinstance(k, int):
                        k = k if k < (1 << 63) else k - (1 << 64)
                        res = ("p", p[1], p[2] + k)
                elif w == 64 and base in ("SUB", "CMP") and isinstance(x, tuple) and isinstance(y, int):
                    k = y if y < (1 << 63) else y - (1 << 64)
                    res = ("p", x[1], x[2] - k)
                elif w == 64 and base in ("SUB", "CMP") and isinstance(x, tuple) and isinstance(y, tuple) and x[1] == y[1]:
                    fl, res = _flags_sub(x[2] & M64, y[2] & M64, 64)
                if base == "CMP":
                    res_store = None
                else:
                    res_store = res
                if base == "CMP":
                    self.flags = fl
                    return
                if dreg:
                    self.put(dreg, res_store)
                if wflags:
                    self.flags = fl
                if form in ("mr",) or form.startswith("mi"):
                    self.store(a, size or (w // 8), None)
                return
            elif x is not None and y is not None:
                if base in ("SUB", "CMP"):
                    fl, res = _flags_sub(x, y, w)
                elif base == "ADD":
                    fl, res = _flags_add(x, y, w)
                elif base in ("ADC", "SBB"):
                    cf = self.flags.get("CF") if self.flags else None
                    if cf is None:
                        res, fl = None, None
                    elif base == "ADC":
                        fl, res = _flags_add(x, y, w, 1 if cf else 0)
                    else:
                        fl, res = _flags_sub(x, (y + (1 if cf else 0)), w)
                else:
                    res = ((x & y) if base in ("AND", "TEST") else (x | y) if base == "OR" else (x ^ y)) & _m(w)
                    fl = _flags_logic(res, w)
            if base in ("CMP", "TEST"):
                self.flags = fl
                if base == "CMP" and fl is None and x is None and isinstance(y, int) and form.startswith("ri"):
                    self.last_cmp = (i, y & _m(w), w)
                return
            if dreg:
                self.put(dreg, res)
            else:
                self.store(a, size or (w // 8), res if w == 64 else None)
            self.flags = fl
            return
        m2 = re.match(r"^(SHL|SHR|SAR)(64|32)(ri|r1|rCL)$", op)
        if m2:
            kind, w, form = m2.group(1), int(m2.group(2)), m2.group(3)
            x = self.get(i.reg(1))
            k = 1 if form == "r1" else (i.imm(2) if form == "ri" else self.get("CL"))
            if isinstance(x, int) and isinstance(k, int):
                k &= (w - 1)
                if kind == "SHL":
                    r = (x << k) & _m(w)
                elif kind == "SHR":
                    r = (x & _m(w)) >> k
                else:
                    sx = x - (1 << w) if x >> (w - 1) else x
                    r = (sx >> k) & _m(w)
                self.put(i.reg(0), r)
                self.flags = ({"ZF": r == 0, "SF": bool(r >> (w - 1)), "CF": None, "OF": None} if k else self.flags)
            else:
                self.put(i.reg(0), None)
                self.flags = None
            return
        if op in ("LEA64r", "LEA64_32r", "LEA32r"):
            self.put(i.reg(0), a if not (a and a[0] == "abs") else a[1])
            if a and a[0] == "p" and op != "LEA64r":
                self.put(i.reg(0), None)
            return
        if op in ("INC64r", "DEC64r", "INC32r", "DEC32r", "NEG64r", "NOT64r", "NEG32r", "NOT32r"):
            w = 64 if "64" in op else 32
            x = self.get(i.reg(1))
            if isinstance(x, int):
                if op.startswith("INC"):
                    fl, r = _flags_add(x, 1, w)
                    fl["CF"] = self.flags.get("CF") if self.flags else None
                elif op.startswith("DEC"):
                    fl, r = _flags_sub(x, 1, w)
                    fl["CF"] = self.flags.get("CF") if self.flags else None
                elif op.startswith("NEG"):
                    fl, r = _flags_sub(0, x, w)
                else:
                    r, fl = (~x) & _m(w), self.flags
                self.put(i.reg(0), r)
                self.flags = fl
            elif isinstance(x, tuple) and op in ("INC64r", "DEC64r"):
                self.put(i.reg(0), ("p", x[1], x[2] + (1 if op.startswith("INC") else -1)))
                self.flags = None
            else:
                self.put(i.reg(0), None)
                self.flags = None if not op.startswith("NOT") else self.flags
            return
        if op.startswith(("MOVZX", "MOVSX")) and i.mem < 0:
            x = self.get(i.reg(1))
            if isinstance(x, int):
                sw = WIDTH[i.reg(1)]
                if op.startswith("MOVSX") and x >> (sw - 1):
                    x |= M64 & ~_m(sw)
                self.put(i.reg(0), x)
            else:
                self.put(i.reg(0), None)
            return
        if op.startswith(("CMOV64rr", "CMOV32rr")):
            c = cond(i.imm(len(i.ops) - 1), self.flags)
            if c is None:
                self.put(i.reg(0), None)
            elif c:
                self.put(i.reg(0), self.get(i.reg(2)))
            else:
                self.put(i.reg(0), self.get(i.reg(1)))
            return
        if op == "PUSH64r":
            sp = self.regs["RSP"]
            if not isinstance(sp, tuple):
                raise Stop("push with unknown rsp")
            sp = ("p", sp[1], sp[2] - 8)
            self.regs["RSP"] = sp
            self.store(sp, 8, self.get(i.reg(0)))
            return
        if op == "POP64r":
            sp = self.regs["RSP"]
            if not isinstance(sp, tuple):
                raise Stop("pop with unknown rsp")
            self.put(i.reg(0), self.stack.get((sp[1], sp[2])))
            self.regs["RSP"] = ("p", sp[1], sp[2] + 8)
            return
        if op in ("BLSMSK64rr", "BLSMSK32rr", "BLSR64rr", "BLSR32rr", "BLSI64rr", "BLSI32rr"):
            w = 64 if "64" in op else 32
            x = self.get(i.reg(1))
            if isinstance(x, int):
                x &= _m(w)
                if op.startswith("BLSMSK"):
                    r, cf = (x ^ (x - 1)) & _m(w), x == 0
                elif op.startswith("BLSR"):
                    r, cf = x & (x - 1) & _m(w), x == 0
                else:
                    r, cf = x & (-x) & _m(w), x != 0
                self.put(i.reg(0), r)
                self.flags = {"CF": cf, "ZF": r == 0, "SF": bool(r >> (w - 1)), "OF": False}
            else:
                self.put(i.reg(0), None)
                self.flags = None
            return
        if op in ("CMC", "STC", "CLC"):
            if self.flags is not None and self.flags.get("CF") is not None or op != "CMC":
                fl = dict(self.flags or {"ZF": None, "SF": None, "OF": None})
                fl["CF"] = (not fl.get("CF")) if op == "CMC" else (op == "STC")
                self.flags = fl
            return
        if op.startswith("KMOV"):
            import re
            dst = i.ops[0][1] if i.ops and i.ops[0][0] == "r" else None
            wk = {"B": 8, "W": 16, "D": 32, "Q": 64}.get(op[4:5], 64)
            if dst and re.match(r"^K[0-7]$", dst):
                if i.mem >= 0:
                    v = self.load(i, a, wk // 8)
                else:
                    src = i.ops[1][1] if len(i.ops) > 1 and i.ops[1][0] == "r" else None
                    v = self.kregs.get(src) if src and re.match(r"^K[0-7]$", src) else (self.get(src) if src in PARENT else None)
                self.kregs[dst] = (v & _m(wk)) if isinstance(v, int) else None
                return
            if dst in PARENT:
                src = i.ops[1][1] if len(i.ops) > 1 and i.ops[1][0] == "r" else None
                v = self.kregs.get(src)
                self.put(dst, (v & _m(wk)) if isinstance(v, int) else None)
                return
        for d in list(i.explicit_defs()):
            import re as _re
            if _re.match(r"^K[0-7]$", d or ""):
                self.kregs[d] = None
        # ---- default: destinations unknown
        for d in gdefs:
            if PARENT[d] == "RSP":
                raise Stop("rsp modified by `%s`" % i.text.strip())
            self.put(d if WIDTH[d] == 64 else PARENT[d], None)
        if wflags:
            self.flags = None
        if i.writes_mem_operand() and i.mem >= 0:
            self.store(a, size or 8, None)

    def _window_consts(self, i, op, a, size):
        import re as _re
        vc = getattr(self, "vconst", None)
        if vc is None:
            vc = self.vconst = {}
        vregs = [o[1] for o in i.ops if o[0] == "r" and o[1] and _re.match(r"^[XYZ]MM\d+$", o[1])]
        if not vregs:
            return
        num = lambda r: int(_re.search(r"\d+", r).group(0))
        memc = None
        if i.mem >= 0 and i.reads_mem_operand() and a is not None and a[0] == "p" and isinstance(a[1], str) and a[1].startswith("data:") and size == 16 and a[2] % 16:
            b = self.f.obj.initial_bytes(int(a[1][5:]), a[2], 16)
            if b is not None and len(b) == 16:
                memc = bytes(b)
        is_and = _re.match(r"^V?PANDN?(Q|D)?(Z128)?(rr|rm)", op) is not None
        if is_and:
            cands_ = ([memc] if memc is not None else []) + [vc[num(r)] for r in vregs[1:] if num(r) in vc] + ([vc[num(vregs[0])]] if not op.startswith("V") and num(vregs[0]) in vc else [])
            for c in cands_:
                lst = getattr(self.res, "mask_consts", None)
                if lst is None:
                    lst = self.res.mask_consts = []
                lst.append((i, c))
        defs = [d for d in i.explicit_defs() if _re.match(r"^[XYZ]MM\d+$", d or "")]
        for d in defs:
            vc.pop(num(d), None)
        if defs and memc is not None and _re.match(r"^V?(MOVDQU|MOVUPS|LDDQU|MOVDQU8|MOVDQU64)", op.replace("Z128", "")) and len(vregs) == 1:
            vc[num(defs[0])] = memc
        elif defs and i.mem < 0 and _re.match(r"^V?(MOVDQ[AU]|MOVAPS|MOVUPS)", op) and len(vregs) == 2 and num(vregs[1]) in vc:
            vc[num(defs[0])] = vc[num(vregs[1])]

    def _key(self, blk):
        return (blk, tuple(sorted((k, v) for k, v in self.regs.items() if v is not None)),
                tuple(sorted(self.flags.items())) if self.flags else None, tuple(sorted(self.stack.items())), self.fr, tuple(sorted((k, v) for k, v in self.kregs.items() if v is not None)))

    def snap(self):
        return (dict(self.regs), self.flags, dict(self.stack), self.fr, dict(self.kregs), list(getattr(self, "path", ())) if getattr(self, "record_paths", False) else None)

    def restore(self, t):
        self.regs, self.flags, self.stack, self.fr, self.kregs = t[:5]
        if t[5] is not None:
            self.path = list(t[5])

    def on_ret(self, i):
        pass

    def on_fork(self, branch, last_cmp):
        """A conditional branch whose flags the skeleton does not determine is about to be taken both ways."""
        pass

    def run(self, max_forks=256):
        """Follow the length-determined path.  A conditional branch whose flags come from data (e.g. a counter byte of
        the IV) is taken both ways; states are memoised per block, so paths that rejoin with the same known values
        are followed once.  More than max_forks undecided branches stop the run (not judged)."""
        f = self.f
        res = self.res
        work = [(f.entry, self.snap())]
        seen = set()
        forks = 0
        nret = 0
        try:
            while work:
                blk, snap_ = work.pop()
                self.restore(snap_)
                while True:
                    k = self._key(blk)
                    if k in seen:
                        break
                    seen.add(k)
                    ins = f.blocks.get(blk)
                    if ins is None:
                        raise Stop("control left the function at %#x" % blk)
                    if getattr(self, "record_paths", False):
                        if not hasattr(self, "path"):
                            self.path = []
                        self.path.append(blk)
                    nxt = None
                    done = False
                    for i in ins:
                        res.steps += 1
                        if res.steps > self.budget:
                            raise Stop("step budget exhausted")
                        if i.is_ret():
                            if getattr(self, "record_paths", False):
                                if not hasattr(res, "paths"):
                                    res.paths = []
                                res.paths.append(list(self.path))
                            self.on_ret(i)
                            nret += 1
                            done = True
                            break
                        if i.is_call():
                            raise Stop("call `%s`" % i.text.strip())
                        if i.is_branch():
                            if i.is_indirect() or i.rel:
                                raise Stop("indirect / external branch `%s`" % i.text.strip())
                            t = i.branch_target()
                            if not i.is_cond():
                                nxt = t
                                break
                            c = cond(i.imm(1), self.flags)
                            if c is None:
                                self.on_fork(i, getattr(self, "last_cmp", None))
                                forks += 1
                                if forks > max_forks:
                                    raise Stop("more than %d branches depend on values the length skeleton does not determine (last: `%s` at %s)" % (max_forks, i.text.strip(), f.obj.line_of(f.sec, i.addr)))
                                work.append((i.next, self.snap()))
                                nxt = t
                            else:
                                nxt = t if c else i.next
                            break
                        if i.op in ("AND64ri8", "AND64ri32") and i.reg(0) == "RSP":
                            self.fr += 1
                            self.regs["RSP"] = ("p", "fr%d" % self.fr, 0)
                            self.flags = None
                            continue
                        self.step(i)
                    if done:
                        break
                    if nxt is None:
                        succ = f.succ.get(blk, [])
                        if len(succ) != 1:
                            raise Stop("fell off block %#x" % blk)
                        nxt = succ[0]
                    blk = nxt
            res.returned = nret > 0
            res.forks = forks
            return res
        except Stop as e:
            res.stopped = str(e)
            res.forks = forks
            return res
