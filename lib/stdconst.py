"""Standard constants of the hash algorithms, derived from their definitions (FIPS 180-4, RFC 1321, GB/T 32905,
MurmurHash3) rather than copied, and the search for them in object code / data.

presence(obj, value, width): the constant occurs in the object either in an allocated data section at a
width-aligned offset, or as an immediate / displacement operand of an instruction.
"""
import math
import struct


def _primes(n):
    ps = []
    k = 2
    while len(ps) < n:
        if all(k % p for p in ps):
            ps.append(k)
        k += 1
    return ps


def _frac_root(p, root, bits):
    n = p << (root * bits)
    lo, hi = 0, 1 << ((n.bit_length() // root) + 2)
    while lo < hi:
        mid = (lo + hi + 1) // 2
        if mid ** root <= n:
            lo = mid
        else:
            hi = mid - 1
    return lo & ((1 << bits) - 1)


def _rol32(x, n):
    n %= 32
    return ((x << n) | (x >> (32 - n))) & 0xFFFFFFFF


SHA1_K = [_frac_root(x, 2, 32) >> 2 | 0 for x in ()] or [int(math.isqrt(x << 60)) & 0xFFFFFFFF for x in (2, 3, 5, 10)]
SHA1_IV = [0x67452301, 0xEFCDAB89, 0x98BADCFE, 0x10325476, 0xC3D2E1F0]
MD5_IV = SHA1_IV[:4]
MD5_T = [int(abs(math.sin(i + 1)) * 2 ** 32) & 0xFFFFFFFF for i in range(64)]
SHA256_K = [_frac_root(p, 3, 32) for p in _primes(64)]
SHA256_IV = [_frac_root(p, 2, 32) for p in _primes(8)]
SHA512_K = [_frac_root(p, 3, 64) for p in _primes(80)]
SHA512_IV = [_frac_root(p, 2, 64) for p in _primes(8)]
SM3_IV = [0x7380166F, 0x4914B2B9, 0x172442D7, 0xDA8A0600, 0xA96F30BC, 0x163138AA, 0xE38DEE4D, 0xB0FB0E4E]
SM3_T = [_rol32(0x79CC4519 if j < 16 else 0x7A879D8A, j) for j in range(64)]
MURMUR3_X64_128 = {"c1": 0x87C37B91114253D5, "c2": 0x4CF5AD432745937F, "n1": 0x52DCE729, "n2": 0x38495AB5,
                   "fmix1": 0xFF51AFD7ED558CCD, "fmix2": 0xC4CEB9FE1A85EC53}

assert SHA1_K == [0x5A827999, 0x6ED9EBA1, 0x8F1BBCDC, 0xCA62C1D6]
assert SHA256_K[0] == 0x428A2F98 and SHA256_K[63] == 0xC67178F2 and SHA256_IV[0] == 0x6A09E667 and SHA256_IV[7] == 0x5BE0CD19
assert SHA512_K[0] == 0x428A2F98D728AE22 and SHA512_K[79] == 0x6C44198C4A475817 and SHA512_IV[0] == 0x6A09E667F3BCC908
assert MD5_T[0] == 0xD76AA478 and MD5_T[63] == 0xEB86D391
assert SM3_T[1] == 0xF3988A32 and SM3_T[16] == 0x9D8A7A87

ALGOS = {
    "SHA1": {"K": (SHA1_K, 4), "IV": (SHA1_IV, 4)},
    "SHA256": {"K": (SHA256_K, 4), "IV": (SHA256_IV, 4)},
    "SHA512": {"K": (SHA512_K, 8), "IV": (SHA512_IV, 8)},
    "MD5": {"K": (MD5_T, 4), "IV": (MD5_IV, 4)},
    "SM3": {"K": (SM3_T, 4), "IV": (SM3_IV, 4)},
}


def elf_alloc_sections(path):
    """[(name, flags string, bytes)] of the SHF_ALLOC PROGBITS sections of an ELF64 little-endian relocatable."""
    with open(path, "rb") as fh:
        d = fh.read()
    if d[:4] != b"\x7fELF" or d[4] != 2 or d[5] != 1:
        raise ValueError("not an ELF64 LE object: %s" % path)
    shoff = struct.unpack_from("<Q", d, 0x28)[0]
    shentsize, shnum, shstrndx = struct.unpack_from("<HHH", d, 0x3A)
    hdrs = []
    for k in range(shnum):
        (name, typ, flags, addr, off, size, link, info, align, entsize) = struct.unpack_from("<IIQQQQIIQQ", d, shoff + k * shentsize)
        hdrs.append((name, typ, flags, off, size))
    stro = hdrs[shstrndx][3]
    out = []
    for (name, typ, flags, off, size) in hdrs:
        if typ != 1 or not flags & 2 or size == 0:
            continue
        e = d.index(b"\0", stro + name)
        out.append((d[stro + name:e].decode("latin1"), ("A" if flags & 2 else "") + ("W" if flags & 1 else "") + ("X" if flags & 4 else ""), d[off:off + size]))
    return out


class ConstIndex(object):
    """All 32- and 64-bit constants of an object: data words at aligned offsets, immediates, displacements."""

    def __init__(self, obj):
        self.d32 = {}
        self.d64 = {}
        self.i32 = {}
        self.i64 = {}
        self.tables = []      # (section name, width, [values...]) for order checks
        for (nm, fl, c) in elf_alloc_sections(obj.path.replace(".lift", ".o")):
            # executable sections are scanned as data too: several kernels keep their tables in .text
            w32 = list(struct.unpack_from("<%dI" % (len(c) // 4), c, 0)) if len(c) >= 4 else []
            w64 = list(struct.unpack_from("<%dQ" % (len(c) // 8), c, 0)) if len(c) >= 8 else []
            for k, v in enumerate(w32):
                self.d32.setdefault(v, (nm, 4 * k))
            for k, v in enumerate(w64):
                self.d64.setdefault(v, (nm, 8 * k))
            self.tables.append((nm, 4, w32, "X" in fl))
            self.tables.append((nm, 8, w64, "X" in fl))
        for i in (obj.ins.values() if isinstance(obj.ins, dict) else obj.ins):
            for o in i.ops:
                if o[0] == "i" and isinstance(o[1], int):
                    v = o[1]
                    self.i32.setdefault(v & 0xFFFFFFFF, i)
                    self.i64.setdefault(v & 0xFFFFFFFFFFFFFFFF, i)

    def where(self, value, width):
        if width == 4:
            if value in self.d32:
                return "data %s+%#x" % self.d32[value]
            if value in self.i32:
                return "immediate"
        else:
            if value in self.d64:
                return "data %s+%#x" % self.d64[value]
            if value in self.i64:
                return "immediate"
            # a 64-bit constant may be assembled from two 32-bit halves
        return None

    def tables_like(self, seq, width, reps=(1, 2, 4, 8, 16), threshold=0.75):
        """Candidate tables: places in any section where at least `threshold` of the words of the lane-replicated
        sequence (each entry repeated r times) match.  Returns [(section, byte offset, r, [(entry index, lane, found value)...])]."""
        out = []
        n = len(seq)
        for (nm, w, words, isx) in self.tables:
            if w != width:
                continue
            pos = {}
            for k, v in enumerate(words):
                pos.setdefault(v, []).append(k)
            seen = set()
            for r in reps:
                need = n * r
                if len(words) < need:
                    continue
                # anchor on the first lane of a few different entries so that one corrupted entry does not hide the table
                for a in (0, 1, 2, n // 2, n - 1):
                    for k in pos.get(seq[a], ()):
                        start = k - a * r
                        if start < 0 or start + need > len(words) or (start, r) in seen:
                            continue
                        seen.add((start, r))
                        bad = []
                        ok = 0
                        for j in range(n):
                            for t in range(r):
                                got = words[start + j * r + t]
                                if got == seq[j]:
                                    ok += 1
                                else:
                                    bad.append((j, t, got))
                        if ok >= threshold * need and (r == 1 or ok > need // r):
                            out.append((nm, start * w, r, bad))
        # overlapping interpretations (a lane-replicated table also matches itself shifted by a lane): keep the best
        out.sort(key=lambda t: (len(t[3]), -t[2], t[1]))
        kept = []
        for (nm, off, r, bad) in out:
            lo, hi = off, off + n * r * width
            if any(k[0] == nm and lo < k[1] + n * k[2] * width and k[1] < hi for k in kept):
                continue
            kept.append((nm, off, r, bad))
        return sorted(kept)

    def ordered(self, seq, width):
        """True if some data section, with consecutive repeats collapsed, contains seq contiguously; None if no
        data section holds all of seq's values at all (constants are immediates)."""
        found_all = False
        for (nm, w, words, isx) in self.tables:
            if w != width:
                continue
            if not set(seq) <= set(words):
                continue
            if not isx:
                found_all = True       # in an executable section the words may be instruction immediates: no order implied
            ded = []
            for v in words:
                if not ded or ded[-1] != v:
                    ded.append(v)
            n = len(seq)
            for k in range(len(ded) - n + 1):
                if ded[k] == seq[0] and ded[k:k + n] == seq:
                    return True
            # interleaved layouts (e.g. two rounds per row) are not order-checked
        return False if found_all else None
