"""Build step: derive the compile database from the repository's own Makefile.unx by
dry run, build every unit with its real flags into a content-addressed cache under
/verif/.cache, lift objects (x86lift) and IR (clang-14 -O0 + mem2reg + ir2json).

Nothing here executes library code.  Nothing is written under /repo.
"""
import fcntl
import hashlib
import json
import os
import re
import shlex
import shutil
import subprocess
import sys
import tempfile
import time
from concurrent.futures import ThreadPoolExecutor

VERIF = os.path.dirname(os.path.dirname(os.path.abspath(__file__)))
REPO = os.environ.get("VERIF_REPO", "/repo")
CACHE = os.environ.get("VERIF_CACHE", os.path.join(VERIF, ".cache"))
X86LIFT = os.path.join(VERIF, "bin", "x86lift")
IR2JSON = os.path.join(VERIF, "bin", "ir2json")
NPROC = int(os.environ.get("VERIF_JOBS", "16"))

UNIT_FLOOR = {"asm": 153, "c": 77}
FRESH_DEFAULT = False      # set by the thorough tier: ignore the object cache
_FRESH_DIRS = set()


def _cleanup_fresh():
    for d in list(_FRESH_DIRS):
        shutil.rmtree(d, ignore_errors=True)


import atexit
atexit.register(_cleanup_fresh)


class AnalysisBroken(Exception):
    """exit 2: the analysis cannot be carried out soundly (never a pass, never a violation)."""


def _run(cmd, cwd=None, timeout=600):
    p = subprocess.run(cmd, cwd=cwd, stdout=subprocess.PIPE, stderr=subprocess.PIPE, timeout=timeout)
    return p.returncode, p.stdout.decode("utf-8", "replace"), p.stderr.decode("utf-8", "replace")


def ensure_tools():
    if not (os.path.exists(X86LIFT) and os.path.exists(IR2JSON)):
        rc, out, err = _run(["sh", os.path.join(VERIF, "setup.sh")], cwd=VERIF, timeout=900)
        if rc != 0:
            raise AnalysisBroken("setup.sh failed: " + err[-2000:])


def compdb(config="default", extra_make_args=()):
    """Return list of units: dict(kind, src, obj, argv) from `make -n -B -f Makefile.unx lib`."""
    args = ["make", "-n", "-B", "-f", "Makefile.unx", "lib"]
    if config == "fips":
        args.append("FIPS_MODE=y")
    args += list(extra_make_args)
    rc, out, err = _run(args, cwd=REPO)
    if rc != 0:
        raise AnalysisBroken("dry run of Makefile.unx failed: " + err[-1000:])
    units = []
    for line in out.splitlines():
        line = line.strip()
        if not (line.startswith("nasm ") or line.startswith("cc ") or line.startswith("gcc ")):
            continue
        try:
            argv = shlex.split(line)
        except ValueError:
            continue
        if "-o" not in argv:
            continue
        oi = argv.index("-o")
        obj = argv[oi + 1]
        src = argv[-1]
        if not (src.endswith(".asm") or src.endswith(".c")):
            continue
        kind = "asm" if argv[0] == "nasm" else "c"
        flags = [a for k, a in enumerate(argv[1:], 1) if k not in (oi, oi + 1) and a != src and a != "-c"]
        units.append({"kind": kind, "src": src, "obj": os.path.basename(obj), "flags": flags, "argv": argv})
    n_asm = sum(1 for u in units if u["kind"] == "asm")
    n_c = sum(1 for u in units if u["kind"] == "c")
    if not extra_make_args and (n_asm < UNIT_FLOOR["asm"] or n_c < UNIT_FLOOR["c"]):
        raise AnalysisBroken("compile database below floor: %d asm (floor %d), %d C (floor %d)" % (n_asm, UNIT_FLOOR["asm"], n_c, UNIT_FLOOR["c"]))
    return units


_INC_RE = re.compile(rb'^\s*[%#]\s*include\s+[<"]([^">]+)[">]', re.M)


def include_hash():
    """Hash of every file that some other file includes (plus all .h/.inc).  An edit to any
    includable file invalidates every unit (coarse but sound)."""
    names = set()
    files = []
    for root, dirs, fs in os.walk(REPO):
        dirs[:] = [d for d in dirs if d not in (".git", ".libs", ".deps", "autom4te.cache", "bin", "tests", "examples", "tools", "build-aux")]
        for f in fs:
            if f.endswith((".asm", ".inc", ".h", ".c")):
                files.append(os.path.join(root, f))
    contents = {}
    for p in files:
        try:
            with open(p, "rb") as fh:
                contents[p] = fh.read()
        except OSError:
            continue
        for m in _INC_RE.finditer(contents[p]):
            names.add(os.path.basename(m.group(1).decode("utf-8", "replace")))
    h = hashlib.sha256()
    for p in sorted(contents):
        b = os.path.basename(p)
        if b.endswith((".h", ".inc")) or b in names:
            h.update(os.path.relpath(p, REPO).encode())
            h.update(b"\0")
            h.update(hashlib.sha256(contents[p]).digest())
    return h.hexdigest()


def _asm_mentions(word):
    w = word.encode()
    for root, dirs, fs in os.walk(REPO):
        dirs[:] = [d for d in dirs if d not in (".git", ".libs", ".deps", "autom4te.cache")]
        for f in fs:
            if f.endswith((".asm", ".inc")) and f != "make.inc":
                try:
                    with open(os.path.join(root, f), "rb") as fh:
                        if w in fh.read():
                            return True
                except OSError:
                    pass
    return False


def _tool_hash():
    h = hashlib.sha256()
    for p in (X86LIFT, IR2JSON):
        st = os.stat(p)
        h.update(("%s:%d:%d" % (p, st.st_size, int(st.st_mtime))).encode())
    return h.hexdigest()[:16]


def _unit_key(u, inc_h, tool_h, variant):
    h = hashlib.sha256()
    h.update(variant.encode())
    h.update(" ".join(u["flags"]).encode())
    h.update(inc_h.encode())
    h.update(tool_h.encode())
    with open(os.path.join(REPO, u["src"]), "rb") as fh:
        h.update(fh.read())
    return h.hexdigest()[:32]


def _build_unit(u, key, variant):
    """Build one unit into CACHE/<key>/ ; returns dict of artefact paths.  Raises AnalysisBroken."""
    d = os.path.join(CACHE, "u", key)
    meta = os.path.join(d, "meta.json")
    if os.path.exists(meta):
        os.utime(d, None)
        with open(meta) as fh:
            return json.load(fh)
    tmp = tempfile.mkdtemp(prefix="b_", dir=os.path.join(CACHE, "tmp"))
    art = {"src": u["src"], "kind": u["kind"], "obj_name": u["obj"], "variant": variant}
    try:
        base = u["obj"][:-2]
        obj = os.path.join(tmp, base + ".o")
        if u["kind"] == "asm":
            cmd = ["nasm"] + u["flags"] + ["-g", "-F", "dwarf", "-o", obj, u["src"]]
        else:
            cmd = ["cc"] + u["flags"] + ["-g", "-c", "-o", obj, u["src"]]
        rc, out, err = _run(cmd, cwd=REPO, timeout=900)
        if rc != 0:
            raise AnalysisBroken("unit does not build: %s\n%s" % (" ".join(cmd), err[-1500:]))
        rc, out, err = _run([X86LIFT, obj, os.path.join(tmp, base + ".lift")])
        if rc != 0:
            raise AnalysisBroken("x86lift failed on %s: %s" % (u["src"], err[-500:]))
        art["obj"] = os.path.join(d, base + ".o")
        art["lift"] = os.path.join(d, base + ".lift")
        if u["kind"] == "c":
            dflags = []
            fl = u["flags"]
            k = 0
            while k < len(fl):
                a = fl[k]
                if a in ("-D", "-I", "-U", "-include"):
                    dflags += [a, fl[k + 1]]
                    k += 2
                    continue
                if a.startswith(("-D", "-I", "-U")):
                    dflags.append(a)
                k += 1
            ll = os.path.join(tmp, base + ".ll")
            cmd = ["clang-14"] + dflags + ["-UNDEBUG", "-O0", "-Xclang", "-disable-O0-optnone", "-fno-discard-value-names", "-g", "-S", "-emit-llvm", "-w", "-o", ll, u["src"]]
            # keep NDEBUG as the real build has it (asserts compiled out)
            cmd.remove("-UNDEBUG")
            rc, out, err = _run(cmd, cwd=REPO)
            if rc != 0:
                raise AnalysisBroken("clang IR build failed: %s\n%s" % (" ".join(cmd), err[-1500:]))
            m2r = os.path.join(tmp, base + ".m2r.ll")
            rc, out, err = _run(["opt-14", "-passes=mem2reg", "-S", ll, "-o", m2r])
            if rc != 0:
                raise AnalysisBroken("opt mem2reg failed on %s: %s" % (u["src"], err[-500:]))
            rc, out, err = _run([IR2JSON, m2r, os.path.join(tmp, base + ".ir.json")])
            if rc != 0:
                raise AnalysisBroken("ir2json failed on %s: %s" % (u["src"], err[-500:]))
            os.remove(ll)
            art["ir"] = os.path.join(d, base + ".ir.json")
            art["ll"] = os.path.join(d, base + ".m2r.ll")
        with open(os.path.join(tmp, "meta.json"), "w") as fh:
            json.dump(art, fh)
        os.makedirs(os.path.dirname(d), exist_ok=True)
        try:
            os.rename(tmp, d)
        except OSError:
            # someone else built it meanwhile
            shutil.rmtree(tmp, ignore_errors=True)
        return art
    except Exception:
        shutil.rmtree(tmp, ignore_errors=True)
        raise


def _prune(max_age_s=86400, max_entries=900):
    ud = os.path.join(CACHE, "u")
    try:
        ents = [(os.stat(os.path.join(ud, e)).st_mtime, e) for e in os.listdir(ud)]
    except OSError:
        return
    ents.sort()
    now = time.time()
    excess = len(ents) - max_entries
    for k, (mt, e) in enumerate(ents):
        if k < excess or now - mt > max_age_s:
            shutil.rmtree(os.path.join(ud, e), ignore_errors=True)
    td = os.path.join(CACHE, "tmp")
    for e in os.listdir(td):
        p = os.path.join(td, e)
        try:
            if now - os.stat(p).st_mtime > 3600:
                shutil.rmtree(p, ignore_errors=True)
        except OSError:
            pass


def build(config="default", only=None, fresh=False, extra_make_args=(), variant_tag=""):
    """Build (or fetch from cache) every unit of `config`.  Returns (units, stats).
    only: optional predicate on unit dict.  fresh: ignore the cache (thorough tier)."""
    ensure_tools()
    fresh = fresh or FRESH_DEFAULT
    os.makedirs(os.path.join(CACHE, "u"), exist_ok=True)
    os.makedirs(os.path.join(CACHE, "tmp"), exist_ok=True)
    t0 = time.time()
    units = compdb(config, extra_make_args)
    if only:
        units = [u for u in units if only(u)]
    if config == "fips" and not _asm_mentions("FIPS_MODE"):
        # no assembly source reads FIPS_MODE: the fips objects are bit-identical to the default ones
        for u in units:
            if u["kind"] == "asm":
                u["flags"] = [f for f in u["flags"] if f != "-DFIPS_MODE"]
    inc_h = include_hash()
    tool_h = _tool_hash()
    variant = variant_tag + ("|fresh%d" % os.getpid() if fresh else "")
    lock = open(os.path.join(CACHE, "lock"), "w")
    fcntl.flock(lock, fcntl.LOCK_EX)
    try:
        keys = [_unit_key(u, inc_h, tool_h, variant) for u in units]
        missing = [k for k in keys if not os.path.exists(os.path.join(CACHE, "u", k, "meta.json"))]
        results = [None] * len(units)
        errors = []

        def work(i):
            try:
                results[i] = _build_unit(units[i], keys[i], variant)
            except AnalysisBroken as e:
                errors.append(str(e))

        # longest first: GCM units dominate
        order = sorted(range(len(units)), key=lambda i: -os.path.getsize(os.path.join(REPO, units[i]["src"])) if "gcm" not in units[i]["src"] else -10**9)
        with ThreadPoolExecutor(max_workers=NPROC) as ex:
            list(ex.map(work, order))
        if errors:
            raise AnalysisBroken(errors[0])
        if missing:
            _prune()
    finally:
        fcntl.flock(lock, fcntl.LOCK_UN)
        lock.close()
    for u, a in zip(units, results):
        u.update(a)
        if "|fresh" in variant:
            _FRESH_DIRS.add(os.path.dirname(a["obj"]))
    stats = {"config": config, "units": len(units), "asm_units": sum(1 for u in units if u["kind"] == "asm"),
             "c_units": sum(1 for u in units if u["kind"] == "c"), "rebuilt": len(missing), "build_wall_s": round(time.time() - t0, 2)}
    return units, stats


def drop_fresh(units):
    for u in units:
        if "|fresh" in u.get("variant", ""):
            shutil.rmtree(os.path.dirname(u["obj"]), ignore_errors=True)


if __name__ == "__main__":
    cfg = sys.argv[1] if len(sys.argv) > 1 else "default"
    us, st = build(cfg)
    print(json.dumps(st))
