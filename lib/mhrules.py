"""Rules shared by the multi-hash checks (C05 mh_sha1 / mh_sha256, C10 mh_sha1_murmur3_x64_128)."""
import re

import absint
import align
import survive
import loopstate
import lenrun
import c19
import ir
from report import Finding

ARGREGS = ["RDI", "RSI", "RDX", "RCX", "R8", "R9"]


def block_alignment(chk, rule, lib, mods, prefix, data_param="input_data"):
    """No alignment-demanding access through the data argument of any <prefix>_<family> block function; the
    argument position is taken from the parameter list of the C sibling <prefix>_base."""
    base = None
    for M in mods.values():
        G = M.functions.get(prefix + "_base")
        if G is not None and not G.decl:
            base = G
    if base is None:
        chk.broke("%s_base (the C sibling that names the block function's parameters) not found" % prefix)
        return 0
    pos = base.arg_index(data_param)
    if pos is None or pos >= len(ARGREGS):
        chk.broke("%s_base has no parameter named %s" % (prefix, data_param))
        return 0
    reg = ARGREGS[pos]
    n = 0
    nacc = 0
    nsinks = 0
    for key, name in lib.entry_list:
        if not re.match("^" + re.escape(prefix) + r"_(?!base$)\w+$", name) or name.endswith(("_mbinit", "_dispatch_init")):
            continue
        o = lib.by_name[key[0]]
        if o.kind == "c":
            continue
        f = lib.func(key)
        ip = absint.Interp(lib, lambda t, c=None: c19.summary_of(lib, t, c))
        p1 = ip.run(f)
        for b in p1.broken:
            chk.broke("%s %s" % (name, b))
        n += 1
        bad = None
        for i in (x for b in f.blocks.values() for x in b):
            if i.mem < 0 or i.op.startswith("LEA"):
                continue
            m = p1.maddr.get(i.addr)
            if m is None:
                continue
            rs = absint.roots(m[0])
            hit = rs is not None and reg in rs
            if hit:
                nacc += 1
            nd = align.need(i)
            if not nd:
                continue
            nsinks += 1
            if bad is None and (hit or rs is None):
                bad = (i, nd, rs is None)
        chk.obligation(rule, bad is None, key=(name, "align"), sample={"function": name, "data_argument": "%s (%s)" % (data_param, reg.lower())})
        chk.distinct.add(("block", name))
        if bad:
            i, nd, unk = bad
            chk.finding(Finding(rule, o.name, name, "align:%s" % (data_param if not unk else "unknown-address"),
                                "`%s` demands %d-byte alignment of %s; update accepts buffers at any alignment and hands them to this function unchanged" % (i.text.strip(), nd, "an address the provenance analysis cannot classify" if unk else "memory addressed through the %s argument (%s)" % (data_param, reg.lower())),
                                loc=o.line_of(key[1], i.addr)))
    chk.extra.setdefault("alignment", {})[prefix] = {"block_functions": n, "accesses_through_%s" % data_param: nacc, "alignment_demanding_instructions": nsinks}
    return n


def linform(F, P, v, k, ctx_n, len_n, depth=0):
    """Linear form {leaf: coefficient} of an integer SSA value over T = load(ctx->total_length), L = the len
    parameter and 1; None when the value is not linear in those (or not understood)."""
    if depth > 24:
        return None
    r = P.at(F, v, k)
    if isinstance(r, int):
        return {1: r} if r else {}
    if isinstance(r, dict):
        if r.get("k") == "c" and isinstance(r.get("v"), int):
            return {1: r["v"]} if r["v"] else {}
        if r.get("k") == "a":
            return {"L": 1} if r.get("n") == len_n else None
        return None
    if not isinstance(r, ir.Inst):
        return None
    if r.op in ("zext", "sext", "freeze"):
        return linform(F, P, r.ops[0], k, ctx_n, len_n, depth + 1)
    if r.op == "load":
        fld = F.field(r.ops[0])
        if fld and F.is_arg(fld[0], ctx_n) and fld[1] and fld[1][-1][1] == "total_length":
            return {"T": 1}
        return None
    if r.op in ("add", "sub"):
        a = linform(F, P, r.ops[0], k, ctx_n, len_n, depth + 1)
        b = linform(F, P, r.ops[1], k, ctx_n, len_n, depth + 1)
        if a is None or b is None:
            return None
        out = dict(a)
        for n, c in b.items():
            out[n] = out.get(n, 0) + (c if r.op == "add" else -c)
        return {n: c for n, c in out.items() if c}
    if r.op in ("mul", "shl"):
        a = linform(F, P, r.ops[0], k, ctx_n, len_n, depth + 1)
        b = linform(F, P, r.ops[1], k, ctx_n, len_n, depth + 1)
        if a is None or b is None:
            return None
        if r.op == "shl":
            if set(b) - {1}:
                return None
            m = 1 << b.get(1, 0)
            return {n: c * m for n, c in a.items() if c * m}
        if not (set(a) - {1}):
            a, b = b, a
        if set(b) - {1}:
            return None
        m = b.get(1, 0)
        return {n: c * m for n, c in a.items() if c * m}
    return None


def total_length_rule(chk, rule, mods, name_re):
    """Every path of an update function that has any effect stores total_length exactly once, and the value is
    (the previous total_length) + len."""
    n = 0
    for src, M in sorted(mods.items()):
        for F in M.defined():
            if not re.match(name_re, F.name):
                continue
            ctx_n, len_n = F.arg_index("ctx"), F.arg_index("len")
            if ctx_n is None or len_n is None:
                chk.broke("%s: parameters ctx/len not found" % F.name)
                continue
            n += 1
            bad = None
            unk = None
            npaths = 0
            try:
                for P in ir.paths_with_facts(F, max_paths=20000):
                    if P.contradictory(F):
                        continue
                    npaths += 1
                    stores = []
                    effects = 0
                    for I in P.insts:
                        if I.op == "call" and not (I.callee or "").startswith(("llvm.dbg", "llvm.lifetime", "llvm.expect")):
                            effects += 1
                        if I.op == "store":
                            fld = F.field(I.ops[1])
                            if fld and F.is_arg(fld[0], ctx_n) and fld[1]:
                                effects += 1
                                if fld[1][-1][1] == "total_length":
                                    stores.append(I)
                    if not effects:
                        continue
                    if len(stores) != 1:
                        bad = bad or (P.retinst, "a path that consumes data stores total_length %d times" % len(stores))
                        continue
                    k = next(idx for idx, J in enumerate(P.insts) if J is stores[0])
                    lf = linform(F, P, stores[0].ops[0], P.bidx[k], ctx_n, len_n)
                    if lf is None:
                        unk = unk or (stores[0], ir.expr_str(F, stores[0].ops[0]))
                    elif lf != {"T": 1, "L": 1}:
                        bad = bad or (stores[0], "total_length is updated with `%s` (= %s), not total_length + len" % (ir.expr_str(F, stores[0].ops[0]), " + ".join("%d*%s" % (c, {"T": "total_length", "L": "len", 1: "1"}[n]) for n, c in sorted(lf.items(), key=str)) or "0"))
            except ir.PathLimit:
                chk.broke("%s: path limit exceeded" % F.name)
                continue
            if unk and not bad:
                chk.broke("%s: the value stored to total_length (`%s`) is not a linear form the rule can decide" % (F.name, unk[1]))
            chk.obligation(rule, bad is None and unk is None, key=(src, F.name), sample={"unit": src, "function": F.name, "paths": npaths})
            if bad:
                chk.finding(Finding(rule, src, F.name, "total_length", "%s: the stream length (which finalize uses for the padding and for the size of the carried partial block) no longer equals the bytes consumed" % bad[1], loc=bad[0].loc()))
    return n


def length_store_survives(chk, rule, lib, mods):
    """Every IR store of the bit length into a padding buffer has a machine store on its source line in the real
    (-O2) object: the optimiser has not deleted it (lib/survive.py)."""
    n = 0
    for src, M in sorted(mods.items()):
        o = lib.by_name.get(src.split("/")[-1].replace(".c", ".o"))
        if o is None:
            continue
        for F in M.defined():
            for (S, lines, kind) in survive.length_sinks(M, F):
                srcf = S.file or F.file or src
                hits, non = survive.machine_stores_on_lines(o, srcf, lines)
                n += 1
                how = "line table"
                if not hits:
                    decided, found, detail = survive.tainted_store_exists(lib, o, F, S, lambda t, c=None: c19.summary_of(lib, t, c))
                    if decided and found:
                        hits = [detail]
                        how = "value flow: " + detail
                chk.obligation(rule, bool(hits), key=(src, F.name, S.line), sample={"unit": src, "function": F.name, "line": S.line, "destination": kind, "machine_stores": len(hits), "decided_by": how})
                if not hits:
                    chk.finding(Finding(rule, o.name, F.name, "length-store-deleted:%s" % srcf.split("/")[-1],
                                        "the source stores the message bit length into the %s here, but the object built with the real flags has no instruction on this line that writes memory (%d instruction(s) on the line): the optimiser deleted the store (a uint64_t written into a byte buffer that is read back as 32-bit words is undefined behaviour), so the padding carries a zero length and the hash is not the standard one" % (kind, non),
                                        loc="%s:%s" % (srcf, S.line)))
    return n


def bit_length_width(chk, rule, mods):
    """The byte-to-bit conversion feeding every length-field store is a 64-bit operation (a 32-bit <<3 wraps at
    2^29 bytes)."""
    n = 0
    for src, M in sorted(mods.items()):
        for F in M.defined():
            for (S, lines, kind) in survive.length_sinks(M, F):
                n += 1
                bad = survive.narrow_bit_length(F, S)
                chk.obligation(rule, bad is None, key=(src, F.name, S.line, "width"), sample={"unit": src, "function": F.name, "line": S.line})
                if bad is not None:
                    chk.finding(Finding(rule, src, F.name, "bit-length-width", "the bit length stored into the padding is formed by a %s-wide `%s` (%s): it wraps for streams of 2^29 bytes or more, although streams up to 2^32-1 bytes are in the property's domain" % (bad.ty, bad.op, ir.expr_str(F, {"k": "i", "id": bad.id})[:80]), loc=bad.loc()))
    return n


def loop_state_rule(chk, rule, lib, name_re, floor_loops=1):
    """No state location is re-loaded in every iteration of a block loop, left unwritten inside the loop and written
    back from a loop-computed register only after it (lib/loopstate.py)."""
    n = nl = 0
    for key, name in lib.entry_list:
        if not re.match(name_re, name) or name.endswith(("_mbinit", "_dispatch_init")):
            continue
        o = lib.by_name[key[0]]
        if o.kind != "asm":
            continue
        f = lib.func(key)
        p1 = absint.Interp(lib, lambda t, c=None: c19.summary_of(lib, t, c)).run(f)
        loops = loopstate.natural_loops(f)
        if not loops:
            continue
        n += 1
        nl += len(loops)
        lost = loopstate.lost_iterations(f, p1)
        stale = loopstate.stale_state_copy(f, p1)
        chk.obligation(rule, not lost and not stale, key=(name, "loop-state"), sample={"function": name, "loops": len(loops)})
        if stale:
            (arg_, rg_, ld_, h_) = stale[0]
            chk.finding(Finding(rule, o.name, name, "stale-state-copy:%s" % arg_.lower(),
                                "the loop at %s reads its chaining state from the frame copy [%+d..%+d) that was filled from [%s] before the loop (`%s`), never writes that copy, and stores the new state through %s instead: every block of a call starts from the state of the first one" % (o.line_of(key[1], h_), rg_[0], rg_[1], arg_.lower(), ld_.text.strip(), arg_.lower()),
                                loc=o.line_of(key[1], ld_.addr)))
        if lost:
            (k, ld, st_, h) = lost[0]
            chk.finding(Finding(rule, o.name, name, "loop-state:%s%+d" % (k[0].lower(), k[1]),
                                "`%s` re-loads the state at [%s%+d] in every iteration of the loop at %s, the loop never writes it back, and `%s` (%s) stores the loop's register there afterwards: every iteration but the last is lost, so the result depends on how many blocks one call passes" % (ld.text.strip(), k[0].lower(), k[1], o.line_of(key[1], h), st_.text.strip(), o.line_of(key[1], st_.addr)),
                                loc=o.line_of(key[1], ld.addr)))
    chk.extra.setdefault("loop_state", {})[rule] = {"functions_with_loops": n, "loops": nl}
    return n


def block_bounds(chk, rule, lib, mods, prefix, block_size=1024, data_param="input_data", count_param="num_blocks"):
    """Length skeleton (lib/lenrun.py) of the assembly block functions: with 1..3 blocks every access through the
    input argument lies within [0, blocks * block_size)."""
    base = None
    for M in mods.values():
        G = M.functions.get(prefix + "_base")
        if G is not None and not G.decl:
            base = G
    if base is None:
        chk.broke("%s_base not found" % prefix)
        return 0
    dpos, cpos = base.arg_index(data_param), base.arg_index(count_param)
    if dpos is None or cpos is None or max(dpos, cpos) >= 6:
        chk.broke("%s_base: parameters %s / %s not found" % (prefix, data_param, count_param))
        return 0
    n = nacc = 0
    for key, name in lib.entry_list:
        if not re.match("^" + re.escape(prefix) + r"_(?!base$)\w+$", name) or name.endswith(("_mbinit", "_dispatch_init")):
            continue
        o = lib.by_name[key[0]]
        if o.kind != "asm":
            continue
        f = lib.func(key)
        n += 1
        bad = None
        why = None
        judged = 0
        for nb in (1, 2, 3):
            entry = {}
            for k, a in enumerate(base.args[:6]):
                entry[ARGREGS[k]] = nb if k == cpos else ("p", "input" if k == dpos else (a.get("name") or "arg%d" % k), 0)
            rr = lenrun.Machine(lib, f, entry).run()
            if rr.stopped or not rr.returned:
                why = why or rr.stopped
                continue
            judged += 1
            for (i, tag, off, size, rw, masked) in rr.accesses:
                if tag != "input":
                    continue
                nacc += 1
                if not masked and (off < 0 or off + size > nb * block_size):
                    bad = bad or (nb, i, off, size)
        chk.obligation(rule, bad is None and judged > 0, key=(name, "bounds"), sample={"function": name, "block_counts_judged": judged})
        if not judged:
            chk.broke("%s: the length skeleton could not be followed (%s)" % (name, why))
        if bad:
            nb, i, off, size = bad
            chk.finding(Finding(rule, o.name, name, "block-bounds", "with %d block(s) `%s` reads bytes %d..%d of the input, which has %d bytes" % (nb, i.text.strip(), off, off + size - 1, nb * block_size), loc=o.line_of(key[1], i.addr)))
    chk.extra.setdefault("block_bounds", {})[prefix] = {"functions": n, "input_accesses_checked": nacc}
    return n


def update_conservation(chk, rule, mods, name_re, block_re, block_size=1024):
    """Byte conservation of the multi-hash update functions on the IR skeleton (lib/irskel.py): for a grid of
    (bytes already carried P, len L) the events of the one path that (P, L) selects are replayed against the
    stream's bookkeeping: every byte of the caller's buffer is consumed exactly once and in order - copied behind the
    carried bytes, or handed to the block function in whole blocks; the carried block is hashed exactly when it is
    full and never with less; at return floor((P+L)/block) blocks have been hashed and (P+L) mod block bytes are
    carried; total_length grew by L."""
    import irskel
    from report import Finding
    n = ncases = 0
    for src, M in sorted(mods.items()):
        for F in M.defined():
            if not re.match(name_re, F.name):
                continue
            ctx_n, buf_n, len_n = F.arg_index("ctx"), F.arg_index("buffer"), F.arg_index("len")
            if ctx_n is None or buf_n is None or len_n is None:
                chk.broke("%s: parameters ctx/buffer/len not found" % F.name)
                continue
            tl = pb = None
            for sn, ds in M.distructs.items():
                names = {m["name"]: m for m in ds["members"]}
                if "total_length" in names and "partial_block_buffer" in names:
                    tl = (names["total_length"]["off"], names["total_length"]["size"])
                    pb = (names["partial_block_buffer"]["off"], names["partial_block_buffer"]["size"])
            if tl is None:
                chk.broke("%s: context struct with total_length / partial_block_buffer not found in DWARF" % F.name)
                continue
            n += 1
            bad = None
            BS = block_size
            grid = []
            # K = whole blocks already hashed before this call: the first block of a stream (K = 0) and a later one
            # (K = 3) are both replayed, so a special case keyed on the running total is met at both ends
            for K in (0, 3):
                for P in (0, 1, 500, BS - 16, BS - 7, BS - 1):
                    for L in sorted({1, 2, BS - P - 1, BS - P, BS - P + 1, BS, BS + 1, 2 * BS - P, 2 * BS - P + 1, 3 * BS + 7, 4 * BS}):
                        if L > 0:
                            grid.append((K, P, L))
            for (K, P, L) in grid:
                T0 = K * BS + P
                args = [None] * len(F.args)
                args[ctx_n] = ("p", "ctx", 0)
                args[buf_n] = ("p", "in", 0)
                args[len_n] = L

                def mem_init(tag, off, size, _t=T0):
                    if tag == "ctx" and off == tl[0] and size == tl[1]:
                        return _t
                    return None
                runs_ = []
                try:
                    rr = irskel.run(F, args, mem_init, unknown_dir=1)
                    runs_.append(rr)
                    if getattr(rr, "unknown_branches", 0):
                        runs_.append(irskel.run(F, args, mem_init, unknown_dir=0))
                except irskel.Unknown as e:
                    chk.broke("%s: IR skeleton not followed for carried = %d, len = %d: %s" % (F.name, P, L, e))
                    break
                ncases += 1
                for rr in runs_:
                    if bad:
                        continue
                    fill, consumed, hashed = P, 0, 0
                    newtl = None
                    why = None
                    for ev in rr.events:
                        if ev[0] == "store":
                            if ev[1] == "ctx" and ev[2] == tl[0]:
                                newtl = ev[4]
                            continue
                        _, cal, av, I = ev
                        if cal.startswith(("llvm.memcpy", "memcpy", "__memcpy_chk", "llvm.memmove")):
                            dst, s_, nb = av[0], av[1], av[2]
                            if isinstance(s_, tuple) and s_[1] == "in":
                                if not (isinstance(dst, tuple) and dst[1] == "ctx" and pb[0] <= dst[2] < pb[0] + pb[1]) or not isinstance(nb, int):
                                    why = (I, "bytes of the caller's buffer are copied somewhere other than the carried block")
                                    break
                                if s_[2] != consumed:
                                    why = (I, "the copy into the carried block starts at byte %d of the caller's buffer, but %d byte(s) have been consumed so far" % (s_[2], consumed))
                                    break
                                if dst[2] - pb[0] != fill:
                                    why = (I, "the copy lands at offset %d of the carried block, which holds %d byte(s)" % (dst[2] - pb[0], fill))
                                    break
                                if fill + nb > BS or consumed + nb > L:
                                    why = (I, "the copy of %d byte(s) overruns the carried block (%d held) or the caller's buffer (%d of %d consumed)" % (nb, fill, consumed, L))
                                    break
                                fill += nb
                                consumed += nb
                        elif re.match(block_re, cal):
                            p0 = av[0]
                            nblk = [x for x in av if isinstance(x, int)]
                            nblk = nblk[-1] if nblk else None
                            if nblk is None or not isinstance(p0, tuple):
                                why = (I, "block function called with arguments the skeleton does not determine")
                                break
                            if p0[1] == "ctx" and p0[2] == pb[0]:
                                if fill != BS or nblk != 1:
                                    why = (I, "the carried block is hashed while it holds %d of %d bytes (%d block(s) requested)" % (fill, BS, nblk))
                                    break
                                hashed += 1
                                fill = 0
                            elif p0[1] == "in":
                                if p0[2] != consumed or fill != 0:
                                    why = (I, "blocks are hashed from byte %d of the caller's buffer while %d byte(s) have been consumed and %d are still carried: the stream order is broken" % (p0[2], consumed, fill))
                                    break
                                if consumed + nblk * BS > L:
                                    why = (I, "%d block(s) are hashed from byte %d of a %d-byte buffer" % (nblk, consumed, L))
                                    break
                                consumed += nblk * BS
                                hashed += nblk
                            else:
                                why = (I, "block function reads from neither the carried block nor the caller's buffer")
                                break
                    if why is None:
                        if consumed != L:
                            why = (rr.events[-1][-1] if rr.events else F.first(), "%d of the %d byte(s) of the caller's buffer are consumed" % (consumed, L))
                        elif fill == BS:
                            why = (rr.events[-1][-1] if rr.events else F.first(), "the call returns with a full carried block that was not hashed; the next call derives %d carried byte(s) from total_length and overwrites it" % ((P + L) % BS))
                        elif hashed != (P + L) // BS or fill != (P + L) % BS:
                            why = (rr.events[-1][-1] if rr.events else F.first(), "%d block(s) hashed and %d byte(s) carried at return; %d and %d are due" % (hashed, fill, (P + L) // BS, (P + L) % BS))
                        elif newtl != T0 + L:
                            why = (F.first(), "total_length is %s at return, %d is due" % (newtl, T0 + L))
                    if why:
                        bad = (P, L, why)
            chk.obligation(rule, bad is None, key=(src, F.name, "conservation"), sample={"unit": src, "function": F.name, "cases": len(grid)})
            if bad and "does not determine" in bad[2][1]:
                chk.broke("%s: carried = %d, len = %d: %s" % (F.name, bad[0], bad[1], bad[2][1]))
                bad = None
            if bad:
                P, L, (I, msg) = bad
                chk.finding(Finding(rule, src, F.name, "conservation:carried=%d,len=%d" % (P, L), "with %d byte(s) carried and len = %d: %s" % (P, L, msg), loc=I.loc() if hasattr(I, "loc") else src))
    return n, ncases


def tail_rule(chk, rule, mods, name_re, block_re, block_size=1024, lf=8):
    """Padding of the last block on the IR skeleton: for every residue around the boundaries the tail function
    writes 0x80 right behind the residue, zero-fills the rest of the block before hashing it, hashes one block more
    exactly when the length field no longer fits, zero-fills that extra block and stores the 8-byte length into the
    last 8 bytes of the block that is hashed last."""
    import irskel
    from report import Finding
    n = ncases = 0
    BS = block_size
    for src, M in sorted(mods.items()):
        for F in M.defined():
            if not re.match(name_re, F.name):
                continue
            pn = tn = None
            for k, a in enumerate(F.args):
                if a.get("name") in ("partial_buffer", "partial_block_buffer") and pn is None:
                    pn = k
                if a.get("name") in ("total_len", "total_length") and tn is None:
                    tn = k
            if pn is None or tn is None:
                chk.broke("%s: parameters partial_buffer / total_len not found" % F.name)
                continue
            n += 1
            bad = None
            for r in (0, 1, 7, BS - lf - 2, BS - lf - 1, BS - lf, BS - lf + 1, BS - 2, BS - 1):
                T = 7 * BS + r
                args = [("p", "arg%d" % k, 0) if "*" in (a.get("ty") or "") else None for k, a in enumerate(F.args)]
                args[pn] = ("p", "buf", 0)
                args[tn] = T
                try:
                    try:
                        rr = irskel.run(F, args, None)
                    except irskel.Unknown:
                        rr = irskel.run(F, args, None, unknown_dir=1)      # e.g. a branch on a pointer's alignment
                except irskel.Unknown as e:
                    chk.broke("%s: IR skeleton not followed for a residue of %d: %s" % (F.name, r, e))
                    break
                ncases += 1
                if bad:
                    continue
                zero = set()          # bytes of the block known to be zero
                mark = None
                lenpos = None
                nblk = 0
                why = None
                lastI = F.first()
                for ev in rr.events:
                    lastI = ev[-1]
                    if ev[0] == "store":
                        _, tag, o, size, v, I = ev
                        if tag != "buf":
                            continue
                        if size == 1 and v == 0x80:
                            mark = o
                            zero.discard(o)
                        elif size == 8:
                            lenpos = o
                            for b in range(o, o + 8):
                                zero.discard(b)
                        else:
                            for b in range(o, o + size):
                                zero.discard(b)
                        continue
                    _, cal, av, I = ev
                    if cal.startswith(("llvm.memset", "memset", "__memset_chk")) and isinstance(av[0], tuple) and av[0][1] == "buf" and av[1] == 0 and isinstance(av[2], int):
                        zero |= set(range(av[0][2], av[0][2] + av[2]))
                    elif cal.startswith(("llvm.memcpy", "memcpy", "__memcpy_chk", "llvm.memmove")) and isinstance(av[0], tuple) and av[0][1] == "buf" and isinstance(av[2], int):
                        if av[2] == 8:
                            lenpos = av[0][2]
                        for b in range(av[0][2], av[0][2] + av[2]):
                            zero.discard(b)
                    elif re.match(block_re, cal):
                        nblk += 1
                        first = nblk == 1
                        if not (isinstance(av[0], tuple) and av[0][1] == "buf" and av[0][2] == 0):
                            why = (I, "the block function is not given the padded block")
                            break
                        need2 = r + 1 > BS - lf
                        if first:
                            if mark != r:
                                why = (I, "the padding byte 0x80 is stored at offset %s, the residue ends at %d" % (mark, r))
                                break
                            hi = BS if need2 else BS - lf
                            miss = [b for b in range(r + 1, hi) if b not in zero]
                            if miss:
                                why = (I, "byte %d of the padded block is hashed without having been zeroed" % miss[0])
                                break
                        if (first and not need2) or (not first):
                            if not first:
                                miss = [b for b in range(0, BS - lf) if b not in zero]
                                if miss:
                                    why = (I, "byte %d of the second padding block is not zero" % miss[0])
                                    break
                            if lenpos != BS - lf:
                                why = (I, "the last block is hashed with the length field stored at offset %s instead of %d" % (lenpos, BS - lf))
                                break
                        elif lenpos is not None and first and need2:
                            pass
                if why is None:
                    want = 2 if r + 1 > BS - lf else 1
                    if nblk != want:
                        why = (lastI, "%d block(s) are hashed for the padding; a residue of %d byte(s) needs %d" % (nblk, r, want))
                if why:
                    bad = (r, why)
            chk.obligation(rule, bad is None, key=(src, F.name, "tail"), sample={"unit": src, "function": F.name})
            if bad:
                r, (I, msg) = bad
                chk.finding(Finding(rule, src, F.name, "padding:residue=%d" % r, "with a residue of %d byte(s): %s" % (r, msg), loc=I.loc() if hasattr(I, "loc") else src))
    return n, ncases


def shuffle_mask_rule(chk, rule, lib, name_re):
    """Byte-order masks are constants: in the hash kernels / block functions every register that serves as the
    control operand of a (v)pshufb has, on every path, been loaded from constant data (directly, by broadcast, or
    through register copies).  A mask register that the loop body also uses as scratch - the typical result of
    hoisting the mask load out of the block loop - shuffles every block but the first with garbage.
    Forward reaching-class dataflow over the lifted object code; join = union of classes."""
    import absint
    import c19
    from report import Finding
    from x86 import PARENT
    VEC = re.compile(r"^[XYZ]MM(\d+)$")
    n = nshuf = 0
    for key, name in lib.entry_list:
        if not re.match(name_re, name):
            continue
        f = lib.func(key)
        p1 = absint.Interp(lib, lambda t, c=None: c19.summary_of(lib, t, c)).run(f)
        n += 1

        def const_mem(i):
            m = p1.maddr.get(i.addr)
            if not m:
                return False
            v = m[0]
            if v[0] == "addr":
                return True
            rs = absint.roots(v)
            return bool(rs) and all(isinstance(t, tuple) and t[0] == "sym" for t in rs)
        state_in = {f.entry: {}}
        work = [f.entry]
        bad = {}
        it = 0
        while work:
            b = work.pop()
            it += 1
            if it > 100000:
                chk.broke("%s: shuffle-mask dataflow did not converge" % name)
                break
            st = {k: set(v) for k, v in state_in[b].items()}
            for i in f.blocks[b]:
                vregs = [(k, o[1]) for k, o in enumerate(i.ops) if o[0] == "r" and o[1] and VEC.match(o[1])]
                if "PSHUFB" in i.op and i.mem < 0 and len(vregs) >= 2:
                    mk = int(VEC.match(vregs[-1][1]).group(1))
                    cls = st.get(mk, {("other", None)})
                    nshuf += 1
                    others = [c for c in cls if c[0] != "const"]
                    if others and i.addr not in bad:
                        bad[i.addr] = (i, others[0][1])
                defs = [d for d in i.explicit_defs() if VEC.match(d)]
                if not defs:
                    continue
                d = int(VEC.match(defs[0]).group(1))
                op = i.op
                srcs = [int(VEC.match(u).group(1)) for u in i.reg_uses_nomem() if VEC.match(u)]
                if i.mem >= 0 and i.reads_mem_operand() and re.match(r"^V?(MOVDQ[AU]|MOVAPS|MOVUPS|MOVDQA|MOVDQU|LDDQU|PBROADCAST|BROADCAST)", op) and not srcs:
                    st[d] = {("const", i.addr)} if const_mem(i) else {("other", i.addr)}
                elif i.mem < 0 and re.match(r"^V?(MOVDQ[AU]|MOVAPS|MOVUPS|MOVDQA|MOVDQU)", op) and len(srcs) == 1:
                    st[d] = set(st.get(srcs[0], {("other", i.addr)}))
                else:
                    # any function of constants is a constant (vinserti128 of two mask halves, vpermq of a mask, ...)
                    gp = [u for u in i.reg_uses_nomem() if u in PARENT]
                    memok = i.mem < 0 or not i.reads_mem_operand() or const_mem(i)
                    if srcs and not gp and memok and all(all(c[0] == "const" for c in st.get(x, {("other", None)})) for x in srcs) and d not in srcs[len(srcs):]:
                        st[d] = {("const", i.addr)}
                    else:
                        st[d] = {("other", i.addr)}
            for s_ in f.succ.get(b, []):
                old = state_in.get(s_)
                if old is None:
                    state_in[s_] = {k: set(v) for k, v in st.items()}
                    work.append(s_)
                else:
                    ch = False
                    for k, v in st.items():
                        if k in old:
                            if not v <= old[k]:
                                old[k] |= v
                                ch = True
                        # a register defined on one path only stays absent (= unknown -> "other" when used)
                    for k in list(old):
                        if k not in st:
                            if ("other", None) not in old[k]:
                                old[k].add(("other", None))
                                ch = True
                    if ch and s_ not in work:
                        work.append(s_)
        chk.obligation(rule, not bad, key=(name, "shuffle-mask"), sample={"function": name, "pshufb_with_register_mask": nshuf})
        for a in sorted(bad)[:2]:
            i, da = bad[a]
            dtext = ""
            if da is not None:
                for bl in f.blocks.values():
                    for j in bl:
                        if j.addr == da:
                            dtext = " (e.g. `%s` at %s)" % (j.text.strip(), f.obj.line_of(f.sec, da))
            chk.finding(Finding(rule, f.obj.name, name, "shuffle-mask", "`%s`: on some path the control operand of the byte shuffle was last written by something other than a load of constant data%s - a byte-order mask that is loaded once and then clobbered shuffles later blocks with garbage" % (i.text.strip(), dtext), loc=f.obj.line_of(f.sec, i.addr)))
    return n, nshuf


def align_up_rule(chk, rule, mods):
    """A pointer into a caller-provided object that is aligned by masking must be rounded *up*: `(p + A-1) & -A` stays
    inside the object when the object has A-1 spare bytes; `p & -A` steps in front of it and overlaps whatever lies
    before (the frame buffer of the multi-hash contexts sits right behind the interim digests)."""
    from report import Finding
    n = 0
    for src, M in sorted(mods.items()):
        for F in M.defined():
            for I in F.all_insts():
                if I.op != "inttoptr":
                    continue
                a = F.resolve(I.ops[0])
                if not (isinstance(a, ir.Inst) and a.op == "and"):
                    continue
                c = F.const_int(a.ops[1])
                x = a.ops[0]
                if c is None:
                    c = F.const_int(a.ops[0])
                    x = a.ops[1]
                if c is None:
                    continue
                cm = c & 0xFFFFFFFFFFFFFFFF
                A = (~cm & 0xFFFFFFFFFFFFFFFF) + 1
                if A < 2 or A & (A - 1) or A > 4096:
                    continue
                # x must be add(ptrtoint(p), K >= A-1)
                xi = F.resolve(x)
                K = 0
                base = xi
                if isinstance(xi, ir.Inst) and xi.op == "add":
                    k1, k2 = F.const_int(xi.ops[0]), F.const_int(xi.ops[1])
                    if k2 is not None:
                        K, base = k2, F.resolve(xi.ops[0])
                    elif k1 is not None:
                        K, base = k1, F.resolve(xi.ops[1])
                if not (isinstance(base, ir.Inst) and base.op == "ptrtoint"):
                    continue
                root, off = F.ptr_root(base.ops[0])
                if not (isinstance(root, dict) and root.get("k") == "a"):
                    continue           # only pointers into a caller's object are judged
                n += 1
                ok = K >= A - 1
                chk.obligation(rule, ok, key=(src, F.name, I.id), sample={"unit": src, "function": F.name, "alignment": A, "added_before_masking": K})
                if not ok:
                    chk.finding(Finding(rule, src, F.name, "align-down:%d" % A, "a pointer into the caller's context is aligned to %d bytes by masking after adding only %d: the result can lie up to %d bytes in front of the field it was taken from and overlaps the data stored before it" % (A, K, A - 1 - K), loc=I.loc()))
    return n
