"""Phase-2 secrecy-class dataflow (C14) over a function whose stack geometry / address provenance has been
resolved by lib/absint.py.

Classes:  ZERO < CONST < MIXED < PSD   (join = max: "may hold a secret on some path")
  PSD   purely secret-derived: every non-constant input of the computation is key material
  MIXED depends on caller data (plaintext, ciphertext, AAD, IV, context) - not one of the property's secrets
Computation rule (comb): any MIXED input -> MIXED; else any PSD input -> PSD; else CONST.
Data-movement merges (inserts, blends, unpacks, align, masked merges) use join instead of comb.
"""
import re

import absint
import x86

ZERO, CONST, MIXED, PSD = 0, 1, 2, 3
NAMES = ["ZERO", "CONST", "MIXED", "PSD"]
SEG = ((0, 16), (16, 32), (32, 64))

MERGE_PREFIX = ("PINSR", "VPINSR", "MOVLHPS", "MOVHLPS", "VMOVLHPS", "VMOVHLPS", "PUNPCK", "VPUNPCK", "UNPCK", "VUNPCK", "PALIGNR", "VPALIGNR",
                "SHUFP", "VSHUFP", "PBLEND", "VPBLEND", "BLENDP", "VBLENDP", "BLENDV", "VBLENDV", "VPERM2", "VINSERT", "VSHUFI", "VSHUFF", "VALIGN",
                "VPERMT2", "VPERMI2", "MOVHP", "MOVLP", "VMOVHP", "VMOVLP", "MOVSDrr", "MOVSSrr", "VMOVSDrr", "VMOVSSrr", "INSERTPS", "VINSERTPS", "VPBLENDM", "VBLENDM")
ZERO_IDIOM_PREFIX = ("PXOR", "XORPS", "XORPD", "VPXOR", "VXORPS", "VXORPD", "PSUBB", "PSUBW", "PSUBD", "PSUBQ", "VPSUBB", "VPSUBW", "VPSUBD", "VPSUBQ", "PCMPGT", "VPCMPGT")
ONES_IDIOM_PREFIX = ("PCMPEQ", "VPCMPEQ")


def comb(cs):
    cs = [c for c in cs if c is not None]
    if not cs:
        return CONST
    if MIXED in cs:
        return MIXED
    if PSD in cs:
        return PSD
    if all(c == ZERO for c in cs):
        return ZERO
    return CONST


def jn(a, b):
    if a is None:
        return b
    if b is None:
        return a
    return max(a, b)


class SecResult(object):
    def __init__(self):
        self.reg_findings = []     # (ins, kind, 'zmmN[seg]')
        self.stack_findings = []   # (ins, kind, [(slot, size)])
        self.exits = 0
        self.psd_arg_stores = {}   # entry root name -> max extent written with PSD data
        self.unknown_loads = 0
        self.ins = 0
        self.psd_loads = 0
        self.spills_psd = 0
        self.broken = []
        self.gpr_psd_at_exit = 0
        self.wipes = 0


class SecInterp(object):
    def __init__(self, lib, func, phase1, role_of_root, call_handler=None):
        """role_of_root(root_name) -> 'key'|'tweak'|other; roots are entry registers ('RDI') or 'ARG@n'."""
        self.lib = lib
        self.f = func
        self.p1 = phase1
        self.role = role_of_root
        self.call_handler = call_handler
        self.res = SecResult()

    # ------------------------------------------------------------ memory classes
    def root_class(self, t):
        if isinstance(t, str):
            return PSD if self.role(t) in ("key", "tweak") else MIXED
        if isinstance(t, tuple):
            if t[0] == "sym":
                return CONST
            if t[0] == "ld":
                return max([self.root_class(x) for x in t[1]] or [MIXED])
            if t[0] == "stack":
                return None
        return MIXED

    def load_class(self, st, av, indexed, size):
        slots = st[2]
        k = av[0]
        if k in ("sp", "fr"):
            key = absint.Interp.slot_key(av)
            base = key[:-1]
            off = key[-1]
            cs = []
            if indexed:
                for kk, (sz, c) in slots.items():
                    if kk[:-1] == base:
                        cs.append(c)
            else:
                n = size or 8
                for kk, (sz, c) in slots.items():
                    if kk[:-1] == base and kk[-1] != "*" and kk[-1] < off + n and off < kk[-1] + sz:
                        cs.append(c)
                star = slots.get(base + ("*",))
                if star:
                    cs.append(star[1])
            return max(cs) if cs else MIXED
        if k == "addr":
            return CONST
        if k == "const":
            return MIXED
        rs = absint.roots(av)
        if rs is None:
            self.res.unknown_loads += 1
            return MIXED
        cs = []
        for t in rs:
            c = self.root_class(t)
            if c is None:
                # pointer into own stack with unknown offset
                for kk, (sz, cc) in slots.items():
                    cs.append(cc)
                continue
            cs.append(c)
        if not cs:
            return MIXED
        return PSD if PSD in cs else max(cs)

    def store_mem(self, st, i, av, indexed, size, cls):
        slots = st[2]
        k = av[0]
        if k in ("sp", "fr"):
            key = absint.Interp.slot_key(av)
            base = key[:-1]
            off = key[-1]
            if indexed or size is None:
                sk = base + ("*",)
                old = slots.get(sk)
                slots[sk] = (0, jn(old[1] if old else None, cls))
                return
            for kk in list(slots):
                if kk[:-1] == base and kk[-1] != "*" and off <= kk[-1] and kk[-1] + slots[kk][0] <= off + size:
                    del slots[kk]
            slots[key] = (size, cls)
            if cls == PSD:
                self.res.spills_psd += 1
            return
        rs = absint.roots(av)
        if rs and cls == PSD:
            for t in rs:
                if isinstance(t, str):
                    ext = (av[2] + (size or 0)) if av[0] == "init" else 1 << 30
                    self.res.psd_arg_stores[t] = max(self.res.psd_arg_stores.get(t, 0), ext)
        if rs and ("stack",) in rs:
            for base in {kk[:-1] for kk in slots}:
                sk = base + ("*",)
                old = slots.get(sk)
                slots[sk] = (0, jn(old[1] if old else None, cls))

    # ------------------------------------------------------------ register helpers
    @staticmethod
    def vread(vec, reg):
        idx, nbytes = x86.vec_of(reg)
        segs = vec.get(idx)
        if segs is None:
            return None
        n = 1 if nbytes == 16 else 2 if nbytes == 32 else 3
        c = None
        for s in segs[:n]:
            c = jn(c, s)
        return c

    @staticmethod
    def vwrite(vec, reg, cls, vex, merge_old=False):
        idx, nbytes = x86.vec_of(reg)
        old = vec.get(idx) or (None, None, None)
        n = 1 if nbytes == 16 else 2 if nbytes == 32 else 3
        new = list(old)
        for k in range(3):
            if k < n:
                new[k] = jn(old[k], cls) if merge_old else cls
            elif vex:
                new[k] = ZERO
        vec[idx] = tuple(new)

    # ------------------------------------------------------------ fixpoint
    def run(self):
        f = self.f
        gpr0 = {r: CONST for r in x86.G64}
        st0 = (gpr0, {}, {})
        states = {f.entry: st0}
        work = [f.entry]
        inwork = {f.entry}
        it = 0
        while work:
            b = work.pop()
            inwork.discard(b)
            it += 1
            if it > 100000:
                self.res.broken.append("secrecy fixpoint did not converge in %s" % f.name)
                break
            st = states[b]
            st = (dict(st[0]), dict(st[1]), dict(st[2]))
            self.block(b, st, False)
            for s in f.succ.get(b, []):
                if (b, s) in getattr(self.p1, "dead_edges", ()):
                    continue
                if s not in states:
                    states[s] = (dict(st[0]), dict(st[1]), dict(st[2]))
                    if s not in inwork:
                        work.append(s)
                        inwork.add(s)
                else:
                    o = states[s]
                    ch = False
                    g = {}
                    for r in x86.G64:
                        j = jn(o[0][r], st[0][r])
                        if j != o[0][r]:
                            ch = True
                        g[r] = j
                    v = {}
                    for idx in set(o[1]) | set(st[1]):
                        a = o[1].get(idx) or (None, None, None)
                        c = st[1].get(idx) or (None, None, None)
                        j = tuple(jn(a[k], c[k]) for k in range(3))
                        if j != a:
                            ch = True
                        v[idx] = j
                    sl = {}
                    for kk in set(o[2]) | set(st[2]):
                        a = o[2].get(kk)
                        c = st[2].get(kk)
                        if a is None or c is None:
                            # slot written on one path only: keep it (it may hold a secret on that path)
                            j = a or c
                            if a is None:
                                ch = True
                        else:
                            j = (max(a[0], c[0]), max(a[1], c[1]))
                            if j != a:
                                ch = True
                        sl[kk] = j
                    if ch:
                        states[s] = (g, v, sl)
                        if s not in inwork:
                            work.append(s)
                            inwork.add(s)
        for b in sorted(f.blocks):
            if b in states:
                st = states[b]
                self.block(b, (dict(st[0]), dict(st[1]), dict(st[2])), True)
        return self.res

    def at_exit(self, st, i, kind):
        gpr, vec, slots = st
        self.res.exits += 1
        for idx, segs in sorted(vec.items()):
            for k, c in enumerate(segs):
                if c == PSD:
                    name = "%smm%d" % ("xyz"[k], idx) + ("" if k == 0 else "[%d:%d]" % (SEG[k][0] * 8, SEG[k][1] * 8 - 1))
                    self.res.reg_findings.append((i, kind, name))
        bad = []
        for kk, (sz, c) in sorted(slots.items(), key=lambda x: repr(x[0])):
            if c != PSD:
                continue
            if kk[0] == "sp" and kk[-1] != "*" and kk[-1] >= 0:
                continue
            bad.append((kk, sz))
        if bad:
            self.res.stack_findings.append((i, kind, bad))
        self.res.gpr_psd_at_exit += sum(1 for r in x86.CALLER_SAVED if gpr[r] == PSD)

    def block(self, b, st, final):
        f = self.f
        for i in f.blocks[b]:
            if final:
                self.res.ins += 1
            self.step(i, st, final)

    def step(self, i, st, final):
        gpr, vec, slots = st
        op = i.op
        p1 = self.p1
        if i.is_ret():
            if final:
                self.at_exit(st, i, "ret")
            return
        if i.is_branch():
            if final and (i.is_indirect() or ((("U" in i.fl) or op.startswith("JMP")) and (i.rel or (i.branch_target() in self.lib.entry_addrs.get((self.f.obj.name, self.f.sec), ()) and i.branch_target() != self.f.entry)))):
                self.at_exit(st, i, "tail-jump")
            return
        if i.is_call():
            if self.call_handler:
                self.call_handler(self, i, st, final)
            else:
                for r in x86.CALLER_SAVED:
                    gpr[r] = CONST
                for idx in range(32):
                    vec[idx] = (MIXED, MIXED, MIXED)
            return
        if op == "VZEROALL":
            for idx in range(16):
                vec[idx] = (ZERO, ZERO, ZERO)
            return
        if op == "VZEROUPPER":
            for idx in range(16):
                o = vec.get(idx) or (None, None, None)
                vec[idx] = (o[0], ZERO, ZERO)
            return
        av = p1.maddr.get(i.addr)
        so = i.string_op() if i.mem >= 0 else None
        reads_mem = i.reads_mem_operand() and so is None
        writes_mem = i.writes_mem_operand() and so is None
        # ---- push / pop
        if op.startswith("PUSH"):
            sp = self.sp_at(i)
            cls = CONST
            if op == "PUSH64r":
                cls = gpr[x86.PARENT[i.reg(0)]]
            elif op == "PUSH64rmm" and av:
                cls = self.load_class(st, av[0], av[1], 8)
            if sp is not None:
                self.store_mem(st, i, absint.add_const(sp, -8), False, 8, cls)
            return
        if op.startswith("POP"):
            sp = self.sp_at(i)
            cls = self.load_class(st, sp, False, 8) if sp is not None else MIXED
            if op == "POP64r":
                gpr[x86.PARENT[i.reg(0)]] = cls
            return
        # ---- sources
        srcs = []
        kmask = False
        tied_src = None
        for k in range(i.ndefs, len(i.ops)):
            if i.mem >= 0 and i.mem <= k < i.mem + 5 and so is None:
                continue
            o = i.ops[k]
            if o[0] != "r" or not o[1]:
                continue
            r = o[1]
            if x86.K_RE.match(r):
                kmask = True
                continue
            if x86.vec_of(r):
                c = self.vread(vec, r)
                c = MIXED if c is None else c
                if o[3] >= 0:
                    tied_src = c
                srcs.append((r, c, o[3] >= 0))
            elif r in x86.PARENT:
                if x86.PARENT[r] == "RSP":
                    continue
                srcs.append((r, gpr[x86.PARENT[r]], o[3] >= 0))
        for u in i.iuses:
            if u in x86.PARENT and x86.PARENT[u] != "RSP":
                srcs.append((u, gpr[x86.PARENT[u]], False))
        memc = None
        if so is not None:
            # string instruction: loads through rsi, stores through rdi, unknown extent
            if so[1]:
                memc = MIXED
        elif reads_mem and av is not None:
            memc = self.load_class(st, av[0], av[1], av[2])
            if memc == PSD and final:
                self.res.psd_loads += 1
        merge_masked = kmask and "{z}" not in i.text
        is_merge = op.startswith(MERGE_PREFIX)
        vex = op.startswith("V")
        # zero / ones idioms
        regs_used = [s[0] for s in srcs if x86.vec_of(s[0]) or s[0] in x86.PARENT]
        zero = False
        if op.startswith(ZERO_IDIOM_PREFIX) and i.mem < 0 and not kmask:
            vs = [s[0] for s in srcs if x86.vec_of(s[0])]
            if len(vs) == 2 and x86.vec_of(vs[0])[0] == x86.vec_of(vs[1])[0]:
                zero = True
        if op in ("XOR64rr", "XOR32rr", "SUB64rr", "SUB32rr") and i.reg(1) == i.reg(2):
            zero = True
        ones = False
        if op.startswith(ONES_IDIOM_PREFIX) and i.mem < 0 and not kmask:
            vs = [s[0] for s in srcs if x86.vec_of(s[0])]
            if len(vs) == 2 and x86.vec_of(vs[0])[0] == x86.vec_of(vs[1])[0]:
                ones = True
        if op.startswith("VPTERNLOG") and i.imm(len(i.ops) - 1) in (0xFF, 0x00, -1):
            ones = True
        if zero:
            cls = ZERO
        elif ones:
            cls = CONST
        elif merge_masked:
            new = comb([c for (r, c, tied) in srcs if not tied] + ([memc] if memc is not None else []))
            old = [c for (r, c, tied) in srcs if tied]
            cls = jn(new, old[0]) if old else new
        elif is_merge:
            cs = [c for (r, c, tied) in srcs if x86.vec_of(r) or True] + ([memc] if memc is not None else [])
            cls = max(cs) if cs else CONST
        else:
            cls = comb([c for (r, c, tied) in srcs] + ([memc] if memc is not None else []))
        # ---- destinations
        defs = i.explicit_defs()
        for d in defs + i.idefs:
            if x86.vec_of(d):
                self.vwrite(vec, d, cls, vex, merge_old=False)
            elif d in x86.PARENT:
                p = x86.PARENT[d]
                if p == "RSP":
                    continue
                if x86.WIDTH[d] >= 32:
                    gpr[p] = cls
                else:
                    gpr[p] = jn(gpr[p], cls)
        if so is not None and so[0]:
            a = p1.maddr.get(i.addr)
            done = False
            if op.startswith("STOS") and "rep" in i.text:
                # rep stos with a constant count and a fixed stack destination: a covering fixed-extent store
                # (what gcc emits for a memset it must keep)
                ra = p1.reg_at.get(i.addr)
                if ra is not None:
                    rdi, rcx = ra["RDI"], ra["RCX"]
                    esz = {"STOSB": 1, "STOSW": 2, "STOSL": 4, "STOSQ": 8}.get(op)
                    if rdi[0] in ("sp", "fr") and rcx[0] == "const" and esz and 0 < rcx[1] * esz <= 1 << 20:
                        self.store_mem(st, i, rdi, False, rcx[1] * esz, comb([gpr["RAX"]]))
                        done = True
            if a is not None and not done:
                self.store_mem(st, i, a[0], True, None, comb([gpr["RAX"]]) if op.startswith("STOS") else MIXED)
        elif writes_mem and av is not None:
            # value stored: class of the register/immediate sources (address registers excluded above)
            scls = cls if not (reads_mem) else cls
            if zero:
                scls = ZERO
            if not srcs and memc is None:
                scls = ZERO if (i.ops and i.ops[-1][0] == "i" and i.ops[-1][1] == 0) else CONST
            self.store_mem(st, i, av[0], av[1], av[2], scls)
            if final and scls in (ZERO, CONST) and av[0][0] in ("sp", "fr"):
                self.res.wipes += 1

    def sp_at(self, i):
        """Abstract rsp before instruction i (from phase 1 exits/in_state is too coarse: recompute from maddr-less
        knowledge is not possible, so phase 1 must have been run with keep_regs)."""
        r = self.p1.reg_at.get(i.addr)
        if r is None:
            return None
        v = r["RSP"]
        return v if v[0] in ("sp", "fr") else None
