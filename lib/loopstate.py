"""Accumulator discipline of block loops (DESIGN part III): a state location (digest word, murmur state) that a
multi-block loop re-loads from memory in every iteration must also be written back in every iteration; if it is
only written back after the loop, all iterations but the last are lost.  Structural: natural loops of the lifted
CFG, abstract addresses (argument + constant offset) from the phase-1 analysis."""


def natural_loops(f):
    """[(header, set of blocks)] for every back edge (DFS retreating edge whose target dominates its source)."""
    succ = f.succ
    blocks = list(f.blocks)
    # dominators (iterative)
    dom = {b: set(blocks) for b in blocks}
    dom[f.entry] = {f.entry}
    pred = {b: [] for b in blocks}
    for b in blocks:
        for s in succ.get(b, []):
            if s in pred:
                pred[s].append(b)
    changed = True
    while changed:
        changed = False
        for b in blocks:
            if b == f.entry:
                continue
            ps = [dom[p] for p in pred[b]]
            nd = set.intersection(*ps) | {b} if ps else {b}
            if nd != dom[b]:
                dom[b] = nd
                changed = True
    loops = []
    for b in blocks:
        for h in succ.get(b, []):
            if h in dom[b]:
                body = {h, b}
                stack = [b]
                while stack:
                    x = stack.pop()
                    if x == h:
                        continue
                    for p in pred[x]:
                        if p not in body:
                            body.add(p)
                            stack.append(p)
                loops.append((h, body))
    return loops


def _regkey(r):
    from x86 import vec_of, PARENT
    v = vec_of(r)
    return ("v", v) if v is not None else PARENT.get(r, r)


def _key(m):
    v = m[0]
    if v[0] == "init" and not m[1]:
        return (v[1], v[2])
    return None


def lost_iterations(f, p1):
    """[(location, load ins, store-after ins)]: locations re-loaded in a loop, never stored in it, stored after it."""
    out = []
    for (h, body) in natural_loops(f):
        loads = {}
        stores_in = set()
        for b in body:
            for i in f.blocks[b]:
                if i.mem < 0 or i.op.startswith(("LEA", "PREFETCH")):
                    continue
                m = p1.maddr.get(i.addr)
                if not m:
                    continue
                k = _key(m)
                if k is None:
                    continue
                size = i.memsize() or m[2] or 1
                if i.writes_mem_operand():
                    stores_in.add(k)
                if i.reads_mem_operand():
                    loads.setdefault(k, (i, size))
        if not loads:
            continue
        # blocks after the loop
        after = set()
        stack = [s for b in body for s in f.succ.get(b, []) if s not in body]
        while stack:
            x = stack.pop()
            if x in after or x in body:
                continue
            after.add(x)
            stack.extend(f.succ.get(x, []))
        defs_in_loop = set()
        for b in body:
            for i in f.blocks[b]:
                for r in i.explicit_defs():
                    defs_in_loop.add(_regkey(r))
        for b in after:
            bl = f.blocks[b]
            for n, i in enumerate(bl):
                if i.mem < 0 or not i.writes_mem_operand():
                    continue
                m = p1.maddr.get(i.addr)
                k = _key(m) if m else None
                if k is None or k not in loads or k in stores_in:
                    continue
                # the stored value must be one the loop computed (an accumulator written back), not a value formed
                # after the loop from a fresh load (e.g. data pointers advanced once by the bytes consumed)
                if i.mem + 5 >= len(i.ops) or i.ops[i.mem + 5][0] != "r":
                    continue
                src = _regkey(i.ops[i.mem + 5][1])
                redefined_after = any(src in [_regkey(r) for r in j.explicit_defs()] for j in bl[:n])
                if redefined_after or src not in defs_in_loop:
                    continue
                out.append((k, loads[k][0], i, h))
    return out
