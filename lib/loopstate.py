"""Accumulator discipline of block loops (DESIGN part III): a state location (digest word, murmur state) that a
multi-block loop re-loads from memory in every iteration must also be written back in every iteration; if it is
only written back after the loop, all iterations but the last are lost.  Structural: natural loops of the lifted
CFG, abstract addresses (argument + constant offset) from the phase-1 analysis."""


def natural_loops(f):
    """[(header, set of blocks)] for every back edge (DFS retreating edge whose target dominates its source)."""
    succ = f.succ
    blocks = list(f.blocks)
    # dominators (iterative)
    dom = {b: set(blocks) for b in blocks}
    dom[f.entry] = {f.entry}
    pred = {b: [] for b in blocks}
    for b in blocks:
        for s in succ.get(b, []):
            if s in pred:
                pred[s].append(b)
    changed = True
    while changed:
        changed = False
        for b in blocks:
            if b == f.entry:
                continue
            ps = [dom[p] for p in pred[b]]
            nd = set.intersection(*ps) | {b} if ps else {b}
            if nd != dom[b]:
                dom[b] = nd
                changed = True
    loops = []
    for b in blocks:
        for h in succ.get(b, []):
            if h in dom[b]:
                body = {h, b}
                stack = [b]
                while stack:
                    x = stack.pop()
                    if x == h:
                        continue
                    for p in pred[x]:
                        if p not in body:
                            body.add(p)
                            stack.append(p)
                loops.append((h, body))
    return loops


def _regkey(r):
    from x86 import vec_of, PARENT
    v = vec_of(r)
    return ("v", v) if v is not None else PARENT.get(r, r)


def _key(m):
    v = m[0]
    if v[0] == "init" and not m[1]:
        return (v[1], v[2])
    return None


def lost_iterations(f, p1):
    """[(location, load ins, store-after ins)]: locations re-loaded in a loop, never stored in it, stored after it."""
    out = []
    for (h, body) in natural_loops(f):
        loads = {}
        stores_in = set()
        for b in body:
            for i in f.blocks[b]:
                if i.mem < 0 or i.op.startswith(("LEA", "PREFETCH")):
                    continue
                m = p1.maddr.get(i.addr)
                if not m:
                    continue
                k = _key(m)
                if k is None:
                    continue
                size = i.memsize() or m[2] or 1
                if i.writes_mem_operand():
                    stores_in.add(k)
                if i.reads_mem_operand():
                    loads.setdefault(k, (i, size))
        if not loads:
            continue
        # blocks after the loop
        after = set()
        stack = [s for b in body for s in f.succ.get(b, []) if s not in body]
        while stack:
            x = stack.pop()
            if x in after or x in body:
                continue
            after.add(x)
            stack.extend(f.succ.get(x, []))
        defs_in_loop = set()
        for b in body:
            for i in f.blocks[b]:
                for r in i.explicit_defs():
                    defs_in_loop.add(_regkey(r))
        for b in after:
            bl = f.blocks[b]
            for n, i in enumerate(bl):
                if i.mem < 0 or not i.writes_mem_operand():
                    continue
                m = p1.maddr.get(i.addr)
                k = _key(m) if m else None
                if k is None or k not in loads or k in stores_in:
                    continue
                # the stored value must be one the loop computed (an accumulator written back), not a value formed
                # after the loop from a fresh load (e.g. data pointers advanced once by the bytes consumed)
                if i.mem + 5 >= len(i.ops) or i.ops[i.mem + 5][0] != "r":
                    continue
                src = _regkey(i.ops[i.mem + 5][1])
                redefined_after = any(src in [_regkey(r) for r in j.explicit_defs()] for j in bl[:n])
                if redefined_after or src not in defs_in_loop:
                    continue
                out.append((k, loads[k][0], i, h))
    return out


def stale_state_copy(f, p1):
    """A frame region that is filled *before* a block loop with data loaded through a pointer argument (a private copy
    of the chaining state), that is read inside the loop, but that the loop never writes - while the loop does store
    through that argument: the loop keeps chaining from the copy it never updates, so every block starts from the
    state of the call's first block.  Returns [(arg register, (lo, hi) of the frame region, load ins in the loop)]."""
    from x86 import vec_of
    out = []
    loops = natural_loops(f)
    if not loops:
        return out
    inloop = set()
    for (h, body) in loops:
        inloop |= body
    # copy-in: within one block outside the loops, a vector register loaded through an argument and stored to the frame
    regions = {}          # arg -> [ (frame id, lo, hi) ]
    for b, bl in f.blocks.items():
        if b in inloop:
            continue
        src = {}
        for i in bl:
            m = p1.maddr.get(i.addr) if i.mem >= 0 else None
            defs = [vec_of(d) for d in i.explicit_defs() if vec_of(d) is not None]
            if m and i.reads_mem_operand() and not i.writes_mem_operand() and m[0][0] == "init" and not m[1] and defs and i.op.upper().lstrip("V").startswith(("MOVUPS", "MOVDQU", "MOVDQA", "MOVAPS", "LDDQU")):
                src[defs[0]] = m[0][1]
                continue
            if m and i.writes_mem_operand() and m[0][0] == "fr" and not m[1] and i.mem + 5 < len(i.ops) and i.ops[i.mem + 5][0] == "r":
                v = vec_of(i.ops[i.mem + 5][1])
                if v is not None and v in src:
                    regions.setdefault(src[v], []).append((m[0][1], m[0][2], m[0][2] + (i.memsize() or 16)))
            for d in defs:
                src.pop(d, None)
    for arg, regs in regions.items():
        fid = regs[0][0]
        lo = min(r[1] for r in regs if r[0] == fid)
        hi = max(r[2] for r in regs if r[0] == fid)
        if hi - lo < 64:
            continue
        for (h, body) in loops:
            lds = []
            wrote_frame = False
            wrote_arg = False
            for b in body:
                for i in f.blocks[b]:
                    m = p1.maddr.get(i.addr) if i.mem >= 0 else None
                    if not m:
                        continue
                    v = m[0]
                    if v[0] == "fr" and v[1] == fid and lo <= v[2] < hi:
                        if i.writes_mem_operand():
                            wrote_frame = True
                        elif i.reads_mem_operand():
                            lds.append(i)
                    if i.writes_mem_operand() and v[0] == "init" and v[1] == arg:
                        wrote_arg = True
            if lds and not wrote_frame and wrote_arg:
                out.append((arg, (lo, hi), lds[0], h))
    return out
