"""In-place hazard analysis (DESIGN part III): "in == out or disjoint".

When the caller passes the same pointer for input and output, a load through the input argument that follows a
store through the output argument to the same bytes reads the function's own output instead of the caller's
data.  The analysis is purely structural:

  1. symbolic linear forms for the general-purpose registers: const + sum(coef * sym), where a sym is the entry
     value of a register, the value of a register at a join block where predecessors disagree, or the opaque
     result of one instruction; forward fixpoint (two levels per register and block, so it terminates);
  2. a forward may-set of "pending output stores" (address form, size); entries that mention a join symbol of
     block B or the opaque result of instruction I are dropped when B is (re-)entered / I executes again, because
     the symbol then names a new run-time value;
  3. at every load whose address form contains the input argument's entry symbol with coefficient 1, the input
     symbol is replaced by the output symbol; a pending store with the same symbolic part and an overlapping byte
     range is a hazard.

Unknown relations (different symbolic parts) are never reported, so the rule cannot raise an alarm on code whose
addresses it does not understand; it can only miss.
"""
from x86 import G64, PARENT, WIDTH


def _norm(const, terms):
    t = tuple(sorted(((s, c) for s, c in terms.items() if c), key=repr))
    return (const & 0xFFFFFFFFFFFFFFFF if False else const, t)


def lf_const(c):
    return (c, ())


def lf_sym(s):
    return (0, ((s, 1),))


def lf_add(a, b, sign=1):
    if a is None or b is None:
        return None
    terms = dict(a[1])
    for s, c in b[1]:
        terms[s] = terms.get(s, 0) + sign * c
    return _norm(a[0] + sign * b[0], terms)


def lf_scale(a, k):
    if a is None:
        return None
    return _norm(a[0] * k, {s: c * k for s, c in a[1]})


class Result(object):
    def __init__(self):
        self.hazards = []        # (load ins, store ins, overlap description)
        self.out_stores = 0
        self.in_loads = 0
        self.compared = 0        # load/store pairs with the same symbolic part
        self.loads = []          # (form, size, ins) of every input load
        self.stores = []         # (form, size, ins) of every output store
        self.load_parts = set()  # symbolic parts of input-load addresses (any order)
        self.store_parts = set() # symbolic parts of output-store addresses

        self.iters = 0


def _reg_forms(f):
    """{block: {reg: form}} at block entry, and a function computing forms through a block."""
    entry_state = {r: lf_sym(("in", r)) for r in G64}
    states = {f.entry: dict(entry_state)}
    work = [f.entry]
    it = 0
    while work:
        b = work.pop()
        it += 1
        if it > 200000:
            raise RuntimeError("in-place form analysis did not converge in %s" % f.name)
        st = dict(states[b])
        for i in f.blocks[b]:
            step_forms(i, st)
        for s in f.succ.get(b, []):
            old = states.get(s)
            if old is None:
                states[s] = dict(st)
                work.append(s)
                continue
            if _join(old, st, s):
                if s not in work:
                    work.append(s)
    return states


def _rel(form, blk):
    """(q, d) if form == j(blk, q) + d for a join symbol of this block with coefficient 1, else None."""
    if form is None:
        return None
    js = [(sy, c) for sy, c in form[1] if sy[0] == "j" and sy[1] == blk]
    if len(js) != 1 or js[0][1] != 1:
        return None
    q = js[0][0][2]
    return q, lf_add(form, lf_sym(js[0][0]), -1)


def _join(old, st, blk):
    """Merge the incoming state st into old (in place).  Registers whose values disagree get a join symbol;
    registers that disagree for the first time together and keep the same difference (pointers advanced in
    lockstep) are expressed relative to the first one's join symbol.  An incoming edge that contradicts a relation
    breaks it for good, so this terminates.  Returns True when old changed."""
    dis = [r for r in G64 if old[r] != st[r]]
    if not dis:
        return False
    changed = False
    zero = (0, ())
    for r in dis:
        rel = _rel(old[r], blk)
        if rel is None:
            continue
        q, d = rel
        if q == r and d == zero:
            continue                                   # its own symbol absorbs any value
        if st[r] is not None and st.get(q) is not None and _rel(old[q], blk) == (q, zero) and lf_add(st[q], d) == st[r]:
            continue                                   # the new edge keeps the lockstep difference
        old[r] = lf_sym(("j", blk, r))
        changed = True
    fresh = [r for r in dis if _rel(old[r], blk) is None]
    plan = {}
    for r in fresh:
        placed = None
        if old[r] is not None and st[r] is not None:
            for q in fresh:
                if q == r:
                    break
                if plan.get(q) == ("self",) and old[q] is not None and st[q] is not None:
                    d_old = lf_add(old[r], old[q], -1)
                    if d_old == lf_add(st[r], st[q], -1):
                        placed = ("rel", q, d_old)
                        break
        plan[r] = placed or ("self",)
    for r in fresh:
        v = plan[r]
        old[r] = lf_sym(("j", blk, r)) if v[0] == "self" else lf_add(lf_sym(("j", blk, v[1])), v[2])
        changed = True
    return changed


def addr_form(i, st):
    m = i.memop()
    if m is None:
        return None
    base, scale, index, disp, seg = m
    if seg:
        return None
    a = lf_const(disp or 0)
    if base:
        if base == "RIP":
            return None
        if base not in PARENT or WIDTH[base] != 64:
            return None
        a = lf_add(a, st.get(PARENT[base]))
    if index:
        if index not in PARENT or WIDTH[index] != 64:
            return None
        a = lf_add(a, lf_scale(st.get(PARENT[index]), scale or 1))
    return a


def step_forms(i, st):
    op = i.op
    defs = set()
    for r in list(i.explicit_defs()) + list(i.idefs):
        if r in PARENT:
            defs.add(PARENT[r])
    new = {}
    nomem = i.mem < 0
    if i.is_call():
        for r in G64:
            if r not in ("RBX", "RBP", "R12", "R13", "R14", "R15", "RSP"):
                st[r] = lf_sym(("op", i.addr, r))
        return
    if nomem and op == "MOV64rr":
        new[PARENT[i.reg(0)]] = st.get(PARENT[i.reg(1)])
    elif nomem and op in ("MOV64ri32", "MOV64ri", "MOV32ri"):
        new[PARENT[i.reg(0)]] = lf_const(i.imm(1) & (0xFFFFFFFF if op == "MOV32ri" else 0xFFFFFFFFFFFFFFFF))
    elif op == "LEA64r":
        a = addr_form(i, st)
        if a is not None:
            new[PARENT[i.reg(0)]] = a
    elif nomem and op in ("ADD64rr", "SUB64rr") and len(i.ops) >= 3:
        a = st.get(PARENT[i.reg(1)])
        b = st.get(PARENT[i.reg(2)])
        new[PARENT[i.reg(0)]] = lf_add(a, b, 1 if op.startswith("ADD") else -1)
    elif nomem and op in ("ADD64ri8", "ADD64ri32", "SUB64ri8", "SUB64ri32") and len(i.ops) >= 3:
        a = st.get(PARENT[i.reg(1)])
        new[PARENT[i.reg(0)]] = lf_add(a, lf_const(i.imm(2)), 1 if op.startswith("ADD") else -1)
    elif nomem and op in ("INC64r", "DEC64r"):
        new[PARENT[i.reg(0)]] = lf_add(st.get(PARENT[i.reg(1)]), lf_const(1), 1 if op.startswith("INC") else -1)
    elif nomem and op == "SHL64ri" and len(i.ops) >= 3:
        new[PARENT[i.reg(0)]] = lf_scale(st.get(PARENT[i.reg(1)]), 1 << ((i.imm(2) or 0) & 63))
    elif nomem and op in ("XOR64rr", "XOR32rr", "SUB64rr", "SUB32rr") and i.reg(1) == i.reg(2):
        new[PARENT[i.reg(0)]] = lf_const(0)
    for d in defs:
        v = new.get(d)
        st[d] = v if v is not None else lf_sym(("op", i.addr, d))


def _mentions(form, pred):
    return any(pred(s) for s, c in form[1])


def _equate(form, insym, outsym):
    terms = dict(form[1])
    if insym in terms:
        terms[outsym] = terms.get(outsym, 0) + terms.pop(insym)
    return _norm(form[0], terms)


def _flat_roots(v, absint):
    rs = absint.roots(v)
    if rs is None:
        return None
    flat = set()
    for r in rs:
        if isinstance(r, str):
            flat.add(r)
        elif isinstance(r, tuple) and r and r[0] == "ld":
            flat |= {x for x in r[1] if isinstance(x, str)}
    return flat


def analyse(f, in_reg, out_reg, p1):
    """f: x86.Func.  in_reg / out_reg: entry registers holding the input and output pointers.  p1: the phase-1
    result (lib/absint.py) of f, whose provenance roots say which accesses go through the input / the output."""
    import absint
    res = Result()
    states = _reg_forms(f)
    insym, outsym = ("in", in_reg), ("in", out_reg)
    # pending stores: forward may-analysis
    pend_in = {f.entry: frozenset()}
    work = [f.entry]
    reported = set()
    while work:
        b = work.pop()
        res.iters += 1
        if res.iters > 400000:
            raise RuntimeError("in-place pending-store analysis did not converge in %s" % f.name)
        pend = set(p for p in pend_in[b] if not _mentions(p[0], lambda s: s[0] == "j" and s[1] == b))
        st = dict(states[b])
        for i in f.blocks[b]:
            if i.mem >= 0 and not i.op.startswith(("LEA", "PREFETCH")) and i.mem + 5 <= len(i.ops):
                a = addr_form(i, st)
                size = i.memsize() or 0
                m1 = p1.maddr.get(i.addr)
                fr = _flat_roots(m1[0], absint) if m1 else None
                if a is not None and size and fr:
                    a = _equate(a, insym, outsym)
                    if i.reads_mem_operand() and in_reg in fr and out_reg not in fr:
                        res.in_loads += 1
                        res.load_parts.add(a[1])
                        res.loads.append((a, size, i))
                        for (pf, psz, pins) in pend:
                            if pf[1] != a[1]:
                                continue
                            res.compared += 1
                            lo, hi = max(pf[0], a[0]), min(pf[0] + psz, a[0] + size)
                            if lo < hi and (i.addr, pins.addr) not in reported:
                                reported.add((i.addr, pins.addr))
                                res.hazards.append((i, pins, "bytes %+d..%+d of the load" % (lo - a[0], hi - 1 - a[0])))
                    if i.writes_mem_operand() and out_reg in fr and in_reg not in fr:
                        res.out_stores += 1
                        res.store_parts.add(a[1])
                        res.stores.append((a, size, i))
                        pend.add((a, size, i))
            # an instruction that executes again re-binds its opaque result: drop stale entries
            pend = set(p for p in pend if not _mentions(p[0], lambda s, _a=i.addr: s[0] == "op" and s[1] == _a))
            step_forms(i, st)
        out = frozenset(pend)
        for s in f.succ.get(b, []):
            old = pend_in.get(s)
            if old is None:
                pend_in[s] = out
                work.append(s)
            elif not out <= old:
                pend_in[s] = old | out
                if s not in work:
                    work.append(s)
    res.matchable = len(res.load_parts & res.store_parts)   # address shapes the analysis can relate at all (order-insensitive)
    return res


def _mask_of(i):
    import re
    m = re.search(r"\{(k[1-7])\}", i.text.replace(" ", ""))
    return m.group(1) if m else None


def mask_asymmetry(res):
    """Length-preserving bodies read and write the same byte ranges.  Where an output store at some address shape
    is confined by an opmask, an *unmasked* input load of the same shape, offset and size reads bytes the function
    itself does not treat as data: [(load ins, store ins)].  Pairs under different masks are not judged."""
    out = []
    seen = set()
    st = {}
    for (a, size, i) in res.stores:
        st.setdefault((a[1], a[0], size), []).append(i)
    for (a, size, i) in res.loads:
        if i.addr in seen:
            continue
        ss = st.get((a[1], a[0], size))
        if not ss:
            continue
        lm = _mask_of(i)
        masks = {_mask_of(x) for x in ss}
        if lm is None and None not in masks:
            seen.add(i.addr)
            out.append((i, ss[0]))
    return out
