"""C06 (partial) - the hash manager never loses, duplicates or strands a job; flush drains.

Decided: the ctx-layer hand-back discipline and the flush-returns-NULL-only-on-empty structure.
NOT decided: "exactly once" and "never more contexts than lanes" - they depend on the lane stack encodings
(unused_lanes nibbles/bytes/vectors) and on data-dependent lane indices in the assembly managers.

R06.1 hand-back status: every non-NULL context returned by <algo>_ctx_mgr_resubmit had, as the last thing done
      to it, a store of a status without the PROCESSING bit (IDLE or COMPLETE), with no call in between.
R06.2 completion discipline: a store of COMPLETE happens only under the fact (status & COMPLETE); a store of
      PROCESSING|COMPLETE only under (status & LAST) and is followed by a manager submit of the padding.
R06.3 flush drains: _ctx_mgr_flush_* returns NULL only over the edge "manager flush returned NULL" and otherwise
      returns resubmit's non-NULL result; each assembly *_mb_mgr_flush_* reaches its `return NULL` only through
      branches on the manager's occupancy fields and stores nothing to the manager on the way.
R06.7 one manager per kind and context layer: all call sites of _<algo>_mb_mgr_submit_* in a <algo>_ctx_<family>.c unit
      name the same function, likewise all flush and all init sites (the avx512_ni layers pair submit_avx512 with
      flush_avx512_ni by design, so kinds are not compared with each other).
R06.8 lane-stack constants agree with the initial stack: a flush manager that tests "all lanes free" with
      `bt unused_lanes, k` uses k = the top bit of the value its init function stores into unused_lanes, and a
      submit manager that tests "no lane free" with `cmp unused_lanes, c` uses c = that value's sentinel (0xF for
      a nibble stack, 0xFF for a byte stack).
R06.9 one family per CPU class: under the same CPU facts the dispatchers of <algo>_ctx_mgr_init, _submit and _flush
      bind context layers of the same family (the lane stack, lane count and lens[] layout that init writes are
      the ones submit and flush of that family expect).
R06.10 lane identifiers: where a manager init function writes lane numbers into lens[] (the SHA-512 managers keep the
      lane index in the low half of each lens word and never rewrite it), it writes lens[j] = j for every lane j on
      the free-lane stack it builds - replayed on the IR skeleton (lib/irskel.py), loops included.
R06.11 the minimum is subtracted from every lane (lib/lanemin.py): in each assembly manager that updates lens[] with
      vector subtractions, every 128-bit lane of the subtrahend depends on every 16-byte granule of lens[] loaded so
      far - the min-reduction tree and the broadcast behind it leave no part of the register out.  Dependence sets
      on the length skeleton; presence only.
R06.12 stores through a job pointer (loaded from the lane table and not modified since) never cover bytes of the
      caller-owned job.user_data - a digest written with a store wider than what is left of the digest field runs
      over job.status and user_data.
R06.13 idle lanes keep the idle length: in every flush manager each block that fills an empty lane's data pointer also
      stores the all-ones length into that lane's lens word.
R06.5 field width: every write at a fixed offset into a scalar field of the manager struct (unused_lanes,
      num_lanes_inuse) starts at the field and has the field's width.
R06.6 struct mirror: the offsets the assembly uses for job / manager / lane fields (nasm struct symbols) equal the
      offsets of the same members in the C structs.
R06.4 caller-owned fields: no store anywhere targets user_data; in the manager assembly every store goes to the
      own stack, the manager argument, or a job pointer loaded from the manager's lane table - never through a
      data pointer.
"""
import collections
import re

import build
import ir
import par
import x86
import absint
import c19
from report import Finding
from c13 import is_dbg, is_effect

LEVEL = "other"
RULE_TEXT = __doc__.split("\n\n", 2)[2].replace("\n      ", " ")
CTX_UNIT = re.compile(r"^(sha1|sha256|sha512|md5|sm3)_mb/\w*_ctx_\w+\.c$")
FLUSH_ASM = re.compile(r"^_(sha1|sha256|sha512|md5|sm3)_(mb|sb)_mgr_flush_\w+$")
MGR_ASM = re.compile(r"^_(sha1|sha256|sha512|md5|sm3)_(mb|sb)_mgr_(flush|submit)_\w+$")


def status_store(F, I):
    if I.op != "store":
        return None
    fld = F.field(I.ops[1])
    if fld and fld[1] and fld[1][-1][1] == "status" and len(fld[1]) == 1:
        return fld[0]
    return None


def same_val(F, a, b, path):
    a = ir.eval_on_path(F, a, path) if not isinstance(a, (ir.Inst,)) else a
    ra, rb = F.resolve(a) if isinstance(a, dict) else a, F.resolve(b) if isinstance(b, dict) else b
    if isinstance(ra, ir.Inst) and isinstance(rb, ir.Inst):
        return ra.id == rb.id
    return ra == rb


def strip_casts(F, v):
    r = F.resolve(v)
    while isinstance(r, ir.Inst) and r.op in ("bitcast",):
        r = F.resolve(r.ops[0])
    return r


def run(chk):
    units, stats = build.build("default")
    chk.extra["build"] = stats
    mods = {s: m for s, m in ir.load_modules([u for u in units if u["kind"] == "c"]).items()}
    ctxmods = {s: m for s, m in mods.items() if CTX_UNIT.match(s)}
    chk.floor("ctx units", len(ctxmods), 28)
    chk.trusted += ["clang -O0 IR mirrors the ctx-layer C", "nasm struct offsets (ABS symbols) name the manager fields"]
    chk.assumptions += ["lane-stack push/pop balance and lane-index arithmetic in the assembly managers are NOT decided",
                        "the *_opt_x1 kernels are summarised in the context of their call sites (known-bits facts show the block count is non-zero there), which is what proves that they preserve the manager pointer"]
    n_resub = 0
    for src, M in sorted(ctxmods.items()):
        PROC = M.enum_value("ISAL_HASH_CTX_STS_PROCESSING")
        COMP = M.enum_value("ISAL_HASH_CTX_STS_COMPLETE")
        LAST = M.enum_value("ISAL_HASH_CTX_STS_LAST")
        for F in M.defined():
            if F.name.endswith("_ctx_mgr_resubmit"):
                n_resub += 1
                try:
                    paths = list(ir.paths_with_facts(F, max_paths=50000))
                except ir.PathLimit:
                    chk.broke("path limit in %s::%s" % (src, F.name))
                    continue
                bad1 = bad2 = None
                for P in paths:
                    R = P.retinst
                    if R.op != "ret" or not R.ops or P.contradictory(F):
                        continue
                    kend = len(P.blocks) - 1
                    rvs = P.at(F, R.ops[0], kend)
                    if rvs == 0 or F.is_null(rvs):
                        continue
                    # is the returned value known to be NULL by a fact on the path?
                    isnull = False
                    for (val, pred, c, t, br, pos), k in zip(P.facts, P.fact_k):
                        if pred == "eq" and c == 0 and P.same(P.at(F, val, k), rvs):
                            isnull = True
                    if isnull:
                        continue
                    last = None
                    for pos, I in enumerate(P.insts):
                        root = status_store(F, I)
                        if root is not None:
                            rr = P.at(F, {"k": "i", "id": root.id} if isinstance(root, ir.Inst) else root, P.bidx[pos])
                            if P.same(rr, rvs):
                                last = (pos, I)
                    ok = False
                    why = "no store to the returned context's status on the path"
                    if last is not None:
                        c = F.const_int(last[1].ops[0])
                        calls_after = [I for I in P.insts[last[0] + 1:] if I.op == "call" and not is_dbg(I)]
                        if c is None or (c & PROC):
                            why = "the last status stored is %r (PROCESSING still set / not a constant)" % (c,)
                        elif calls_after:
                            why = "a call (%s) follows the final status store, the manager may have swapped the context" % calls_after[0].callee
                        else:
                            ok = True
                    if not ok and bad1 is None:
                        bad1 = (R, why, P)
                    # R06.2 on this path
                    for pos, I in enumerate(P.insts):
                        if status_store(F, I) is None:
                            continue
                        c = F.const_int(I.ops[0])
                        facts_before = [(ir.expr_str(F, val), pred, cc) for (val, pred, cc, t, br, fpos) in P.facts if fpos < pos]
                        if c == COMP:
                            if not any(("status" in e and e.startswith("and(") and e.endswith(",%d)" % COMP) and pred == "ne" and cc == 0) for (e, pred, cc) in facts_before):
                                bad2 = bad2 or (I, "COMPLETE is stored without the fact (status & COMPLETE) on the path")
                        elif c == (PROC | COMP):
                            if not any(("status" in e and e.startswith("and(") and e.endswith(",%d)" % LAST) and pred == "ne" and cc == 0) for (e, pred, cc) in facts_before):
                                bad2 = bad2 or (I, "PROCESSING|COMPLETE is stored without the fact (status & LAST)")
                            after = [J for J in P.insts[pos + 1:] if J.op == "call" and ("_mgr_submit" in (J.callee or ""))]
                            if not after:
                                bad2 = bad2 or (I, "the padding job is marked PROCESSING|COMPLETE but never submitted to the manager on this path")
                chk.obligation("R06.1", bad1 is None, key=(src, F.name), sample={"unit": src, "function": F.name, "paths": len(paths)})
                chk.obligation("R06.2", bad2 is None, key=(src, F.name))
                if bad1:
                    chk.finding(Finding("R06.1", src, F.name, "hand-back-status", "a context can be handed back while not idle/complete: %s" % bad1[1], loc=bad1[0].loc(), detail={"path": bad1[2].blocks}))
                if bad2:
                    chk.finding(Finding("R06.2", src, F.name, "completion-discipline", bad2[1], loc=bad2[0].loc()))
            # ---- R06.3 (C): flush wrappers of the SIMD families
            if re.match(r"^_\w+_ctx_mgr_flush_(?!base)\w+$", F.name) and not F.local:
                paths = list(ir.paths_with_facts(F, max_paths=5000))
                bad3 = None
                for P in paths:
                    R = P.retinst
                    if R.op != "ret" or not R.ops:
                        continue
                    kend = len(P.blocks) - 1
                    rvs = P.at(F, R.ops[0], kend)
                    fl = [I for I in P.insts if I.op == "call" and "_mgr_flush_" in (I.callee or "")]
                    # the returned value may be a call result of an earlier loop iteration: the facts established
                    # after its last execution on this path say whether that dynamic instance is NULL
                    dyn_null = None
                    if isinstance(rvs, ir.Inst) and rvs.op == "call":
                        plast = max((p for p, J in enumerate(P.insts) if J.id == rvs.id), default=-1)
                        for (val, pred, c, t, br, pos), k in zip(P.facts, P.fact_k):
                            if pos > plast and c == 0 and pred in ("eq", "ne") and P.same(P.at(F, val, k), rvs):
                                dyn_null = (pred == "eq")
                    if F.is_null(rvs) or rvs == 0 or dyn_null is True:
                        # must carry the fact: (last) manager flush result == NULL
                        ok = False
                        for (val, pred, c, t, br, pos), k in zip(P.facts, P.fact_k):
                            vv = P.at(F, val, k)
                            if pred == "eq" and c == 0 and isinstance(vv, ir.Inst) and vv.op == "call" and "_mgr_flush_" in (vv.callee or "") and fl and vv.id == fl[-1].id and k == P.fact_k[-1]:
                                ok = True
                        if not ok:
                            bad3 = (R, "returns NULL although the manager's flush did not report an empty manager")
                    else:
                        if not (isinstance(rvs, ir.Inst) and rvs.op == "call" and "resubmit" in (rvs.callee or "")):
                            bad3 = (R, "returns a context that is not the result of resubmit")
                        else:
                            if dyn_null is not False:
                                bad3 = (R, "returns resubmit's result without having checked it is non-NULL")
                chk.obligation("R06.3-c", bad3 is None, key=(src, F.name), sample={"unit": src, "function": F.name})
                if bad3:
                    chk.finding(Finding("R06.3", src, F.name, "flush-return", bad3[1], loc=bad3[0].loc()))
        # ---- R06.4 (IR): no store to user_data
        for F in M.defined():
            for I in F.all_insts():
                if I.op == "store":
                    fld = F.field(I.ops[1])
                    if fld and any(n[1] == "user_data" for n in fld[1]):
                        chk.finding(Finding("R06.4", src, F.name, "user_data", "the library writes the caller-owned field user_data", loc=I.loc()))
    chk.floor("resubmit functions", n_resub, 23)
    n_ud = sum(1 for M in mods.values() for F in M.defined() for I in F.all_insts() if I.op == "store")
    chk.obligations["R06.4-ir"] = [n_ud, n_ud - len([f for f in chk.findings if f.rule == "R06.4" and f.construct == "user_data"])]

    # ---------------- assembly managers
    lib = x86.Library(units)
    objs = sorted({k[0] for k, n in lib.entry_list if MGR_ASM.match(n)})
    structs = {}
    for src, M in ctxmods.items():
        algo = src.split("_mb/")[0].upper()
        d = structs.setdefault(algo, {})
        for sn, ds in M.distructs.items():
            if sn.startswith("ISAL_%s_" % algo):
                d.setdefault(sn, ds)
    # ---- R06.7 / inputs of R06.8: which manager functions each ctx unit uses, and the initial lane stack
    allmods = ir.load_modules([u for u in units if u["kind"] == "c" and re.match(r"^(sha1|sha256|sha512|md5|sm3)_mb/", u["src"])])
    init_val = {}
    for src, M in allmods.items():
        for F in M.defined():
            if re.match(r"^_\w+_mb_mgr_init_\w+$", F.name):
                for I in F.all_insts():
                    if I.op == "store":
                        fld = F.field(I.ops[1])
                        if fld and fld[1] and fld[1][0][1] == "unused_lanes" and F.ptr_root(I.ops[1])[1] == fld[1][0][2]:
                            c = F.const_int(I.ops[0])
                            if c is not None:
                                init_val[F.name] = c & 0xFFFFFFFFFFFFFFFF
    lane_init = {}
    nfam = 0
    for src, M in sorted(ctxmods.items()):
        used = collections.defaultdict(set)
        for F in M.defined():
            for I in F.calls():
                mm = re.match(r"^(_\w+_mb_mgr_(init|submit|flush))_(\w+)$", I.callee or "")
                if mm:
                    used[mm.group(2)].add(I.callee)
        if not used:
            continue
        nfam += 1
        fams = {k: {c.rsplit("_mb_mgr_" + k + "_", 1)[1] for c in v} for k, v in used.items()}
        ok = all(len(v) == 1 for v in fams.values())        # per kind: the avx512_ni layers pair submit_avx512 with flush_avx512_ni by design
        chk.obligation("R06.7", ok, key=(src, "family"), sample={"unit": src, "manager_families": {k: sorted(v) for k, v in fams.items()}})
        if not ok:
            chk.finding(Finding("R06.7", src, "<unit>", "manager-family", "this context layer mixes manager families: %s - managers of different families keep different lane-stack conventions in the same state" % {k: sorted(v) for k, v in fams.items()}, loc=src))
        iv = [init_val.get(c) for c in used.get("init", ())]
        if len(iv) == 1 and iv[0] is not None:
            for k in ("submit", "flush"):
                for c in used.get(k, ()):
                    lane_init[c] = iv[0]
    import cands
    import re as _re
    import irskel
    n610 = 0
    for src, M in sorted(allmods.items()):
        for F in M.defined():
            if not _re.match(r"^_\w+_mb_mgr_init_\w+$", F.name) or not F.args:
                continue
            lens_m = ul_m = None
            for sn, ds in M.distructs.items():
                if sn.endswith("_MB_JOB_MGR"):
                    for m_ in ds["members"]:
                        if m_["name"] == "lens":
                            lens_m = m_
                        if m_["name"] == "unused_lanes":
                            ul_m = m_
            if lens_m is None or ul_m is None:
                continue
            try:
                rr = irskel.run(F, [("p", "state", 0)] + [None] * (len(F.args) - 1))
            except irskel.Unknown as e:
                chk.broke("%s: IR skeleton not followed: %s" % (F.name, e))
                continue
            esz = None
            lens_final = {}
            ul_bytes = {}
            for ev in rr.events:
                if ev[0] != "store" or ev[1] != "state":
                    continue
                _, tag, o, size, v, I = ev
                if lens_m["off"] <= o < lens_m["off"] + lens_m["size"] and isinstance(v, int):
                    esz = size
                    lens_final[(o - lens_m["off"]) // size] = v
                if ul_m["off"] <= o < ul_m["off"] + ul_m["size"] and isinstance(v, int):
                    for bb in range(size):
                        ul_bytes[o - ul_m["off"] + bb] = (v >> (8 * bb)) & 0xFF
            ids = {k: v for k, v in lens_final.items() if 0 < v < 64 and v == k}
            if not ids or not ul_bytes:
                continue            # this family does not keep lane numbers in lens[]
            # lanes on the free-lane stack: nibbles or bytes up to the sentinel
            raw = [ul_bytes.get(k, 0) for k in range(max(ul_bytes) + 1)]
            bytewise = any(b_ == 0xFF for b_ in raw)
            lanes = []
            if bytewise:
                for b_ in raw:
                    if b_ == 0xFF:
                        break
                    lanes.append(b_)
            else:
                for b_ in raw:
                    for nb in (b_ & 15, b_ >> 4):
                        if nb == 15:
                            break
                        lanes.append(nb)
                    else:
                        continue
                    break
            n610 += 1
            badl = [j for j in lanes if (lens_final.get(j, 0) & 0xFFFFFFFF) != j]
            chk.obligation("R06.10", not badl, key=(src, F.name), sample={"unit": src, "function": F.name, "lanes_on_free_stack": lanes, "lens_words_written": len(lens_final)})
            if badl:
                j = badl[0]
                chk.finding(Finding("R06.10", src, F.name, "lane-id:%d" % j, "lens[%d] is initialised to %d, but lane %d is on the free-lane stack and the managers take the lane number from the low half of lens[]: jobs in lane %d are attributed to lane %d" % (j, lens_final.get(j, 0) & 0xFFFFFFFF, j, j, lens_final.get(j, 0) & 0xFFFFFFFF), loc="%s:%s" % (F.file, F.line)))
    chk.floor("manager init functions that keep lane numbers in lens[]", n610, 3)
    # ---- R06.11
    import lanemin
    lens_rng = {}
    for src, M in sorted(allmods.items()):
        algo = src.split("_mb/")[0]
        for sn, ds in M.distructs.items():
            if sn.endswith("_MB_JOB_MGR"):
                for m_ in ds["members"]:
                    if m_["name"] == "lens":
                        lens_rng[algo] = (m_["off"], m_["off"] + m_["size"])
    n611 = nsub = 0
    for key, name in lib.entry_list:
        mm = _re.match(r"^_(sha1|sha256|sha512|md5|sm3)_mb_mgr_(submit|flush)_(\w+)$", name)
        if not mm or mm.group(1) not in lens_rng:
            continue
        f = lib.func(key)
        mch = lanemin.LaneMachine(lib, f, {"RDI": ("p", "state", 0), "RSI": ("p", "job", 0)}, lens_rng[mm.group(1)])
        mch.run()
        if not mch.subs:
            continue
        n611 += 1
        nsub += len(mch.subs)
        bad = [(i, miss) for (i, miss) in mch.subs if any(miss)]
        chk.obligation("R06.11", not bad, key=name, sample={"function": name, "vector_subtractions_from_lens": len(mch.subs)})
        if bad:
            i, miss = bad[0]
            j = [k for k, m_ in enumerate(miss) if m_][0]
            chk.finding(Finding("R06.11", f.obj.name, name, "lane-min", "`%s`: 128-bit lane %d of the value subtracted from lens[] does not depend on %d of the %d lens granules read (e.g. lens bytes %d..%d): the lanes updated through that part of the register keep their old length although the kernel advanced their data" % (
                i.text.strip(), j, len(miss[j]), len(mch.seen), 16 * miss[j][0][1] - lens_rng[mm.group(1)][0], 16 * miss[j][0][1] - lens_rng[mm.group(1)][0] + 15), loc=f.obj.line_of(f.sec, i.addr)))
    chk.floor("assembly managers with vector subtractions from lens[]", n611, 20)
    chk.floor("vector subtractions from lens[] judged", nsub, 40)

    def group_of(iface):
        m = _re.match(r"^_(sha1|sha256|sha512|md5|sm3)_ctx_mgr_(init|submit|flush)$", iface)
        return m.group(1) if m else None
    ncoh = cands.coherence_rule(chk, "R06.9", lib, ["_sha1_ctx", "_sha256_ctx", "_sha512_ctx", "_md5_ctx", "_sm3_ctx"], group_of,
                                "the manager state written by one family's init / submit (lane count, unused_lanes stack, lens[] packing) is not the one another family's routines expect")
    chk.floor("CPU classes x algorithms compared for manager family coherence", ncoh, 30)
    chk.floor("context layers checked for one manager per kind", nfam, 22)
    chk.floor("manager functions with a known initial lane stack", len(lane_init), 30)
    res = par.map_objects(lib, asm_worker, objs, extra={"structs": structs, "lane_init": lane_init})
    tot = collections.Counter()
    for objname in sorted(res):
        r = res[objname]
        for k, v in r["counts"].items():
            tot[k] += v
        for fd in r["findings"]:
            chk.finding(Finding(fd["rule"], fd["obj"], fd["function"], fd["construct"], fd["message"], loc=fd["loc"]))
        for s in r["samples"]:
            if len(chk.samples) < 10:
                chk.samples.append(s)
    chk.obligations["R06.3-asm"] = [tot["flush"], tot["flush"] - len({f.function for f in chk.findings if f.rule == "R06.3" and f.obj.endswith(".o")})]
    chk.obligations["R06.4-asm"] = [tot["stores"], tot["stores"] - len([f for f in chk.findings if f.rule == "R06.4" and f.obj.endswith(".o")])]
    chk.obligations["R06.6"] = [tot["mirror_fields"], tot["mirror_fields"] - len([f for f in chk.findings if f.rule == "R06.6"])]
    chk.obligations["R06.8"] = [tot["lane_stack_tests"], tot["lane_stack_tests"] - len([f for f in chk.findings if f.rule == "R06.8"])]
    chk.floor("lane-stack tests (bt / cmp on unused_lanes) judged", tot["lane_stack_tests"], 12)
    chk.obligations["R06.12"] = [tot["job_store_extents"], tot["job_store_extents"] - len([f for f in chk.findings if f.rule == "R06.12"])]
    chk.floor("stores through job pointers with a known extent", tot["job_store_extents"], 100)
    chk.obligations["R06.13"] = [tot["idle_fills"], tot["idle_fills"] - len([f for f in chk.findings if f.rule == "R06.13"])]
    chk.floor("empty-lane fills in flush managers paired with the idle length", tot["idle_fills"], 150)
    chk.obligations["R06.5"] = [tot["scalar_field_accesses"], tot["scalar_field_accesses"] - len([f for f in chk.findings if f.rule == "R06.5"])]
    chk.floor("struct-mirror fields compared", tot["mirror_fields"], 300)
    chk.floor("scalar manager field accesses", tot["scalar_field_accesses"], 100)
    chk.floor("assembly flush managers", tot["flush"], 23)
    chk.floor("assembly manager stores classified", tot["stores"], 1200)
    chk.extra["asm_manager_store_classes"] = {k: v for k, v in tot.items() if k.startswith("cls:")}
    return ("Path analysis of %d resubmit functions and the SIMD flush wrappers (hand-back status, completion discipline, NULL only on empty), %d assembly flush managers "
            "(return-NULL paths gated on occupancy fields and store-free), %d manager stores classified by provenance." % (n_resub, tot["flush"], tot["stores"]))


def asm_worker(lib, objname, extra):
    o = lib.by_name[objname]
    out = {"findings": [], "counts": collections.Counter(), "samples": []}
    abs_syms = {s.name: s.addr for s in o.symbols if s.kind == "ABS"}

    def add(rule, fn, construct, msg, addr, sec):
        out["findings"].append({"rule": rule, "obj": objname, "function": fn, "construct": construct, "message": msg, "loc": o.line_of(sec, addr) or ("%s+%#x" % (objname, addr))})
    for key, name in lib.entry_list:
        if key[0] != objname or not MGR_ASM.match(name):
            continue
        f = lib.func(key)
        r = c19.analyse(lib, key)
        dp = abs_syms.get("_data_ptr", abs_syms.get("_args_data_ptr"))
        lens = abs_syms.get("_lens")
        ldata = abs_syms.get("_ldata")
        # ---- R06.6 the assembly's struct mirror (nasm ABS symbols) agrees with the C structs (DWARF)
        algo = name.split("_")[1].upper()
        st = (extra or {}).get("structs", {}).get(algo, {})
        job = st.get("ISAL_%s_JOB" % algo)
        mgr = st.get("ISAL_%s_MB_JOB_MGR" % algo)
        lane = st.get("ISAL_%s_LANE_DATA" % algo)
        if job and mgr and lane and "mirror" not in out["counts"]:
            out["counts"]["mirror"] += 1
            args_t = [m for m in mgr["members"] if m["name"] == "args"]
            args = st.get(args_t[0]["type"]) if args_t else None
            want = {}
            for m in job["members"]:
                want["_" + m["name"]] = m["off"]
            for m in mgr["members"]:
                want["_" + m["name"]] = m["off"]
            for m in lane["members"]:
                want["_" + m["name"]] = m["off"]
            if args:
                for m in args["members"]:
                    want["_args_" + m["name"]] = m["off"] + args_t[0]["off"]
            want["_LANE_DATA_size"] = lane["size"]
            for sym, off in sorted(want.items()):
                if sym in abs_syms:
                    out["counts"]["mirror_fields"] += 1
                    if abs_syms[sym] != off:
                        add("R06.6", name, "struct-mirror:" + sym, "the assembly places %s at offset %d, the C struct has it at %d: the managers read and write a different field than the C layer" % (sym, abs_syms[sym], off), f.entry, key[1])
        # ---- R06.5 fixed-offset accesses to scalar manager fields use the field's width
        if mgr:
            scal = [(m["off"], m["size"], m["name"]) for m in mgr["members"] if not m["type"].endswith("[]") and not m["type"].startswith("ISAL_")]
            for b in f.blocks.values():
                for i in b:
                    av = r.maddr.get(i.addr)
                    if av is None or av[1] or av[0][0] != "init" or av[0][1] != "RDI" or not (i.writes_mem_operand() or i.reads_mem_operand()):
                        continue
                    sz = i.memsize()
                    for (mo, ms, mn) in scal:
                        if mo <= av[0][2] < mo + ms and sz:
                            out["counts"]["scalar_field_accesses"] += 1
                            if i.writes_mem_operand() and (av[0][2] != mo or sz != ms):
                                add("R06.5", name, "field-width:" + mn, "`%s` writes %d byte(s) at offset %d of the %d-byte manager field %s" % (i.text.strip(), sz, av[0][2] - mo, ms, mn), i.addr, key[1])
        # ---- R06.8 lane-stack constants
        V = (extra or {}).get("lane_init", {}).get(name)
        ul = [m for m in (mgr["members"] if mgr else []) if m["name"] == "unused_lanes"]
        if V and ul:
            uoff = ul[0]["off"]
            top = V.bit_length() - 1
            sentinel = 0xFF if top % 8 == 7 and (V >> (top - 7)) & 0xFF == 0xFF and (V & 0xFF00) in (0x0100, 0) and top >= 15 and ((V >> 8) & 0xFF) == 1 else 0xF
            for bl in f.blocks.values():
                for k, i in enumerate(bl):
                    isbt = i.op in ("BT64ri8", "BT32ri8")
                    iscmp = i.op in ("CMP64ri8", "CMP64ri32", "CMP32ri8", "CMP32ri") and i.imm(1) in (0xF, 0xFF)
                    if not (isbt or iscmp) or i.mem >= 0:
                        continue
                    reg = x86.PARENT.get(i.reg(0))
                    src_ok = False
                    for j in reversed(bl[:k]):
                        if reg in [x86.PARENT.get(r) for r in j.explicit_defs()]:
                            if j.op in ("SHR64ri", "SHL64ri", "OR64rr", "AND64ri8", "AND64ri32") and j.mem < 0:
                                continue            # the stack is popped / pushed in the register before the test
                            av = r.maddr.get(j.addr)
                            src_ok = j.op in ("MOV64rm", "MOV32rm") and av is not None and av[0][0] == "init" and av[0][1] == "RDI" and av[0][2] == uoff and not av[1]
                            break
                    if not src_ok:
                        continue
                    out["counts"]["lane_stack_tests"] += 1
                    if isbt and i.imm(1) != top:
                        add("R06.8", name, "all-free-test", "`%s` tests bit %d of unused_lanes for 'all lanes free', but the initial lane stack %#x of this family has its sentinel's top bit at %d: flush reports an empty manager while lanes are in use (and runs on when it is empty)" % (i.text.strip(), i.imm(1), V, top), i.addr, key[1])
                    if iscmp and "submit" in name and i.imm(1) != sentinel:
                        add("R06.8", name, "no-lane-free-test", "`%s` compares unused_lanes with %#x for 'no lane free', but the sentinel of this family's lane stack (initial value %#x) is %#x" % (i.text.strip(), i.imm(1), V, sentinel), i.addr, key[1])
        # ---- R06.4 store provenance
        for b in f.blocks.values():
            for i in b:
                if not i.writes_mem_operand():
                    continue
                av = r.maddr.get(i.addr)
                if av is None:
                    continue
                out["counts"]["stores"] += 1
                v = av[0]
                if v[0] in ("sp", "fr"):
                    out["counts"]["cls:stack"] += 1
                    continue
                rs = absint.roots(v)
                if rs is None:
                    out["counts"]["cls:unknown"] += 1
                    continue
                lds = [t for t in rs if isinstance(t, tuple) and t[0] == "ld"]
                if lds:
                    # pointer loaded from the manager: must come from the lane table (job pointers), never from data_ptr
                    bad = False
                    for t in lds:
                        disp = t[2]
                        if disp is not None and dp is not None and lens is not None and dp <= disp < min(lens, ldata if ldata and ldata > dp else lens):
                            bad = True
                    if bad:
                        add("R06.4", name, "store-through-data-pointer", "`%s` stores through a pointer loaded from the manager's data_ptr array (the caller's input buffer)" % i.text.strip(), i.addr, key[1])
                    else:
                        out["counts"]["cls:job-pointer"] += 1
                        # R06.12: extent of a store through a job pointer that was loaded from the lane table and not
                        # modified since (base register defined by a plain load earlier in the block)
                        mo = i.memop()
                        ud = None
                        for m_ in (job or {}).get("members", []):
                            if m_["name"] == "user_data":
                                ud = (m_["off"], m_["size"])
                        if mo and mo[0] and not mo[2] and ud is not None and i.memsize():
                            base = x86.PARENT.get(mo[0])
                            pure = False
                            bl_ = b
                            for j in reversed(bl_[:bl_.index(i)]):
                                if base in [x86.PARENT.get(d_) for d_ in list(j.explicit_defs()) + list(j.idefs)]:
                                    pure = j.op == "MOV64rm"
                                    break
                            if pure:
                                lo_, hi_ = (mo[3] or 0), (mo[3] or 0) + i.memsize()
                                out["counts"]["job_store_extents"] += 1
                                if lo_ < ud[0] + ud[1] and ud[0] < hi_:
                                    add("R06.12", name, "job-store-extent", "`%s` writes bytes %d..%d of the job, which include the caller-owned user_data (bytes %d..%d)" % (i.text.strip(), lo_, hi_ - 1, ud[0], ud[0] + ud[1] - 1), i.addr, key[1])
                    continue
                if any(isinstance(t, str) for t in rs):
                    out["counts"]["cls:manager-or-job-argument"] += 1
                    continue
                out["counts"]["cls:other"] += 1
        # ---- R06.13 idle lanes are given the idle length: in a flush manager every block that fills an empty lane's
        # data pointer (a store at a fixed slot of the data_ptr array) also stores the all-ones idle length into the
        # same lane's lens word - otherwise the subtraction of the minimum makes idle lanes' lengths decay until one
        # of them wins the minimum search
        if FLUSH_ASM.match(name) and dp is not None and lens is not None:
            lens_m = [m_ for m_ in (mgr or {}).get("members", []) if m_["name"] == "lens"]
            esz = None
            if lens_m and lens_m[0].get("size"):
                nl_ = max(1, (min(x for x in (ldata, lens_m[0]["off"] + lens_m[0]["size"]) if x) - dp) // 8) if False else None
            nlanes_ = None
            if lens_m:
                # element size of lens[] = size / number of data pointers
                npt = (lens - dp) // 8 if lens > dp else None
                if npt:
                    esz = lens_m[0]["size"] // npt if lens_m[0]["size"] % npt == 0 else None
            if esz:
                for bl_ in f.blocks.values():
                    fills = {}
                    idles = set()
                    for i in bl_:
                        if not i.writes_mem_operand():
                            continue
                        av = r.maddr.get(i.addr)
                        if not av or av[0][0] != "init" or av[0][1] != "RDI" or av[1]:
                            continue
                        off_ = av[0][2]
                        if dp <= off_ < dp + 8 * npt and (off_ - dp) % 8 == 0 and i.memsize() == 8:
                            fills[(off_ - dp) // 8] = i
                        elif lens <= off_ < lens + esz * npt:
                            imm_ = i.imm(i.mem + 5) if i.mem + 5 < len(i.ops) and i.ops[i.mem + 5][0] == "i" else None
                            if imm_ is not None and (imm_ & 0xFFFFFFFF) == 0xFFFFFFFF:
                                idles.add((off_ - lens) // esz)
                    for ln_, ins_ in sorted(fills.items()):
                        if len(fills) == 1 or True:
                            out["counts"]["idle_fills"] += 1
                            if ln_ not in idles:
                                add("R06.13", name, "idle-lane-length:%d" % ln_, "`%s` gives empty lane %d a copy of a busy lane's data pointer but the block does not store the all-ones idle length into lens[%d]: every flush subtracts the minimum from all lanes, so the idle lane's length decays until it wins the minimum search and a lane without a job is 'completed'" % (ins_.text.strip(), ln_, ln_), ins_.addr, key[1])
        # ---- R06.3 (asm) for flush managers
        if FLUSH_ASM.match(name):
            out["counts"]["flush"] += 1
            # blocks that set rax to zero right before the exit: `xor eax, eax` / `xor rax, rax` (job_rax)
            nullblocks = []
            for bl, ins in f.blocks.items():
                for i in ins:
                    if i.op in ("XOR32rr", "XOR64rr") and i.reg(0) in ("EAX", "RAX") and i.reg(1) == i.reg(2):
                        nullblocks.append(bl)
            if not nullblocks:
                add("R06.3", name, "no-null-return", "no `return NULL` path found in the flush manager", f.entry, key[1])
                continue
            pred = collections.defaultdict(list)
            for bl, ss in f.succ.items():
                for s in ss:
                    pred[s].append(bl)
            for nb in set(nullblocks):
                # every edge into the null block must be a conditional branch on the occupancy fields
                work = [nb]
                back = set()
                while work:
                    x = work.pop()
                    for p in pred.get(x, []):
                        if p not in back:
                            back.add(p)
                            work.append(p)
                for p in pred.get(nb, []):
                    br = f.blocks[p][-1]
                    okbr = False
                    if br.is_cond():
                        # the flag-setting instruction before the branch must read the manager (cmp/bt/test on a
                        # value loaded from [state + _num_lanes_inuse] / _unused_lanes)
                        for j in reversed(f.blocks[p][:-1]):
                            if "EFLAGS" in j.idefs or "EFLAGS" in j.explicit_defs():
                                srcs_ok = False
                                av = r.maddr.get(j.addr)
                                if av is not None and av[0][0] == "init" and av[0][1] == "RDI":
                                    srcs_ok = True
                                else:
                                    # register operand: must have been loaded from the manager in this block
                                    regs_used = [x86.PARENT.get(u) for u in j.reg_uses_nomem() if u in x86.PARENT]
                                    for k in f.blocks[p]:
                                        if k.addr >= j.addr:
                                            break
                                        ak = r.maddr.get(k.addr)
                                        if k.reads_mem_operand() and ak is not None and ak[0][0] == "init" and ak[0][1] == "RDI" and any(x86.PARENT.get(d) in regs_used for d in k.explicit_defs()):
                                            srcs_ok = True
                                okbr = srcs_ok
                                break
                    if not okbr:
                        add("R06.3", name, "null-not-gated", "`return NULL` is reached from %#x without a branch on the manager's occupancy fields" % br.addr, br.addr, key[1])
                # no store to non-stack memory on any path entry -> null block
                for bl in back | {nb}:
                    for i in f.blocks[bl]:
                        if i.writes_mem_operand():
                            av = r.maddr.get(i.addr)
                            if av is not None and av[0][0] not in ("sp", "fr"):
                                # only blocks from which the null block is reachable AND that are reachable from entry count;
                                # `back` is exactly that set for a reducible CFG with the null block as a sink
                                if bl == nb or dominates_path(f, bl, nb):
                                    add("R06.3", name, "store-before-null", "`%s` writes the manager on a path that then reports an empty manager" % i.text.strip(), i.addr, key[1])
            if len(out["samples"]) < 1:
                out["samples"].append({"rule": "R06.3", "function": name, "null_blocks": len(set(nullblocks))})
    return out


def dominates_path(f, a, b):
    """Block a lies on *every* path from entry to b?  (then its stores always precede the NULL return)"""
    if a == b:
        return True
    seen = {f.entry}
    work = [f.entry]
    if a == f.entry:
        return True
    while work:
        x = work.pop()
        for s in f.succ.get(x, []):
            if s == a or s in seen:
                continue
            seen.add(s)
            work.append(s)
    return b not in seen
