"""C01 - multi-buffer hash digests: the structural clauses (PARTIAL; digest values are not decided).

Engine: object code of every hash unit of the default build (managers, multi-lane and single-lane kernels, the C
context layers); phase-1 pointer provenance; constants derived from the standards' definitions (lib/stdconst.py);
IR path rule shared with C20 for message restart.

R01.1 "any pointer alignment": in every kernel the assembly managers call (and the single-buffer SHA-512 kernel
      the C manager calls) no alignment-demanding instruction addresses memory through a pointer fetched from
      the lane table / job (the caller's data buffers); aligned accesses go to the kernel's own frame, constant
      tables and the manager's argument block only.
R01.2 "a context reused for a new message yields a digest that depends on the new message only": under FIRST,
      every _ctx_mgr_submit_<family> resets total_length, partial_block_buffer_length and the digest before
      reading them (same rule instance as C20 R20.4, decided on IR paths).
R01.6 lane data pointers are 64-bit quantities: in every kernel, an arithmetic instruction that reads the data_ptr
      array of the manager's argument block (extent from DWARF), or that defines (within the same basic block) a
      register later stored into that array, works on 64-bit lanes / 64-bit registers - a 32-bit add would drop the
      carry when a buffer crosses a 4 GiB boundary.
R01.7 block loops keep their accumulators: in no kernel is a state location re-loaded in every loop iteration, left
      unwritten inside the loop and written back from a loop-computed register only afterwards.
R01.9 byte-order masks are constants: in every kernel the control operand of each (v)pshufb has, on every path, been
      loaded from constant data (directly, by broadcast, or through register copies) - a mask loaded once before
      the block loop and then used as scratch inside it shuffles every block but the first with garbage.
R01.8 stream conservation in the context layer (lib/ctxrules.py on the IR skeleton, lib/irskel.py): for every SIMD
      context layer and a grid of (flags, carried bytes, len) around every block and padding boundary, with the
      manager modelled as handing the submitted job back at once, the jobs submitted continue the stream exactly
      where the previous one ended; the carried block is submitted as data only when it holds a whole block in
      stream order; without LAST the tail (< block) is carried and partial_block_buffer_length says so; with LAST
      the padding job covers the residue with the 1 or 2 blocks the residue and the length field need;
      total_length is the stream length.
R01.3 every context-layer unit (one per CPU family and algorithm) carries the algorithm's standard initial hash
      value, complete: SHA-1 / SHA-256 / SHA-512 (FIPS 180-4 5.3), MD5 (RFC 1321 3.3), SM3 (GB/T 32905 4.1).
R01.4 every unit that implements an algorithm's round function carries the complete standard round-constant set
      (SHA-1 K0..K3, SHA-256 K[64], SHA-512 K[80], MD5 T[64], SM3 T_j <<< j or its two generators), as a data
      table (lane-replicated or not, then also in the standard order) or as instruction immediates.
The constants are computed from their definitions (cube / square roots of primes, sines), not copied.
"""
import collections
import re

import absint
import align
import build
import cands
import c19
import c20
import ir
import par
import stdconst
import x86
from report import Finding

LEVEL = "other"
RULE_TEXT = __doc__.split("\n\n", 2)[2].replace("\n      ", " ")
DIRS = {"sha1_mb": "SHA1", "sha256_mb": "SHA256", "sha512_mb": "SHA512", "md5_mb": "MD5", "sm3_mb": "SM3"}
MGR = re.compile(r"^_(sha1|sha256|sha512|md5|sm3)_mb_mgr_(submit|flush)_\w+$")
# single-buffer kernels called from C: data pointer argument (prototype: sha512_sse4(const void *M, void *D, uint64_t L))
C_CALLED_KERNELS = {"_sha512_sse4": "RDI"}
UNIT_FLOOR = {"SHA1": 6, "SHA256": 8, "SHA512": 6, "MD5": 5, "SM3": 3}
CTX_FLOOR = {"SHA1": 7, "SHA256": 7, "SHA512": 6, "MD5": 5, "SM3": 3}
SM3_GENERATORS = [0x79CC4519, 0x7A879D8A]


def has_ld_root(v):
    rs = absint.roots(v)
    if rs is None:
        return None
    return any(isinstance(r, tuple) and r and r[0] == "ld" for r in rs)


def worker(lib, objname, extra):
    o = lib.by_name[objname]
    kernels = extra["kernels"].get(objname, {})
    out = {"findings": [], "broken": [], "kernels": 0, "sinks": 0, "data_acc": 0, "callees": [], "ok": 0}
    for key, name in lib.entry_list:
        if key[0] != objname:
            continue
        if MGR.match(name):
            f = lib.func(key)
            ip = absint.Interp(lib, lambda t, c=None: c19.summary_of(lib, t, c))
            p1 = ip.run(f)
            for (ci, tgt) in p1.calls:
                if tgt and tgt[0] == "func":
                    out["callees"].append(list(tgt[1]))
        if name in kernels:
            datareg = kernels[name]
            f = lib.func(key)
            ip = absint.Interp(lib, lambda t, c=None: c19.summary_of(lib, t, c))
            p1 = ip.run(f)
            for b in p1.broken:
                out["broken"].append("%s::%s %s" % (objname, name, b))
            out["kernels"] += 1
            bad = None
            for i in (x for b in f.blocks.values() for x in b):
                if i.mem < 0 or i.op.startswith("LEA"):
                    continue
                m = p1.maddr.get(i.addr)
                if m is None:
                    continue
                rs = absint.roots(m[0])
                isdata = None if rs is None else (any(isinstance(r, tuple) and r and r[0] == "ld" for r in rs) or (datareg is not None and datareg in rs))
                if isdata:
                    out["data_acc"] += 1
                nd = align.need(i)
                if not nd:
                    continue
                out["sinks"] += 1
                if bad is None and (isdata or rs is None):
                    bad = (i, nd, rs is None)
            # R01.6 pointer-lane width
            reg = extra["ptr_region"].get(objname.split("_")[0])
            if reg and datareg is None:
                lo_, hi_ = reg
                out["ptr_kernels"] = out.get("ptr_kernels", 0) + 1
                nupd = 0
                badw = None

                def in_region(i):
                    m = p1.maddr.get(i.addr)
                    if m is None:
                        return False
                    v = m[0]
                    if v[0] == "init" and v[1] == "RDI" and lo_ <= v[2] < hi_:
                        return True
                    return False

                def narrow(i):
                    mn = i.text.strip().split()[0].lower()
                    mm = re.match(r"^v?p(add|sub)(us|s)?([bwdq])$", mn)
                    if mm:
                        return mm.group(3) != "q"
                    if re.match(r"^(ADD|SUB|INC|DEC|ADC|SBB)(32|16|8)", i.op) or i.op in ("LEA64_32r", "LEA32r"):
                        return True
                    return False

                def is_arith(i):
                    mn = i.text.strip().split()[0].lower()
                    return bool(re.match(r"^v?p(add|sub)", mn)) or bool(re.match(r"^(ADD|SUB|INC|DEC|ADC|SBB|LEA)", i.op))
                for bl in f.blocks.values():
                    for k, i in enumerate(bl):
                        if i.mem < 0 or not in_region(i):
                            continue
                        if i.reads_mem_operand() and is_arith(i):
                            nupd += 1
                            if narrow(i) and badw is None:
                                badw = (i, "adds to the lane data pointers it reads from the argument block")
                        if i.writes_mem_operand() and i.mem + 5 < len(i.ops) and i.ops[i.mem + 5][0] == "r":
                            src = i.ops[i.mem + 5][1]
                            key_ = x86.vec_of(src) if x86.vec_of(src) is not None else x86.PARENT.get(src)
                            for j in reversed(bl[:k]):
                                dd = [x86.vec_of(r) if x86.vec_of(r) is not None else x86.PARENT.get(r) for r in j.explicit_defs()]
                                if key_ not in dd:
                                    continue
                                if is_arith(j):
                                    nupd += 1
                                    if narrow(j) and badw is None:
                                        badw = (j, "computes the value `%s` stores back into the lane data pointers" % i.text.strip())
                                break
                out["ptr_updates"] = out.get("ptr_updates", 0) + nupd
                if badw:
                    i, why = badw
                    out["findings"].append({"rule": "R01.6", "obj": objname, "function": name, "construct": "pointer-width",
                                            "message": "`%s` %s with lanes / registers narrower than 64 bits: the carry out of bit 31 is lost, so a lane whose buffer crosses a 4 GiB boundary continues reading 4 GiB lower" % (i.text.strip(), why),
                                            "loc": o.line_of(key[1], i.addr) or "%s+%#x" % (objname, i.addr)})
                else:
                    out["ptr_ok"] = out.get("ptr_ok", 0) + 1
            if bad:
                i, nd, unk = bad
                out["findings"].append({"rule": "R01.1", "obj": objname, "function": name, "construct": "align:data" if not unk else "align:unknown-address",
                                        "message": "`%s` demands %d-byte alignment of %s; the hash interfaces accept data at any alignment" % (i.text.strip(), nd, "an address the provenance analysis cannot classify" if unk else "memory addressed through a data pointer fetched from the lane table / job"),
                                        "loc": o.line_of(key[1], i.addr) or "%s+%#x" % (objname, i.addr)})
            else:
                out["ok"] += 1
    return out


class _Proxy(object):
    """Routes the shared R20.4 rule instance into this check under the name R01.2."""

    def __init__(self, chk):
        self.chk = chk

    def obligation(self, rule, ok, key=None, sample=None):
        if rule == "R20.4":
            self.chk.obligation("R01.2", ok, key=key, sample=sample)

    def finding(self, f):
        if f.rule == "R20.4":
            f.rule = "R01.2"
            self.chk.finding(f)

    def floor(self, what, measured, floor):
        if "restart" in what:
            self.chk.floor(what, measured, floor)

    def broke(self, msg):
        pass


def constant_rules(chk, lib, dirs, rule_iv, rule_k, unit_floor, ctx_floor, ctx_pat=re.compile(r"_ctx_\w+\.o$")):
    nunits = collections.Counter()
    nctx = collections.Counter()
    for o in lib.objs:
        d = (o.src or "").split("/")[0]
        if d not in dirs:
            continue
        A = dirs[d]
        ci = stdconst.ConstIndex(o)
        K, kw = stdconst.ALGOS[A]["K"]
        IV, iw = stdconst.ALGOS[A]["IV"]
        # ---- initial hash value
        if rule_iv and ctx_pat.search(o.name):
            missing = [(k, v) for k, v in enumerate(IV) if not ci.where(v, iw)]
            nctx[A] += 1
            chk.obligation(rule_iv, not missing, key=(o.name, "IV"), sample={"unit": o.src, "algorithm": A, "initial_hash_words_found": len(IV) - len(missing)})
            if missing:
                k, v = missing[0]
                chk.finding(Finding(rule_iv, o.name, "<unit>", "IV[%d]" % k, "the %s initial hash word H%d = %#x does not occur in this context-layer unit (%d of %d words missing): contexts initialised by this CPU family start from a non-standard state" % (A, k, v, len(missing), len(IV)), loc=o.src))
        # ---- round constants
        have = [v for v in K if ci.where(v, kw)]
        gens = A == "SM3" and all(ci.where(v, 4) for v in SM3_GENERATORS)
        implementing = len(have) * 4 >= len(K) or (A == "SM3" and ci.where(SM3_GENERATORS[0], 4))
        if not implementing:
            continue
        nunits[A] += 1
        missing = [(k, v) for k, v in enumerate(K) if not ci.where(v, kw)]
        if A == "SM3" and gens and len(have) < len(K) // 4:
            missing = []            # T_j <<< j is computed from the two generators at run time
        order = ci.ordered(K, kw) if not missing else None
        tabs = ci.tables_like(K, kw)
        badtab = [(t, t[3][0]) for t in tabs if t[3]]
        ok = not missing and order is not False and not badtab
        chk.obligation(rule_k, ok, key=(o.name, "K"), sample={"unit": o.src, "algorithm": A, "round_constants_found": len(have), "of": len(K), "table_in_standard_order": order, "tables": [(t[0], t[1], t[2]) for t in tabs]})
        if missing:
            k, v = missing[0]
            chk.finding(Finding(rule_k, o.name, "<unit>", "K[%d]" % k, "the %s round constant K[%d] = %#x does not occur in this unit, which implements the round function (%d of %d constants present)" % (A, k, v, len(have), len(K)), loc=o.src))
        elif badtab:
            (nm, off, r, bad), (j, lane, got) = badtab[0]
            chk.finding(Finding(rule_k, o.name, "<unit>", "K[%d]" % j, "the %s round-constant table at %s+%#x (%d copies per entry) holds %#x in copy %d of entry %d; the standard value is %#x (%d differing word(s))" % (A, nm, off, r, got, lane, j, K[j], len(bad)), loc=o.src))
        elif order is False:
            chk.finding(Finding(rule_k, o.name, "<unit>", "K-order", "all %s round constants occur in a data table of this unit but not in the standard order" % A, loc=o.src))
    for A, n in unit_floor.items():
        chk.floor("%s units implementing the round function" % A, nunits[A], n)
    for A, n in (ctx_floor or {}).items():
        chk.floor("%s context-layer units" % A, nctx[A], n)
    return nunits, nctx


def run(chk):
    units, stats = build.build("default")
    lib = x86.Library(units)
    chk.extra["build"] = stats
    hash_objs = sorted(o.name for o in lib.objs if (o.src or "").split("/")[0] in DIRS)
    # pass 1: managers -> kernels
    # extent of the data_ptr array inside the manager's argument block, per algorithm (DWARF)
    ptr_region = {}
    rmods = ir.load_modules([u for u in units if u["kind"] == "c" and re.match(r"^(sha1|sha256|sha512|md5|sm3)_mb/\w+_ctx_(sse|avx2)\.c$", u["src"])])
    for src_, M_ in rmods.items():
        for n_, ds in M_.distructs.items():
            ms = {m["name"]: (m["off"], m["size"]) for m in ds["members"]}
            if "data_ptr" in ms and "digest" in ms and "_MB_ARGS_" in n_:
                ptr_region[src_.split("/")[0].split("_")[0]] = (ms["data_ptr"][0], ms["data_ptr"][0] + ms["data_ptr"][1])
    chk.floor("argument-block layouts (data_ptr extent) found", len(ptr_region), 5)
    chk.extra["data_ptr_extent"] = ptr_region
    res = par.map_objects(lib, worker, [n for n in hash_objs if "_mb_mgr_" in n], extra={"kernels": {}, "ptr_region": ptr_region})
    kernels = collections.defaultdict(dict)
    nmgr = 0
    for objname, r in res.items():
        nmgr += 1
        for b in r["broken"]:
            chk.broke(b)
        for k in r["callees"]:
            key = tuple(k)
            nm = lib.entries_by_key.get(key)
            if nm:
                kernels[key[0]][nm] = None
    for nm, reg in C_CALLED_KERNELS.items():
        k = lib._by_name.get(nm)
        if k is None:
            chk.broke("single-buffer kernel %s not found" % nm)
        else:
            kernels[k[0]][nm] = reg
    nk = sum(len(v) for v in kernels.values())
    chk.floor("manager objects scanned for kernel calls", nmgr, 40)
    chk.floor("kernels reached from the managers", nk, 25)
    res = par.map_objects(lib, worker, sorted(kernels), extra={"kernels": dict(kernels), "ptr_region": ptr_region})
    tot = collections.Counter()
    for objname in sorted(res):
        r = res[objname]
        for k in ("kernels", "sinks", "data_acc", "ok"):
            tot[k] += r[k]
        for k in ("ptr_kernels", "ptr_updates", "ptr_ok"):
            tot[k] += r.get(k, 0)
        for b in r["broken"]:
            chk.broke(b)
        for fd in r["findings"]:
            chk.finding(Finding(fd["rule"], fd["obj"], fd["function"], fd["construct"], fd["message"], loc=fd["loc"]))
    chk.obligations["R01.1"] = [tot["kernels"], tot["ok"]]
    chk.obligations["R01.6"] = [tot["ptr_kernels"], tot["ptr_ok"]]
    chk.floor("kernels checked for pointer-lane width", tot["ptr_kernels"], 20)
    chk.floor("data-pointer update instructions seen", tot["ptr_updates"], 40)
    chk.floor("kernels analysed", tot["kernels"], 25)
    chk.floor("data accesses through lane-table pointers seen", tot["data_acc"], 400)
    for kn in sorted(n for v in kernels.values() for n in v):
        chk.distinct.add(("kernel", kn))
    nbind = cands.binding_rule(chk, "R01.5", lib, ['_sha1_', '_sha256_', '_sha512_', '_md5_', '_sm3_'])
    chk.floor("implementations checked for binding ownership", nbind, 1)
    # R01.7
    import mhrules
    kn = sorted(n for v in kernels.values() for n in v)
    nls = mhrules.loop_state_rule(chk, "R01.7", lib, "^(" + "|".join(re.escape(x) for x in kn) + ")$")
    # R01.9
    nsm, nsh = mhrules.shuffle_mask_rule(chk, "R01.9", lib, "^(" + "|".join(re.escape(x) for x in kn) + ")$")
    chk.floor("kernels checked for constant byte-shuffle masks", nsm, 20)
    chk.floor("byte shuffles with a register mask judged", nsh, 300)
    chk.floor("kernels with loops checked for accumulator discipline", nls, 25)
    # R01.2
    mods = ir.load_modules([u for u in units if u["kind"] == "c" and c20.CTX_UNIT.match(u["src"])])
    c20.ir_rules(_Proxy(chk), mods)
    # R01.8
    import ctxrules
    nfun8, ncase8 = ctxrules.rule(chk, "R01.8", mods)
    chk.floor("context layers replayed for stream conservation", nfun8, 22)
    chk.floor("(flags, carried, len) cases followed on the IR skeleton", ncase8, 2000)
    # R01.3 / R01.4
    nunits, nctx = constant_rules(chk, lib, DIRS, "R01.3", "R01.4", UNIT_FLOOR, CTX_FLOOR)
    chk.trusted += ["LLVM 14 MC decoding", "the definitions in lib/stdconst.py (self-checked against published first/last constants on import)"]
    chk.assumptions += ["a pointer fetched from memory inside a kernel is a data-buffer pointer (the argument block holds nothing else)",
                        "presence of a constant is tested per unit (data word at an aligned offset, or an immediate / displacement); that each round uses the right entry is not decided for immediates"]
    chk.extra.update({"kernels": sorted(n for v in kernels.values() for n in v), "alignment_demanding_instructions_in_kernels": tot["sinks"], "data_accesses": tot["data_acc"],
                      "round_function_units": dict(nunits), "context_layer_units": dict(nctx),
                      "not_decided": "digest values for all segmentations / interleavings / families (the arithmetic of the round functions, lane bookkeeping, padding)"})
    return ("%d kernels: no alignment-demanding access through a data pointer (%d data accesses seen); restart rule on the context layers; "
            "%d context-layer units carry the standard initial hash values and %d round-function units the complete standard round constants." %
            (tot["kernels"], tot["data_acc"], sum(nctx.values()), sum(nunits.values())))
