"""C10 - mh_sha1_murmur3_x64_128: the structural clauses (PARTIAL; neither digest value is decided).

R10.1 "neither result depends on ... alignment": in every stitched assembly block function
      _mh_sha1_murmur3_x64_128_block_<family> no alignment-demanding instruction addresses memory through the
      input_data argument (position taken from the C sibling _block_base).
R10.2 "does not depend on the segmentation" (bookkeeping half): on every path of every
      _mh_sha1_murmur3_x64_128_update_<family> that has any effect, total_length is stored exactly once with the
      value total_length + len (finalize feeds total_length to the murmur tail and to the SHA-1 padding).
R10.3 "both state words initialised to the seed": on every path of _mh_sha1_murmur3_x64_128_init that touches the
      context, after the clearing memset all 16 bytes of murmur3_x64_128_digest are written from the seed
      parameter (two 8-byte stores of the parameter, or 8-byte copies from a local that only ever holds it).
R10.7 finalize feeds the carried partial block to the murmur block / tail functions before any callee that
      modifies that buffer (the SHA-1 tail pads it in place): on no path does a call that only reads
      ctx->partial_block_buffer follow a call whose callee stores through the same argument.
R10.8 block loops keep their accumulators: in the stitched block functions no state word (murmur state, digest) is
      re-loaded from memory in every loop iteration, left unwritten inside the loop, and written back from a
      loop-computed register only after it (all iterations but the last would be lost).
R10.9 the stitched block functions read the input only within [0, 1024 * num_blocks) (length skeleton, 1..3 blocks).
R10.11 byte-order masks are constants in the stitched block functions (as C01 R01.9).
R10.12 the frame buffer is aligned upwards (as C05 R05.12).
R10.10 byte conservation of the five stitched update functions on the IR skeleton, as C05 R05.9.
R10.4 every block implementation (the four stitched assembly functions and the scalar C block function) carries
      MurmurHash3_x64_128's block constants c1, c2, 0x52dce729, 0x38495ab5; the unit with the tail / finalisation
      carries the two fmix64 multipliers; the stitched SHA-1 halves carry the standard SHA-1 round constants and
      the init unit the standard SHA-1 initial hash value.
R10.5 every store of the bit length into a padding buffer that the C source of this directory asks for survives in
      the object built with the real flags (see C05 R05.4).
"""
import re

import build
import cands
import c01
import ir
import mhrules
import stdconst
import x86
from report import Finding

LEVEL = "other"
RULE_TEXT = __doc__.split("\n\n", 1)[1].replace("\n      ", " ")
DIR = "mh_sha1_murmur3_x64_128"


def seed_rule(chk, mods):
    F = None
    for M in mods.values():
        G = M.functions.get("_mh_sha1_murmur3_x64_128_init")
        if G is not None and not G.decl:
            F = G
    if F is None:
        chk.broke("_mh_sha1_murmur3_x64_128_init not found")
        return
    if len(F.args) < 2:
        chk.broke("_mh_sha1_murmur3_x64_128_init has no seed parameter")
        return
    seed = "arg:" + (F.args[1].get("name") or "1")
    # allocas that only ever hold the seed
    seed_allocas = set()
    for I in F.all_insts():
        if I.op == "alloca":
            sts = [J for J in F.all_insts() if J.op == "store" and isinstance(F.resolve(J.ops[1]), ir.Inst) and F.ptr_root(J.ops[1])[0] is I]
            if sts and all(ir.expr_str(F, J.ops[0]) == seed for J in sts):
                seed_allocas.add(I.id)
    bad = None
    npaths = 0
    for P in ir.paths_with_facts(F, max_paths=5000):
        if P.contradictory(F):
            continue
        touched = False
        covered = set()
        for I in P.insts:
            dst = None
            n = 0
            from_seed = False
            if I.op == "store":
                dst, n = I.ops[1], 8 if ir.expr_str(F, I.ops[0]) == seed else 0
                from_seed = n == 8
                fld0 = F.field(I.ops[1])
                if fld0 and F.is_arg(fld0[0], 0):
                    touched = True
            elif I.op == "call" and (I.callee or "").startswith(("llvm.memcpy", "memcpy", "__memcpy_chk")):
                dst = I.ops[0]
                sroot = F.ptr_root(I.ops[1])[0]
                cnt = F.const_int(I.ops[2])
                from_seed = isinstance(sroot, ir.Inst) and sroot.id in seed_allocas and cnt is not None and cnt <= 8 and F.ptr_root(I.ops[1])[1] == 0
                n = cnt or 0
                touched = True
            elif I.op == "call" and (I.callee or "").startswith(("llvm.memset", "memset", "__memset_chk")):
                root, off = F.ptr_root(I.ops[0])
                if F.is_arg(root, 0):
                    touched = True
                    covered = set()          # the clearing memset wipes what was there
                continue
            if dst is None:
                continue
            fld = F.field(dst)
            if not fld or not F.is_arg(fld[0], 0) or not fld[1]:
                continue
            if fld[1][-1][1] != "murmur3_x64_128_digest":
                continue
            inner = F.ptr_root(dst)[1] - fld[1][-1][2]
            rng = set(range(inner, inner + max(n, 1)))
            if from_seed:
                covered |= rng
            else:
                covered -= rng
                bad = bad or (I, "murmur3_x64_128_digest is written with something other than the seed parameter")
        if not touched:
            continue
        npaths += 1
        missing = sorted(set(range(16)) - covered)
        if missing:
            bad = bad or (P.retinst, "bytes %d..%d of murmur3_x64_128_digest are not initialised from the seed on a path that initialises the context" % (missing[0], missing[-1]))
    # the seed reaches _init unnarrowed from every entry point that forwards one
    if (F.args[1].get("ty") or "") != "i64":
        bad = bad or (F.first(), "the seed parameter of %s is %s, not a 64-bit integer" % (F.name, F.args[1].get("ty")))
    for M in mods.values():
        for G in M.defined():
            for I in G.calls(F.name):
                if I.raw.get("nargs", 0) < 2:
                    continue
                r = G.resolve(I.ops[1])
                okfw = isinstance(r, dict) and ((r.get("k") == "a" and (G.args[r["n"]].get("ty") or "") == "i64") or r.get("k") == "c")
                chk.obligation("R10.3", okfw, key=("seed-forward", G.name), sample={"function": G.name, "forwards_seed_as": ir.expr_str(G, I.ops[1])})
                if not okfw:
                    wid = None
                    if isinstance(r, ir.Inst) and r.op in ("zext", "sext"):
                        src_ = G.resolve(r.ops[0])
                        if isinstance(src_, dict) and src_.get("k") == "a":
                            wid = G.args[src_["n"]].get("ty")
                    chk.finding(Finding("R10.3", G.file or DIR, G.name, "seed-width", "%s forwards the seed to %s as `%s`%s: seeds of 2^32 and above are truncated before both state words are initialised" % (G.name, F.name, ir.expr_str(G, I.ops[1]), " (its own parameter is %s)" % wid if wid else ""), loc=I.loc()))
    chk.obligation("R10.3", bad is None and npaths > 0, key="seed", sample={"function": F.name, "seed_parameter": seed, "paths": npaths})
    if npaths == 0:
        chk.broke("_mh_sha1_murmur3_x64_128_init: no path touches the context")
    if bad:
        chk.finding(Finding("R10.3", F.file or DIR, F.name, "seed", bad[1] + ": the 128-bit result no longer starts from (seed, seed)", loc=bad[0].loc()))


def writes_param(fnmap, G, k, depth=0, memo=None):
    """Callee G (IR) may store through its k-th pointer parameter (directly, via memset/memcpy, or via a callee)."""
    memo = memo if memo is not None else {}
    key = (G.name, k)
    if key in memo:
        return memo[key]
    memo[key] = False
    res = False
    for I in G.all_insts():
        if I.op == "store":
            r, _o = G.ptr_root(I.ops[1])
            if G.is_arg(r, k):
                res = True
        elif I.op == "call":
            cal = I.callee or ""
            n = I.raw.get("nargs", 0)
            if cal.startswith(("llvm.memset", "memset", "__memset_chk", "llvm.memcpy", "memcpy", "__memcpy_chk", "llvm.memmove", "memmove")):
                r, _o = G.ptr_root(I.ops[0])
                if G.is_arg(r, k):
                    res = True
            elif depth < 3:
                H = fnmap.get(cal)
                for j, o in enumerate(I.ops[:n]):
                    r, _o = G.ptr_root(o)
                    if G.is_arg(r, k):
                        if H is None or H.decl:
                            if not cal.startswith("llvm."):
                                res = True          # unknown callee: assume it may write
                        elif writes_param(fnmap, H, j, depth + 1, memo):
                            res = True
        if res:
            break
    memo[key] = res
    return res


def tail_order_rule(chk, mods):
    fnmap = {}
    for M in mods.values():
        for G in M.defined():
            fnmap.setdefault(G.name, G)
    n = 0
    for src, M in sorted(mods.items()):
        if not src.startswith(DIR + "/"):
            continue
        for F in M.defined():
            if not re.match(r"^_mh_sha1_murmur3_x64_128_finalize_\w+$", F.name):
                continue
            ctx_n = F.arg_index("ctx")
            if ctx_n is None:
                continue
            n += 1
            bad = None
            nread = nwrite = 0
            for P in ir.paths_with_facts(F, max_paths=5000):
                if P.contradictory(F):
                    continue
                written_by = None
                for I in P.insts:
                    if I.op != "call" or (I.callee or "").startswith("llvm.dbg"):
                        continue
                    G = fnmap.get(I.callee or "")
                    for j, o in enumerate(I.ops[:I.raw.get("nargs", 0)]):
                        fld = F.field(o)
                        if not (fld and F.is_arg(fld[0], ctx_n) and fld[1] and fld[1][0][1] == "partial_block_buffer"):
                            continue
                        w = True if (G is None or G.decl) else writes_param(fnmap, G, j)
                        if w:
                            nwrite += 1
                            written_by = written_by or I
                        else:
                            nread += 1
                            if written_by is not None:
                                bad = bad or (I, written_by)
            chk.obligation("R10.7", bad is None and nread > 0 and nwrite > 0, key=(src, F.name), sample={"unit": src, "function": F.name, "reader_calls": nread, "writer_calls": nwrite})
            if bad:
                chk.finding(Finding("R10.7", src, F.name, "tail-order", "%s reads the carried partial block after %s (line %s) may already have modified it in place: the murmur result then depends on the SHA-1 padding" % (bad[0].callee, bad[1].callee, bad[1].line), loc=bad[0].loc()))
            elif not (nread and nwrite):
                chk.broke("%s: expected a reader and a writer of partial_block_buffer (found %d / %d)" % (F.name, nread, nwrite))
    chk.floor("finalize functions checked for tail order", n, 5)


def run(chk):
    units, stats = build.build("default")
    lib = x86.Library(units)
    chk.extra["build"] = stats
    mods = ir.load_modules([u for u in units if u["kind"] == "c" and u["src"].split("/")[0] in (DIR, "mh_sha1")])
    nbind = cands.binding_rule(chk, "R10.6", lib, ['_mh_sha1_murmur3_'])
    chk.floor("implementations checked for binding ownership", nbind, 1)
    nb = mhrules.block_alignment(chk, "R10.1", lib, mods, "_mh_sha1_murmur3_x64_128_block")
    chk.floor("stitched assembly block functions", nb, 4)
    nu = mhrules.total_length_rule(chk, "R10.2", {k: v for k, v in mods.items() if k.startswith(DIR + "/")}, r"^_mh_sha1_murmur3_x64_128_update_\w+$")
    chk.floor("update functions", nu, 5)
    seed_rule(chk, {k: v for k, v in mods.items() if k.startswith(DIR + "/")})
    tail_order_rule(chk, mods)
    ncons, ncase = mhrules.update_conservation(chk, "R10.10", {k: v for k, v in mods.items() if k.startswith(DIR + "/")}, r"^_mh_sha1_murmur3_x64_128_update_\w+$", r"^_?mh_sha1_murmur3_x64_128_block_\w+$")
    chk.floor("update functions replayed for byte conservation", ncons, 5)
    chk.floor("(carried, len) cases followed on the IR skeleton", ncase, 150)
    nsm, nsh = mhrules.shuffle_mask_rule(chk, "R10.11", lib, r"^_?mh_sha1_murmur3_x64_128_block_\w+$")
    chk.floor("stitched block functions checked for constant byte-shuffle masks", nsm, 4)
    nal = mhrules.align_up_rule(chk, "R10.12", {k: v for k, v in mods.items() if k.startswith(DIR + "/")})
    chk.extra["pointer_alignments_by_masking_judged"] = nal      # the idiom may legitimately disappear: no floor
    nbb = mhrules.block_bounds(chk, "R10.9", lib, {k: v for k, v in mods.items() if k.startswith(DIR + "/")}, "_mh_sha1_murmur3_x64_128_block")
    chk.floor("stitched block functions followed on the length skeleton", nbb, 4)
    nls = mhrules.loop_state_rule(chk, "R10.8", lib, r"^_mh_sha1_murmur3_x64_128_block_\w+$")
    chk.floor("stitched block functions with loops checked for accumulator discipline", nls, 4)
    mhrules.bit_length_width(chk, "R10.5", {k: v for k, v in mods.items() if k.startswith(DIR + "/")})
    ns = mhrules.length_store_survives(chk, "R10.5", lib, {k: v for k, v in mods.items() if k.startswith(DIR + "/")})
    chk.extra["bit_length_stores_checked"] = ns
    # R10.4 constants
    M3 = stdconst.MURMUR3_X64_128
    nblock = 0
    nfin = 0
    for o in lib.objs:
        if (o.src or "").split("/")[0] != DIR:
            continue
        ci = stdconst.ConstIndex(o)
        w = lambda v: ci.where(v, 8 if v >> 32 else 4)
        blockc = {k: w(M3[k]) for k in ("c1", "c2", "n1", "n2")}
        finc = {k: w(M3[k]) for k in ("fmix1", "fmix2")}
        if any(blockc.values()):
            nblock += 1
            missing = [k for k, v in blockc.items() if not v]
            chk.obligation("R10.4", not missing, key=(o.name, "murmur-block"), sample={"unit": o.src, "constants": {k: bool(v) for k, v in blockc.items()}})
            if missing:
                chk.finding(Finding("R10.4", o.name, "<unit>", "murmur:" + missing[0], "MurmurHash3_x64_128 constant %s = %#x does not occur in this unit, which implements the murmur block step" % (missing[0], M3[missing[0]]), loc=o.src))
        if any(finc.values()):
            nfin += 1
            missing = [k for k, v in finc.items() if not v]
            chk.obligation("R10.4", not missing, key=(o.name, "murmur-fmix"), sample={"unit": o.src, "constants": {k: bool(v) for k, v in finc.items()}})
            if missing:
                chk.finding(Finding("R10.4", o.name, "<unit>", "murmur:" + missing[0], "MurmurHash3 fmix64 constant %s = %#x does not occur in this unit, which implements the finalisation" % (missing[0], M3[missing[0]]), loc=o.src))
    chk.floor("units implementing the murmur block step", nblock, 5)
    chk.floor("units implementing the murmur finalisation", nfin, 1)
    nunits, nctx = c01.constant_rules(chk, lib, {DIR: "SHA1"}, "R10.4", "R10.4", {"SHA1": 4}, {"SHA1": 1}, ctx_pat=re.compile(r"^mh_sha1_murmur3_x64_128\.o$"))
    chk.trusted += ["LLVM 14 MC decoding", "clang -O0 + mem2reg IR of the C layer", "the definitions in lib/stdconst.py"]
    chk.extra.update({"murmur_block_units": nblock, "murmur_finalisation_units": nfin,
                      "not_decided": "both digest values: the murmur tail arithmetic across 1024-byte blocks, the SHA-1 multi-hash, agreement between families"})
    return "%d stitched block functions alignment-free on input_data; %d update functions keep total_length; init seeds both murmur state words; %d units carry the murmur block constants." % (nb, nu, nblock)
