"""C18 - no hidden shared state: the library writes no static storage except the one-time bindings and the
self-test verdict, and a racing first call still binds correctly.

Engine: x86 effects over all objects of the default build (abstract addresses from lib/absint.py) + IR globals.

R18.1 who may write statics: every store / read-modify-write whose abstract address is (derived from) a symbol
      in a writable section is either the dispatcher's store to its own X_dispatched slot or one of the two
      asm_*_self_tests_status functions writing self_test_status.  The address of a writable static may be used
      as a load base; it may be passed to a callee only in an argument the callee never stores through; it may
      not be stored to memory.
R18.2 inert data is counted: writable symbols never written and never escaping (constant tables and version
      structs that nasm / C put in .data) are listed, not judged.
R18.3 racing first calls: in each X_dispatch_init the only non-stack store is one 8-byte mov to the slot; the
      stub reads the slot with one 8-byte load; the slot is naturally aligned in every link (section alignment
      >= 8 and offset = 0 mod 8), so the store is single-copy atomic.
R18.4 C statics: no IR store, memcpy/memset destination or atomic targets a non-constant global.
"""
import collections

import build
import ir
import par
import x86
import absint
import c19
from report import Finding

LEVEL = "proof"
RULE_TEXT = __doc__.split("\n\n", 2)[2].replace("\n      ", " ")

STATUS_FUNCS = {"asm_check_self_tests_status", "asm_set_self_tests_status"}
EXT_WRITES_ARG = {"memcpy": ["RDI"], "memmove": ["RDI"], "memset": ["RDI"], "__memcpy_chk": ["RDI"], "__memset_chk": ["RDI"], "__memmove_chk": ["RDI"],
                  "strcpy": ["RDI"], "strncpy": ["RDI"], "explicit_bzero": ["RDI"], "bzero": ["RDI"]}
EXT_PURE = {"memcmp", "strlen", "__stack_chk_fail", "__assert_fail", "abort", "printf", "puts"}

_STORE_ROOTS = {}


def store_roots(lib, key, depth=0):
    """Entry registers (and symbols) through which function `key` or its direct callees may store."""
    if key in _STORE_ROOTS:
        return _STORE_ROOTS[key]
    _STORE_ROOTS[key] = frozenset()
    f = lib.func(key)
    if f is None:
        return frozenset()
    r = c19.analyse(lib, key)
    out = set()
    for b in f.blocks.values():
        for i in b:
            if i.writes_mem_operand() and i.addr in r.maddr:
                rs = absint.roots(r.maddr[i.addr][0])
                if rs is None:
                    continue
                for t in rs:
                    if isinstance(t, str):
                        out.add(t)
    if depth < 6:
        for (i, tgt, args) in r.callargs:
            cs = callee_store_regs(lib, tgt, depth + 1)
            for reg in cs:
                v = args.get(reg)
                if v is None:
                    continue
                rs = absint.roots(v)
                if rs:
                    for t in rs:
                        if isinstance(t, str):
                            out.add(t)
    _STORE_ROOTS[key] = frozenset(out)
    return _STORE_ROOTS[key]


def callee_store_regs(lib, tgt, depth=0):
    """Argument registers a call target may store through."""
    if tgt is None:
        return x86.ARG_REGS
    kind, k = tgt
    if kind == "ext":
        if k in EXT_WRITES_ARG:
            return EXT_WRITES_ARG[k]
        if k in EXT_PURE:
            return []
        return x86.ARG_REGS
    if kind == "func":
        f = lib.func(k)
        if f is not None and c19.is_stub(lib, k):
            # dispatch stub: union over every candidate its ladder can bind
            cands = stub_candidates(lib, k)
            if cands is None:
                return x86.ARG_REGS
            out = set()
            for ck in cands:
                out |= set(r for r in store_roots(lib, ck, depth) if r in x86.ARG_REGS)
            return sorted(out)
        return [r for r in store_roots(lib, k, depth) if r in x86.ARG_REGS]
    return x86.ARG_REGS


_CANDS = {}


def stub_candidates(lib, key):
    """Keys of all functions the dispatcher of stub `key` can bind (from the ladder enumeration of C12)."""
    if key in _CANDS:
        return _CANDS[key]
    import c12
    name = lib.entries_by_key.get(key)
    dk = lib._by_name.get(name + "_dispatch_init")
    res = None
    if dk is not None:
        try:
            paths = c12.ladder_paths(lib, lib.func(dk), None)
            res = []
            for (facts, stored, addr) in paths:
                if isinstance(stored, tuple) and stored[1] and stored[1][0] == "addr":
                    ck = lib._by_name.get(stored[1][1])
                    if ck is None:
                        res = None
                        break
                    if ck not in res:
                        res.append(ck)
        except c12.Unmodelled:
            res = None
    _CANDS[key] = res
    return res


def writable(resolved):
    if resolved is None:
        return False
    o, sec, off, name, sx = resolved
    return sx is not None and "W" in sx.get("flags", "")


def worker(lib, objname, extra):
    o = lib.by_name[objname]
    out = {"findings": [], "broken": [], "static_stores": [], "static_store_count": 0, "stores": 0, "materialised": 0, "loads_from_writable": 0,
           "slot_checks": [], "passed_to_callee": 0, "unknown_addr_stores": 0}

    def add(rule, fn, construct, msg, addr, sec):
        out["findings"].append({"rule": rule, "obj": objname, "function": fn, "construct": construct, "message": msg, "loc": o.line_of(sec, addr) or ("%s+%#x" % (objname, addr))})
    for key, name in lib.entry_list:
        if key[0] != objname:
            continue
        f = lib.func(key)
        r = c19.analyse(lib, key)
        nonstack_stores = []
        for b in f.blocks.values():
            for i in b:
                is_store = i.writes_mem_operand()
                av = r.maddr.get(i.addr)
                # direct relocation on the instruction (rip-relative / absolute static access)
                targets = []
                if i.rel and i.mem >= 0 and not (i.is_call() or (i.is_branch() and not i.is_indirect())):
                    for k in range(len(i.rel)):
                        (off, sym, add_, rtype, ssec) = i.rel[k]
                        if rtype in x86.GOTREL:
                            continue
                        tsec, taddr, tname = i.rel_target(o, k)
                        res = o.resolve_symaddr(o.sections[tsec]["name"], taddr, lib) if tsec >= 0 else o.resolve_symaddr(sym, taddr, lib)
                        targets.append(res)
                elif av is not None:
                    v = av[0]
                    if v[0] == "addr":
                        targets.append(o.resolve_symaddr(v[1], v[2], lib))
                    else:
                        rs = absint.roots(v)
                        if rs:
                            for t in rs:
                                if isinstance(t, tuple) and t[0] == "sym":
                                    targets.append(o.resolve_symaddr(t[1], 0, lib))
                if is_store:
                    out["stores"] += 1
                    if av is not None and av[0][0] not in ("sp", "fr"):
                        nonstack_stores.append(i)
                    if av is not None and av[0] is absint.TOP:
                        out["unknown_addr_stores"] += 1
                for res in targets:
                    if not writable(res):
                        continue
                    ro, rsec, roff, rname, rsx = res
                    if is_store:
                        out["static_store_count"] += 1
                        base = (rname or "?").split("+")[0]
                        allowed = (name.endswith("_dispatch_init") and base == name[:-len("_dispatch_init")] + "_dispatched") or \
                                  (name in STATUS_FUNCS and base == "self_test_status")
                        out["static_stores"].append({"function": name, "symbol": rname, "insn": i.text.strip(), "allowed": bool(allowed)})
                        if not allowed:
                            add("R18.1", name, "write:" + base, "`%s` writes static storage %s (%s of %s)" % (i.text.strip(), rname, rsx["name"], ro.name), i.addr, key[1])
                    elif i.op.startswith("LEA"):
                        out["materialised"] += 1
                    elif "L" in i.fl:
                        out["loads_from_writable"] += 1
        # escapes of writable-static addresses into memory
        for (i, sv) in r.escapes:
            for t in absint.roots(sv) or ():
                if isinstance(t, tuple) and t[0] == "sym":
                    res = o.resolve_symaddr(t[1], 0, lib)
                    if writable(res):
                        add("R18.1", name, "escape:" + str(res[3]), "the address of writable static %s is stored to memory by `%s`" % (res[3], i.text.strip()), i.addr, key[1])
        # writable-static addresses handed to callees that store through that argument
        for (i, tgt, args) in r.callargs:
            regs_w = None
            for reg, v in args.items():
                rs = absint.roots(v)
                if not rs:
                    continue
                for t in rs:
                    if isinstance(t, tuple) and t[0] == "sym":
                        res = o.resolve_symaddr(t[1], 0, lib)
                        if writable(res):
                            if regs_w is None:
                                regs_w = callee_store_regs(lib, tgt)
                            out["passed_to_callee"] += 1
                            if reg in regs_w:
                                add("R18.1", name, "callee-write:" + str(res[3]), "the address of writable static %s is passed in %s to %s, which stores through that argument" % (res[3], reg.lower(), tgt[1] if tgt and tgt[0] == "ext" else lib.entries_by_key.get(tgt[1]) if tgt else "?"), i.addr, key[1])
        # R18.3
        if name.endswith("_dispatch_init"):
            iface = name[:-len("_dispatch_init")]
            ok_store = len(nonstack_stores) == 1 and nonstack_stores[0].op == "MOV64mr"
            slot = o.resolve_symaddr(iface + "_dispatched", 0, lib)
            al = None
            okal = False
            if slot:
                so, ssec, soff, sname, ssx = slot
                al = (ssx["align"], soff)
                okal = ssx["align"] >= 8 and soff % 8 == 0
            stub = lib.func_named(iface)
            ok_load = False
            if stub is not None:
                loads = [j for b in stub.blocks.values() for j in b if j.is_indirect()]
                ok_load = len(loads) == 1 and loads[0].op == "JMP64m"
            out["slot_checks"].append({"interface": iface, "single_qword_store": ok_store, "stub_single_qword_load": ok_load, "section_align": al[0] if al else None, "offset": al[1] if al else None, "aligned": okal})
            if not ok_store:
                add("R18.3", name, "store-shape", "dispatcher performs %d non-stack stores (%s); exactly one 8-byte mov to the slot is required" % (len(nonstack_stores), [j.text.strip() for j in nonstack_stores][:3]), f.entry, key[1])
            if not ok_load:
                add("R18.3", name, "stub-load", "the stub of %s does not read its slot with a single 8-byte indirect jmp" % iface, f.entry, key[1])
            if not okal:
                add("R18.3", name, "slot-alignment", "%s_dispatched is not guaranteed 8-byte aligned (section alignment %s, offset %s): the binding store is not single-copy atomic in every link" % (iface, al[0] if al else "?", al[1] if al else "?"), f.entry, key[1])
    # R18.2 inventory of writable symbols of this object
    inv = collections.Counter()
    for sm in o.symbols:
        if sm.kind == "DEF" and sm.sec in o.sections and "W" in o.sections[sm.sec]["flags"] and sm.type != "O":
            inv[o.sections[sm.sec]["name"]] += 1
        elif sm.kind == "COM":
            inv["COMMON"] += 1
    out["writable_symbols"] = dict(inv)
    return out


def ir_statics(chk, units):
    mods = ir.load_modules([u for u in units if u["kind"] == "c"])
    n = 0
    for src, M in sorted(mods.items()):
        wglob = {g["name"]: g for g in M.raw.get("globals", []) if not g.get("constant") and not g.get("decl") or (g.get("decl") and not g.get("constant"))}
        for F in M.defined():
            for I in F.all_insts():
                ptrs = []
                if I.op == "store":
                    ptrs = [I.ops[1]]
                elif I.op in ("atomicrmw", "cmpxchg"):
                    ptrs = [I.ops[0]]
                elif I.op == "call" and (I.callee or "").startswith(("llvm.memcpy", "llvm.memset", "llvm.memmove", "memcpy", "memset", "memmove")):
                    ptrs = [I.ops[0]]
                for p in ptrs:
                    n += 1
                    root, off = F.ptr_root(p)
                    if isinstance(root, dict) and root.get("k") == "g" and root["name"] in wglob:
                        chk.finding(Finding("R18.4", src, F.name, "write:" + root["name"], "C code writes the non-constant global %s" % root["name"], loc=I.loc()))
    return n, len(mods)


def run(chk):
    units, stats = build.build("default")
    lib = x86.Library(units)
    chk.extra["build"] = stats
    chk.trusted += ["LLVM 14 MC mayStore/mayLoad flags and operand tables", "ELF section flags and alignment as emitted by nasm/gcc", "x86 single-copy atomicity of naturally aligned 8-byte stores and loads"]
    chk.assumptions += ["stores whose address is unknown (derived from loaded pointers) target caller objects, not library statics: no library code loads a pointer to a static from memory (addresses of writable statics never escape to memory, checked)",
                        "result independence of concurrent operations on distinct objects follows from the absence of shared writable state; data races on caller objects are the caller's contract"]
    res = par.map_objects(lib, worker, [o.name for o in lib.objs])
    tot = collections.Counter()
    inv = collections.Counter()
    slots = []
    allowed = []
    for objname in sorted(res):
        r = res[objname]
        for k in ("stores", "static_store_count", "materialised", "loads_from_writable", "passed_to_callee", "unknown_addr_stores"):
            tot[k] += r[k]
        for b in r["broken"]:
            chk.broke(b)
        for fd in r["findings"]:
            chk.finding(Finding(fd["rule"], fd["obj"], fd["function"], fd["construct"], fd["message"], loc=fd["loc"]))
        for k, v in r["writable_symbols"].items():
            inv[k] += v
        slots += r["slot_checks"]
        allowed += [s for s in r["static_stores"] if s["allowed"]]
    nbad = collections.Counter(f.rule for f in chk.findings)
    chk.obligations["R18.1"] = [tot["stores"], tot["stores"] - len([f for f in chk.findings if f.rule == "R18.1"])]
    chk.obligations["R18.3"] = [len(slots) * 3, len(slots) * 3 - len([f for f in chk.findings if f.rule == "R18.3"])]
    n_ir, n_mods = ir_statics(chk, units)
    chk.obligations["R18.4"] = [n_ir, n_ir - len([f for f in chk.findings if f.rule == "R18.4"])]
    for s in slots:
        chk.distinct.add(("slot", s["interface"]))
    for s in allowed:
        chk.distinct.add(("store", s["function"], s["symbol"]))
    chk.samples += [dict(rule="R18.3", **s) for s in slots[:3]] + [dict(rule="R18.1", **s) for s in allowed[:3]]
    chk.floor("dispatch slots checked", len(slots), 64)
    chk.floor("allowed static stores found (64 slots + 2 status writers)", len(allowed), 66)
    chk.floor("store instructions classified", tot["stores"], 20000)
    chk.extra["store_instructions"] = tot["stores"]
    chk.extra["stores_to_writable_statics"] = tot["static_store_count"]
    chk.extra["allowed_static_stores"] = len(allowed)
    chk.extra["writable_static_addresses_materialised_by_lea"] = tot["materialised"]
    chk.extra["loads_from_writable_sections"] = tot["loads_from_writable"]
    chk.extra["writable_static_addresses_passed_to_callees"] = tot["passed_to_callee"]
    chk.extra["stores_with_unknown_address"] = tot["unknown_addr_stores"]
    chk.extra["R18.2_writable_symbol_inventory"] = dict(inv)
    chk.extra["ir_writes_checked"] = n_ir
    return ("Effect classification of %d store instructions in 230 objects: %d target writable static storage, all of them the %d allowed ones "
            "(dispatch slots from their own dispatcher, self_test_status from its two owners); %d addresses of writable statics materialised and followed; "
            "%d dispatch slots checked for store/load shape and natural alignment; %d IR writes in %d C units checked against non-constant globals." % (
                tot["stores"], tot["static_store_count"], len(allowed), tot["materialised"], len(slots), n_ir, n_mods))
