"""C12 - dispatch binds only to code the CPU/OS can execute, one family per shared object.

Engine: path-sensitive symbolic interpretation of the (loop-free) X_dispatch_init ladders over lifted
object code; ISA classification of every instruction reachable from each candidate by re-assembling its
text with GNU as under -march=generic64+<what the path established>.

R12.1 ISA safety: for every ladder path (facts -> candidate), every instruction reachable from the candidate
      assembles under generic64 + floor(interface) + granted(facts) + ambient (features no dispatcher tests).
R12.2 write-once binding: X_dispatched is stored only by X_dispatch_init, X_dispatch_init is called only from
      X_mbinit, X_mbinit is referenced only by the slot's initial value; the stored value derives from cpuid /
      xgetbv results and link-time constants only.
R12.3 one family per shared object: entry points of one group take structurally identical decisions and pick
      candidates with the same family tag on every path.
"""
import collections
import hashlib
import json
import os
import re
import subprocess

import build
import x86
from report import Finding

LEVEL = "proof"
RULE_TEXT = __doc__.split("\n\n", 2)[2].replace("\n      ", " ")

M32 = 0xFFFFFFFF
CC_E, CC_NE = 4, 5

S1A = ("cpuid", 1, 0, "EAX")
S1C = ("cpuid", 1, 0, "ECX")
S7B = ("cpuid", 7, 0, "EBX")
S7C = ("cpuid", 7, 0, "ECX")
XCR = ("xcr0", "EAX")

# CPUID bit -> gas extension name
BITS_1C = {19: "sse4.1", 20: "sse4.2"}
BITS_7B = {16: "avx512f", 17: "avx512dq", 28: "avx512cd", 30: "avx512bw", 31: "avx512vl"}
BITS_7C = {6: "avx512_vbmi2", 8: "gfni", 9: "vaes", 10: "vpclmulqdq", 11: "avx512_vnni", 12: "avx512_bitalg", 14: "avx512_vpopcntdq"}
# features used by the library that no dispatcher tests (platform preconditions / assumed companions);
# printed per candidate in the evidence, never a violation by themselves (DESIGN C12).
AMBIENT = ["aes", "pclmul", "bmi", "bmi2", "movbe", "popcnt", "lzcnt", "adx", "ibt", "cmov", "fxsr", "mmx", "sse", "sse2", "xsave", "rdrnd", "fsgsbase", "sse3", "nop"]
AMBIENT_REPORT = ["aes", "pclmul", "bmi", "bmi2", "movbe", "popcnt", "lzcnt", "adx"]
FLOOR_LADDER = [[], ["ssse3"], ["sse4.1"], ["sse4.2"]]


class Unmodelled(Exception):
    pass


class Facts(object):
    __slots__ = ("set", "clear", "notall", "nz", "neq", "eq")

    def __init__(self):
        self.set = {}
        self.clear = {}
        self.notall = []
        self.nz = []
        self.neq = []
        self.eq = []

    def copy(self):
        f = Facts()
        f.set = dict(self.set)
        f.clear = dict(self.clear)
        f.notall = list(self.notall)
        f.nz = list(self.nz)
        f.neq = list(self.neq)
        f.eq = list(self.eq)
        return f

    def feasible(self):
        for s in set(self.set) | set(self.clear):
            if self.set.get(s, 0) & self.clear.get(s, 0):
                return False
        for (s, m) in self.notall:
            if self.set.get(s, 0) & m == m:
                return False
        for (s, m) in self.nz:
            if self.clear.get(s, 0) & m == m:
                return False
        for (s, m, c) in self.eq:
            for (s2, m2, c2) in self.neq:
                if s == s2 and m == m2 and c == c2:
                    return False
        return True

    def key(self):
        return (tuple(sorted(self.set.items())), tuple(sorted(self.clear.items())), tuple(sorted(self.notall)), tuple(sorted(self.nz)), tuple(sorted(self.neq)), tuple(sorted(self.eq)))

    def describe(self):
        out = []
        for s, m in sorted(self.set.items()):
            out.append("%s has %#x" % (src_name(s), m))
        for s, m in sorted(self.clear.items()):
            out.append("%s lacks %#x" % (src_name(s), m))
        for s, m in self.notall:
            out.append("%s lacks part of %#x" % (src_name(s), m))
        for s, m in self.nz:
            out.append("%s has some of %#x" % (src_name(s), m))
        for s, m, c in self.eq:
            out.append("%s&%#x == %#x" % (src_name(s), m, c))
        for s, m, c in self.neq:
            out.append("%s&%#x != %#x" % (src_name(s), m, c))
        return out

    def shape(self):
        """Candidate-independent structure for sibling comparison."""
        return self.key()


def src_name(s):
    if s[0] == "cpuid":
        return "cpuid(%d,%d).%s" % (s[1], s[2], s[3].lower())
    return "xcr0"


def zf_known(facts, fl):
    """fl = ('test', S, m) | ('cmp', S, m, c).  Returns True/False if ZF is determined by facts, else None."""
    if fl[0] == "test":
        _, s, m = fl
        if facts.clear.get(s, 0) & m == m:
            return True
        if facts.set.get(s, 0) & m:
            return False
        for (s2, m2) in facts.nz:
            if s2 == s and m2 & ~m == 0:
                return False
        return None
    if fl[0] == "cmp":
        _, s, m, c = fl
        known = facts.set.get(s, 0) | facts.clear.get(s, 0)
        if known & m == m:
            return (facts.set.get(s, 0) & m) == c
        if (facts.set.get(s, 0) & m) & ~c:
            return False
        if (facts.clear.get(s, 0) & m) & c:
            return False
        for (s2, m2, c2) in facts.eq:
            if (s2, m2) == (s, m):
                return c2 == c
        for (s2, m2, c2) in facts.neq:
            if (s2, m2, c2) == (s, m, c):
                return False
        if c == m:
            for (s2, m2) in facts.notall:
                if s2 == s and m2 & ~m == 0:
                    return False
        return None
    if fl[0] == "const":
        return fl[1]
    return None


def assume(facts, fl, zf):
    f = facts.copy()
    if fl[0] == "test":
        _, s, m = fl
        if zf:
            f.clear[s] = f.clear.get(s, 0) | m
        elif bin(m).count("1") == 1:
            f.set[s] = f.set.get(s, 0) | m
        else:
            f.nz.append((s, m))
    elif fl[0] == "cmp":
        _, s, m, c = fl
        if zf:
            if c & ~m:
                return None
            if c & m:
                f.set[s] = f.set.get(s, 0) | (c & m)
            if m & ~c:
                f.clear[s] = f.clear.get(s, 0) | (m & ~c)
            if bin(m).count("1") > 8:
                f.eq.append((s, m, c))
                # do not expand model-id style compares into bit facts
                for d, od in ((f.set, facts.set), (f.clear, facts.clear)):
                    if s in od:
                        d[s] = od[s]
                    else:
                        d.pop(s, None)
        else:
            if c == m and bin(m).count("1") <= 8:
                if bin(m).count("1") == 1:
                    f.clear[s] = f.clear.get(s, 0) | m
                else:
                    f.notall.append((s, m))
            else:
                f.neq.append((s, m, c))
    return f if f.feasible() else None


def ladder_paths(lib, f, slot_syms):
    """Enumerate feasible paths of dispatch_init function f.  Returns list of (Facts, candidate_sym, loads)."""
    o = f.obj
    results = []
    regs0 = {}
    stack0 = ()
    start = (f.entry, 0, regs0, stack0, ("unk",), Facts(), None)
    work = [start]
    npaths = 0
    while work:
        (blk, idx, regs, stack, flags, facts, stored) = work.pop()
        regs = dict(regs)
        stack = list(stack)
        ins_list = f.blocks[blk]
        ended = False
        k = idx
        while k < len(ins_list):
            i = ins_list[k]
            k += 1
            op = i.op
            if op.startswith(("ENDBR", "NOOP")):
                continue
            if op == "PUSH64r":
                stack.append(regs.get(x86.PARENT[i.reg(0)], ("entry", i.reg(0))))
                continue
            if op == "POP64r":
                if not stack:
                    raise Unmodelled("pop on empty symbolic stack at %#x" % i.addr)
                regs[x86.PARENT[i.reg(0)]] = stack.pop()
                continue
            if op == "LEA64r":
                m = i.memop()
                if m and m[0] == "RIP" and i.rel:
                    tsec, taddr, tname = i.rel_target(o)
                    regs[x86.PARENT[i.reg(0)]] = ("addr", tname or "%s+%#x" % (o.sections[tsec]["name"] if tsec >= 0 else "?", taddr))
                    continue
                raise Unmodelled("lea form at %#x: %s" % (i.addr, i.text))
            if op in ("MOV32ri", "MOV64ri32"):
                regs[x86.PARENT[i.reg(0)]] = ("const", i.imm(1) & M32)
                continue
            if op in ("MOV32rr", "MOV64rr"):
                regs[x86.PARENT[i.reg(0)]] = regs.get(x86.PARENT[i.reg(1)], ("entry", i.reg(1)))
                continue
            if op in ("XOR32rr", "XOR64rr") and i.reg(1) == i.reg(2):
                regs[x86.PARENT[i.reg(0)]] = ("const", 0)
                flags = ("const", True)
                continue
            if op == "CPUID":
                a = regs.get("RAX")
                c = regs.get("RCX")
                if not a or a[0] != "const":
                    raise Unmodelled("cpuid with non-constant leaf at %#x" % i.addr)
                leaf = a[1]
                sub = 0
                if leaf == 7:
                    if not c or c[0] != "const":
                        raise Unmodelled("cpuid leaf 7 with non-constant sub-leaf (ecx) at %#x" % i.addr)
                    sub = c[1]
                elif leaf not in (0, 1):
                    raise Unmodelled("cpuid leaf %#x not modelled at %#x" % (leaf, i.addr))
                for r in ("EAX", "EBX", "ECX", "EDX"):
                    regs[x86.PARENT[r]] = ("src", ("cpuid", leaf, sub, r))
                continue
            if op == "XGETBV":
                c = regs.get("RCX")
                if not c or c != ("const", 0):
                    raise Unmodelled("xgetbv with ecx != 0 at %#x" % i.addr)
                # only legal when OSXSAVE was established
                if not facts.set.get(S1C, 0) & (1 << 27):
                    results.append((facts, "<xgetbv-without-osxsave>", i.addr))
                regs["RAX"] = ("src", XCR)
                regs["RDX"] = ("src", ("xcr0", "EDX"))
                continue
            if op in ("AND32ri", "AND32ri8", "AND64ri8", "AND64ri32", "AND32i32", "AND64i32"):
                short = op in ("AND32i32", "AND64i32")           # accumulator form: and eax, imm32
                r = "RAX" if short else x86.PARENT[i.reg(0)]
                v = regs.get(r)
                m = (i.imm(0) if short else i.imm(2)) & M32
                if v and v[0] == "src":
                    nv = ("and", v[1], m)
                elif v and v[0] == "and":
                    nv = ("and", v[1], v[2] & m)
                elif v and v[0] == "const":
                    nv = ("const", v[1] & m)
                else:
                    raise Unmodelled("and of non-symbolic value at %#x" % i.addr)
                regs[r] = nv
                flags = ("unk",)
                continue
            if op in ("TEST32ri", "TEST32i32", "TEST64ri32", "TEST8ri", "TEST8i8"):
                r = x86.PARENT["EAX" if op in ("TEST32i32", "TEST8i8") else i.reg(0)]
                m = (i.imm(0) if op in ("TEST32i32", "TEST8i8") else i.imm(1)) & M32
                v = regs.get(r)
                if v and v[0] == "src":
                    flags = ("test", v[1], m)
                elif v and v[0] == "and":
                    flags = ("test", v[1], v[2] & m)
                else:
                    raise Unmodelled("test of non-symbolic value at %#x: %s" % (i.addr, i.text))
                continue
            if op in ("CMP32ri", "CMP32ri8", "CMP32i32", "CMP64ri8", "CMP64ri32"):
                r = x86.PARENT["EAX" if op == "CMP32i32" else i.reg(0)]
                c = (i.imm(0) if op == "CMP32i32" else i.imm(1)) & M32
                v = regs.get(r)
                if v and v[0] == "src":
                    flags = ("cmp", v[1], M32, c)
                elif v and v[0] == "and":
                    flags = ("cmp", v[1], v[2], c)
                else:
                    raise Unmodelled("cmp of non-symbolic value at %#x: %s" % (i.addr, i.text))
                continue
            if op.startswith("CMOV64rr") or op.startswith("CMOV32rr"):
                cc = i.imm(len(i.ops) - 1)
                if cc not in (CC_E, CC_NE):
                    raise Unmodelled("cmov condition %d at %#x" % (cc, i.addr))
                dst = x86.PARENT[i.reg(0)]
                src = x86.PARENT[i.reg(2)]
                zk = zf_known(facts, flags)
                outcomes = [zk] if zk is not None else [True, False]
                if flags[0] == "unk":
                    raise Unmodelled("cmov on unknown flags at %#x" % i.addr)
                first = True
                for zf in outcomes:
                    nf = facts if zk is not None else assume(facts, flags, zf)
                    if nf is None:
                        continue
                    nregs = dict(regs)
                    take = (zf and cc == CC_E) or ((not zf) and cc == CC_NE)
                    if take:
                        nregs[dst] = regs.get(src, ("entry", src))
                    work.append((blk, k, nregs, tuple(stack), flags, nf, stored))
                ended = True
                break
            if op in ("SUB64ri8", "SUB64ri32", "ADD64ri8", "ADD64ri32") and i.reg(0) == "RSP":
                n = i.imm(2)
                if n is None or n % 8 or n < 0:
                    raise Unmodelled("stack adjustment by %r at %#x" % (n, i.addr))
                if op.startswith("SUB"):
                    stack += [("uninit",)] * (n // 8)
                else:
                    if n // 8 > len(stack):
                        raise Unmodelled("stack released below the entry level at %#x" % i.addr)
                    del stack[len(stack) - n // 8:]
                flags = ("unk",)
                continue
            if op in ("MOV64mr", "MOV64rm") and i.memop() and i.memop()[0] == "RSP" and not i.memop()[2]:
                off = i.memop()[3] or 0
                if off % 8 or off < 0 or off // 8 >= len(stack):
                    raise Unmodelled("stack slot [rsp%+d] outside the dispatcher's own frame at %#x" % (off, i.addr))
                slot = len(stack) - 1 - off // 8
                if op == "MOV64mr":
                    stack[slot] = regs.get(x86.PARENT[i.reg(5)], ("entry", i.reg(5)))
                else:
                    if stack[slot] == ("uninit",):
                        raise Unmodelled("read of an unwritten stack slot at %#x" % i.addr)
                    regs[x86.PARENT[i.reg(0)]] = stack[slot]
                continue
            if op in ("MOV64mr",):
                m = i.memop()
                if m and m[0] == "RIP" and i.rel:
                    v = regs.get(x86.PARENT[i.reg(5)])
                    tsec, taddr, tname = i.rel_target(o)
                    stored = (tname, v, i.addr) if stored is None else ("<second-store>", v, i.addr)
                    continue
                raise Unmodelled("store form at %#x: %s" % (i.addr, i.text))
            if i.is_ret():
                results.append((facts, stored, i.addr))
                npaths += 1
                ended = True
                break
            if i.is_branch():
                if i.is_indirect():
                    raise Unmodelled("indirect branch in dispatcher at %#x" % i.addr)
                t = i.branch_target()
                if t is None:
                    raise Unmodelled("branch with relocation in dispatcher at %#x" % i.addr)
                if not i.is_cond():
                    work.append((t, 0, regs, tuple(stack), flags, facts, stored))
                    ended = True
                    break
                cc = i.imm(1)
                if cc not in (CC_E, CC_NE):
                    raise Unmodelled("jcc condition %d at %#x" % (cc, i.addr))
                if flags[0] == "unk":
                    raise Unmodelled("jcc on unknown flags at %#x" % i.addr)
                zk = zf_known(facts, flags)
                outcomes = [zk] if zk is not None else [True, False]
                for zf in outcomes:
                    nf = facts if zk is not None else assume(facts, flags, zf)
                    if nf is None:
                        continue
                    take = (zf and cc == CC_E) or ((not zf) and cc == CC_NE)
                    nb = t if take else i.next
                    work.append((nb, 0, regs, tuple(stack), flags, nf, stored))
                ended = True
                break
            if i.is_call():
                raise Unmodelled("call in dispatcher at %#x" % i.addr)
            raise Unmodelled("instruction not modelled in dispatcher at %#x: %s (%s)" % (i.addr, i.text.strip(), op))
        if not ended:
            # fell off the end of the block: continue with successor
            succ = f.succ.get(blk, [])
            if len(succ) != 1:
                raise Unmodelled("block at %#x ends without terminator" % blk)
            work.append((succ[0], 0, regs, tuple(stack), flags, facts, stored))
        if len(results) + len(work) > 5000:
            raise Unmodelled("path explosion in %s" % f.name)
    return results


def granted(facts):
    """gas extension names established by the facts of a path (CPUID and XCR0)."""
    g = set()
    c1 = facts.set.get(S1C, 0)
    b7 = facts.set.get(S7B, 0)
    c7 = facts.set.get(S7C, 0)
    xc = facts.set.get(XCR, 0)
    for b, n in BITS_1C.items():
        if c1 >> b & 1:
            g.add(n)
    avx = bool(c1 >> 27 & 1) and bool(c1 >> 28 & 1) and (xc & 0x6) == 0x6
    if avx:
        g.add("avx")
        if b7 >> 5 & 1:
            g.add("avx2")
        if (xc & 0xE0) == 0xE0:
            for b, n in BITS_7B.items():
                if b7 >> b & 1:
                    g.add(n)
    for b, n in BITS_7C.items():
        if c7 >> b & 1:
            g.add(n)
    if b7 >> 29 & 1:
        g.add("sha")
    return g


# ---------------------------------------------------------------- reachability and ISA oracle
def ins_text(i):
    """Instruction text for the ISA oracle: LLVM's Intel-syntax rendering (round-trips through GNU as for all
    ~20 000 distinct forms in the library), with direct branch / call targets normalised to '.'."""
    t = i.text.strip()
    if (i.is_branch() or i.is_call()) and not i.is_indirect():
        return t.split()[0] + " ."
    return re.sub(r"\s+", " ", t)


def reach_texts(lib, key, memo):
    """Set of distinct instruction texts reachable from function key through direct calls / tail calls
    (stopping at dispatch stubs and externals).  Also returns number of instructions and functions."""
    seen = set()
    texts = set()
    nins = 0
    work = [key]
    loc = {}
    while work:
        k = work.pop()
        if k in seen:
            continue
        seen.add(k)
        if k in memo:
            t, n, l = memo[k]
        else:
            f = lib.func(k)
            if f is None:
                continue
            t = set()
            n = 0
            l = {}
            callees = []
            stub = False
            for b, ins in f.blocks.items():
                for i in ins:
                    n += 1
                    tx = ins_text(i)
                    t.add(tx)
                    l.setdefault(tx, (k, i.addr))
                    if i.is_call() or (i.is_branch() and not i.is_cond()):
                        if i.is_indirect():
                            continue
                        tgt = lib.resolve_reloc_target(f.obj, i) if i.rel else None
                        if tgt is None and i.is_call():
                            bt = i.branch_target()
                            if bt is not None:
                                tgt = ("func", (f.obj.name, f.sec, bt))
                        if tgt is None and i.is_branch():
                            bt = i.branch_target()
                            ents = lib.entry_addrs.get((f.obj.name, f.sec), set())
                            if bt is not None and bt in ents and bt != f.entry:
                                tgt = ("func", (f.obj.name, f.sec, bt))
                        if tgt and tgt[0] == "func":
                            callees.append(tgt[1])
            for a, nxt in getattr(f, "fallthrough", {}).items():
                callees.append((f.obj.name, f.sec, nxt))
            memo[k] = (t, n, l)
            memo[("callees", k)] = callees
        texts |= t
        nins += n
        for tx, where in l.items():
            loc.setdefault(tx, where)
        for c in memo.get(("callees", k), []):
            # do not look through dispatch stubs: the callee decides for itself
            cf = lib.func(c)
            if cf is not None and is_stub(cf):
                continue
            work.append(c)
    return texts, nins, len(seen), loc


def is_stub(f):
    for b in sorted(f.blocks):
        for i in f.blocks[b]:
            if i.op.startswith(("ENDBR", "NOOP")):
                continue
            return b == f.entry and i.is_branch() and i.is_indirect()
    return False


_GAS = {}
GAS_RUNS = [0]


def gas_rejects(texts, exts):
    """Subset of `texts` that GNU as rejects under -march=generic64+exts (None exts = everything enabled)."""
    tl = sorted(texts)
    key = (hashlib.sha1("\n".join(tl).encode()).hexdigest(), None if exts is None else tuple(sorted(exts)))
    if key in _GAS:
        return _GAS[key]
    src = ".intel_syntax noprefix\n" + "\n".join(tl) + "\n"
    cmd = ["as", "--64"]
    if exts is not None:
        cmd.append("-march=generic64" + "".join("+" + e for e in sorted(exts)))
    cmd += ["-o", "/dev/null", "-"]
    p = subprocess.run(cmd, input=src.encode(), stdout=subprocess.PIPE, stderr=subprocess.PIPE)
    GAS_RUNS[0] += 1
    bad = set()
    for line in p.stderr.decode("utf-8", "replace").splitlines():
        m = re.match(r"^\{standard input\}:(\d+): Error: (.*)$", line)
        if m:
            n = int(m.group(1)) - 2
            if 0 <= n < len(tl):
                bad.add(tl[n])
        elif "Error" in line and "standard input" not in line:
            raise Unmodelled("gas: " + line)
    _GAS[key] = bad
    return bad


# ---------------------------------------------------------------- families
GROUP_RULES = [
    (re.compile(r"^_(sha1|sha256|sha512|md5|sm3)_ctx_mgr_(init|submit|flush)$"), lambda m: "hash:" + m.group(1)),
    (re.compile(r"^_aes_gcm_(?:precomp|init|enc|dec)_(128|256)(?:_update|_finalize)?(?:_nt)?$"), lambda m: "gcm:" + m.group(1)),
    (re.compile(r"^_aes_gcm_(?:enc|dec)_(128|256)_update_nt$"), lambda m: "gcm:" + m.group(1)),
    (re.compile(r"^_(mh_sha1|mh_sha256|mh_sha1_murmur3_x64_128)_(update|finalize)$"), lambda m: "mh:" + m.group(1)),
    (re.compile(r"^_XTS_AES_(128|256)_(enc|dec)(_expanded_key)?$"), lambda m: "xts:" + m.group(1)),
    (re.compile(r"^_aes_cbc_(enc|dec)_(128|192|256)$"), lambda m: "cbc-" + m.group(1)),
    (re.compile(r"^_aes_keyexp_(128|192|256)(_enc)?$"), lambda m: "keyexp"),
]


def group_of(iface):
    for rx, fn in GROUP_RULES:
        m = rx.match(iface)
        if m:
            return fn(m)
    return None


def family_tag(iface, cand):
    """Candidate symbol with the interface stem removed; `_nt` belongs to the stem."""
    stem = iface
    nt = stem.endswith("_nt")
    if nt:
        stem = stem[:-3]
    c = cand
    if nt and c.endswith("_nt"):
        c = c[:-3]
    if c.startswith(stem):
        return c[len(stem):].lstrip("_") or "base"
    # XTS: _XTS_AES_128_enc_sse ; keyexp: _aes_keyexp_128_sse ; cbc: _aes_cbc_dec_128_sse / _aes_cbc_enc_128_x4
    return c.rsplit("_", 1)[-1]


def run(chk):
    units, stats = build.build("default")
    lib = x86.Library(units)
    chk.extra["build"] = stats
    chk.trusted += ["binutils 2.40 opcode table: which CPUID feature an encoding needs (GNU as -march=generic64+ext)",
                    "LLVM 14 MC decoding of the dispatcher ladders", "LLVM Intel-syntax instruction text round-trips through GNU as (checked on every run: a text rejected with every extension on is analysis-broken)"]
    chk.assumptions += ["'architecturally consistent CPUID' = binutils' extension dependency closure",
                        "AVX needs OSXSAVE, the AVX bit and XCR0[2:1]; AVX-512 additionally XCR0[7:5]; group-2 bits grant their own extension only",
                        "features no dispatcher tests (aes, pclmul, bmi, bmi2, movbe, popcnt, lzcnt, adx) are platform preconditions: listed per candidate, never a violation",
                        "family tags are symbol-name based, as the dispatch macros themselves are"]
    disp = []
    for key, name in lib.entry_list:
        if name.endswith("_dispatch_init"):
            disp.append((key, name))
    chk.floor("dispatchers (X_dispatch_init)", len(disp), 64)

    decisions = {}
    memo = {}
    with open(os.path.join(build.VERIF, "tables", "isa_floor.json")) as fh:
        floor_table = json.load(fh)
    cand_cache = {}
    ambient_used = collections.defaultdict(set)
    all_paths = 0

    for key, name in disp:
        iface = name[:-len("_dispatch_init")]
        f = lib.func(key)
        try:
            paths = ladder_paths(lib, f, None)
        except Unmodelled as e:
            chk.broke("%s: %s" % (name, e))
            continue
        dl = []
        for (facts, stored, addr) in paths:
            if stored == "<xgetbv-without-osxsave>":
                chk.finding(Finding("R12.1", f.obj.name, name, "xgetbv-without-osxsave", "xgetbv is executed on a path that has not established OSXSAVE (%s)" % "; ".join(facts.describe()), loc=f.obj.line_of(f.sec, addr)))
                continue
            if stored is None:
                chk.finding(Finding("R12.2", f.obj.name, name, "no-binding-store", "a path returns without storing the binding", loc=f.obj.line_of(f.sec, addr)))
                continue
            slot, val, saddr = stored
            ok_slot = slot == iface + "_dispatched"
            ok_val = val is not None and val[0] == "addr"
            chk.obligation("R12.2-store", ok_slot and ok_val, key=(name, facts.key()))
            if not ok_slot:
                chk.finding(Finding("R12.2", f.obj.name, name, "store:" + str(slot), "dispatcher stores to %s instead of (only) its own slot" % slot, loc=f.obj.line_of(f.sec, saddr)))
                continue
            if not ok_val:
                chk.finding(Finding("R12.2", f.obj.name, name, "stored-value", "the stored binding is not a link-time address selected by cpuid/xgetbv facts: %r" % (val,), loc=f.obj.line_of(f.sec, saddr)))
                continue
            dl.append((facts, val[1]))
        decisions[iface] = (key, f, dl)
        all_paths += len(dl)

    # ---- R12.1
    n_dec = 0
    for iface, (key, f, dl) in sorted(decisions.items()):
        # floor: candidate on the fact-free path (first path whose facts grant nothing)
        nofact = [c for (fa, c) in dl if not granted(fa)]
        floor = []
        floor_cand = nofact[0] if nofact else None
        if floor_cand:
            ck = lib._by_name.get(floor_cand)
            if ck is None:
                chk.broke("%s: floor candidate %s is not a function of the library" % (iface, floor_cand))
                continue
            texts, nins, nfun, loc = reach_texts(lib, ck, memo)
            chosen = None
            for lvl in FLOOR_LADDER:
                if not gas_rejects(texts, set(AMBIENT) | set(lvl)):
                    chosen = lvl
                    break
            if chosen is None:
                chosen = ["<more than sse4.2>"]
            floor = chosen
            want = floor_table.get(group_of(iface) or iface, floor_table.get("default"))
            okf = FLOOR_LADDER.index(chosen) <= FLOOR_LADDER.index(want) if chosen in FLOOR_LADDER and want in FLOOR_LADDER else False
            chk.obligation("R12.1-floor", okf, key=iface, sample={"interface": iface, "floor_candidate": floor_cand, "needs": chosen, "pinned": want})
            if not okf:
                bad = sorted(gas_rejects(texts, set(AMBIENT) | set(want)))[:3]
                chk.finding(Finding("R12.1", f.obj.name, iface + "_dispatch_init", "floor:" + floor_cand,
                                    "the implementation bound when no feature bit is set (%s) needs %s, more than the pinned platform floor %s; e.g. `%s`" % (floor_cand, chosen, want, "`, `".join(bad)), loc=f.obj.line_of(f.sec, f.entry)))
        for (facts, cand) in dl:
            n_dec += 1
            ck = lib._by_name.get(cand)
            if ck is None:
                chk.obligation("R12.1", False, key=(iface, cand))
                chk.finding(Finding("R12.1", f.obj.name, iface + "_dispatch_init", "candidate:" + cand, "candidate %s is not a function defined in the library" % cand, loc=f.obj.line_of(f.sec, f.entry)))
                continue
            texts, nins, nfun, loc = reach_texts(lib, ck, memo)
            g = granted(facts)
            allowed = set(AMBIENT) | set(floor if floor and floor[0][0] != "<" else []) | g
            bad = gas_rejects(texts, allowed)
            if bad:
                # must assemble with everything on, otherwise the oracle itself is broken
                really = gas_rejects(bad, None)
                if really:
                    chk.broke("GNU as rejects %r even with every extension enabled (candidate %s)" % (sorted(really)[:3], cand))
                    bad = bad - really
            chk.obligation("R12.1", not bad, key=(iface, cand, facts.key()), sample={"interface": iface, "facts": facts.describe(), "granted": sorted(g), "candidate": cand, "reachable_instructions": nins, "distinct_texts": len(texts), "functions": nfun})
            if bad:
                ex = sorted(bad)[:4]
                w = loc.get(ex[0])
                where = None
                if w:
                    wf = lib.func(w[0])
                    where = wf.obj.line_of(wf.sec, w[1])
                chk.finding(Finding("R12.1", f.obj.name, iface + "_dispatch_init", "path[%s]->%s" % (",".join(sorted(g)) or "none", cand),
                                    "on the path {%s} the dispatcher binds %s, which executes %d instruction form(s) not available under generic64+%s, e.g. `%s`" % (
                                        "; ".join(facts.describe()), cand, len(bad), "+".join(sorted(g | set(floor))) or "nothing", "`, `".join(ex)),
                                    loc=where or f.obj.line_of(f.sec, f.entry), detail={"facts": facts.describe(), "rejected": sorted(bad)[:40]}))
            if cand not in cand_cache:
                amb = set()
                for a in AMBIENT_REPORT:
                    others = {"sse4.2", "avx", "avx2", "avx512f", "avx512dq", "avx512cd", "avx512bw", "avx512vl", "sha"} | set(BITS_7C.values())
                    if gas_rejects(texts, (set(AMBIENT) - {a}) | others):
                        amb.add(a)
                cand_cache[cand] = sorted(amb)
    chk.extra["ambient_features_by_candidate"] = {c: a for c, a in sorted(cand_cache.items()) if a}
    chk.extra["ladder_paths"] = all_paths
    chk.extra["gas_runs"] = GAS_RUNS[0]

    # ---- R12.2 relocation discipline
    slot_writers = collections.defaultdict(list)
    init_callers = collections.defaultdict(list)
    mbinit_refs = collections.defaultdict(list)
    for o in lib.objs:
        for (sec, iaddr, isz, kind, off, sym0, add_, rtype, ssec, opc) in o.erefs:
            sym = o.reloc_target(sym0, add_, rtype, ssec, isz, off)[2] or ""
            if sym.endswith("_dispatched") and kind in ("store", "rmw"):
                slot_writers[sym].append((o.name, sec, iaddr))
            if sym.endswith("_dispatch_init") and kind in ("call", "jmp", "lea"):
                init_callers[sym].append((o.name, sec, iaddr, kind))
            if sym.endswith("_mbinit"):
                mbinit_refs[sym].append((o.name, "code:" + kind))
        for (sec, iaddr, tgt) in o.local_calls:
            sym = o.sym_at(sec, tgt) or ""
            for sm in o.symtab.get((sec, tgt), []):
                if sm.name.endswith("_dispatch_init"):
                    sym = sm.name
            if sym.endswith("_dispatch_init"):
                init_callers[sym].append((o.name, sec, iaddr, "call"))
        for (rsec, off, sym0, add_, rtype, ssec) in o.relocs:
            sym = o.reloc_target(sym0, add_, rtype, ssec)[2] or ""
            if sym.endswith("_mbinit") and rsec not in o.text_secs and "A" in o.sections.get(rsec, {}).get("flags", ""):
                mbinit_refs[sym].append((o.name, "data"))
    for iface, (key, f, dl) in sorted(decisions.items()):
        o = f.obj
        ws = slot_writers.get(iface + "_dispatched", [])
        okw = len(ws) >= 1 and all(lib_func_containing(lib, w) == key for w in ws)
        cs = init_callers.get(iface + "_dispatch_init", [])
        okc = len(cs) == 1 and cs[0][3] == "call" and func_name_containing(lib, cs[0][:3]) == iface + "_mbinit"
        rs = mbinit_refs.get(iface + "_mbinit", [])
        okr = len(rs) == 1 and rs[0][1] == "data"
        # local label references to mbinit do not produce relocations against the symbol when nasm resolves
        # them section-relative; accept "no named reference" only together with a data relocation into .text
        chk.obligation("R12.2", okw and okc and (okr or not rs), key=iface, sample={"interface": iface, "slot_writers": len(ws), "init_callers": len(cs), "mbinit_refs": rs})
        if not okw:
            chk.finding(Finding("R12.2", o.name, iface + "_dispatch_init", "slot-writers", "%s_dispatched is written from %s" % (iface, [func_name_containing(lib, w) for w in ws]), loc=o.line_of(f.sec, f.entry)))
        if not okc:
            chk.finding(Finding("R12.2", o.name, iface + "_dispatch_init", "init-callers", "%s_dispatch_init is referenced from %s" % (iface, [(func_name_containing(lib, c[:3]), c[3]) for c in cs]), loc=o.line_of(f.sec, f.entry)))
        if rs and not okr:
            chk.finding(Finding("R12.2", o.name, iface + "_dispatch_init", "mbinit-refs", "%s_mbinit is referenced from %s" % (iface, rs), loc=o.line_of(f.sec, f.entry)))

    # ---- R12.3 family agreement
    groups = collections.defaultdict(list)
    for iface in decisions:
        g = group_of(iface)
        if g:
            groups[g].append(iface)
    ng = 0
    for g, members in sorted(groups.items()):
        if len(members) < 2:
            continue
        ng += 1
        ref = None
        shapes = {}
        for m in sorted(members):
            dl = decisions[m][2]
            shapes[m] = sorted(((fa.shape(), family_tag(m, c)) for (fa, c) in dl), key=repr)
        cnt = collections.Counter(repr(s) for s in shapes.values())
        major = cnt.most_common(1)[0][0]
        for m in sorted(members):
            ok = repr(shapes[m]) == major
            chk.obligation("R12.3", ok, key=m, sample={"group": g, "interface": m, "families": sorted({t for (_s, t) in shapes[m]})})
            if not ok:
                other = [x for x in members if repr(shapes[x]) == major][0]
                d1 = {s: t for (s, t) in shapes[m]}
                d2 = {s: t for (s, t) in shapes[other]}
                diffs = []
                for s in set(d1) | set(d2):
                    if d1.get(s) != d2.get(s):
                        diffs.append("%s vs %s" % (d1.get(s), d2.get(s)))
                kf, ff, _ = decisions[m]
                chk.finding(Finding("R12.3", ff.obj.name, m + "_dispatch_init", "family-mismatch",
                                    "entry points of group %s must bind one family: %s decides differently from %s on %d path class(es) (%s)" % (g, m, other, len(diffs), "; ".join(sorted(diffs)[:4])),
                                    loc=ff.obj.line_of(ff.sec, ff.entry)))
    chk.extra["family_groups"] = ng
    chk.extra["decisions"] = n_dec
    chk.extra["decision_reference"] = {i: [{"facts": fa.describe(), "granted": sorted(granted(fa)), "candidate": c} for (fa, c) in d[2]] for i, d in sorted(decisions.items())}
    chk.floor("ladder paths", all_paths, 300)
    return ("All %d dispatch ladders enumerated path by path (%d feasible paths, %d decisions); every instruction reachable from every candidate re-assembled with GNU as under the "
            "extensions its path established (%d assembler runs); write-once relocation discipline of %d slots; family agreement in %d groups." % (len(disp), all_paths, n_dec, GAS_RUNS[0], len(decisions), ng))


def lib_func_containing(lib, w):
    """Key of the function whose address range contains instruction (objname, sec, addr): the nearest entry
    at or below addr in that section."""
    objname, sec, addr = w
    ents = sorted(lib.entry_addrs.get((objname, sec), ()))
    best = None
    for e in ents:
        if e <= addr:
            best = e
    return (objname, sec, best) if best is not None else None


def func_name_containing(lib, w):
    k = lib_func_containing(lib, w)
    return lib.entries_by_key.get(k) if k else None
