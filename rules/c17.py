"""C17 - FIPS self-tests run exactly once under any interleaving; nobody passes early.

The property quantifies over schedules.  Static analysis establishes every premise P1-P8 of the lemma in
DESIGN.md section 5 on the FIPS_MODE build; the lemma's conclusion (exactly once, nobody early, same verdict,
no livelock) then holds for the code as it is.  A premise that breaks is reported by name.

P0 initial state: self_test_status is statically initialised to 2 (NOT_DONE).
P1 ownership: self_test_status is a local symbol referenced only by asm_check_self_tests_status and
   asm_set_self_tests_status.
P2 atomic claim: the only write in asm_check is a lock-prefixed cmpxchg with eax = 2 (NOT_DONE), edx = 3 (RUNNING);
   its success edge returns eax = 2 unchanged.
P3 fast path: the early ret is taken only when the loaded status has bit 1 clear and returns that loaded value.
P4 waiters: the code reachable from the failed-cmpxchg edge stores nothing; on every path from that edge to ret (a
   block at most twice) every branch is decided by a compare of the status (in memory, or a register loaded from it)
   with 3, the path leaves through the "not 3" direction of such a compare, and eax at ret is a load of the status
   that is the compared value itself or was made after that exit.
P5 single publisher: asm_set is called from exactly one site, in isal_self_tests, reached only when the check
   returned neither 0 nor 1, after _aes_self_tests and _sha_self_tests in this order.
P6 verdict domain: the published value is a|b of the two suite results and both suites can only return 0 or 1.
P7 result mapping: isal_self_tests returns 0 exactly on (check == 0) or (fresh run and a|b == 0).
P8 no re-entry: no isal_* function is reachable from the self-test suites.
G0-G5 the same premises for the portable C11 sibling implementation (fips/self_tests_generic.c, arch=noarch /
   aarch64 builds): private status initialised to 2, single compare_exchange(2 -> 3), atomic accesses only,
   winner-only suites and publication of a verdict in {0,1}, waiters leave only on status != 3 and decide on a
   fresh load, fast-path returns follow the loaded status.
"""
import build
import ir
import x86
import absint
import c13
from report import Finding

LEVEL = "proof"
RULE_TEXT = __doc__.split("\n\n", 2)[2].replace("\n   ", " ")
STATUS = "self_test_status"
CHECK = "asm_check_self_tests_status"
SETF = "asm_set_self_tests_status"


def value_set(F, v, mods_fn, depth=0, seen=None):
    """Set of integers SSA value v may take (const / phi / or / and / zext / icmp / select / local call closure)
    or None when unbounded."""
    seen = seen or set()
    if depth > 30:
        return None
    I = F.resolve(v)
    c = F.const_int(I) if isinstance(I, dict) else None
    if c is not None:
        return {c}
    if isinstance(I, dict):
        return None
    if I.id in seen:
        return set()
    seen = seen | {I.id}
    if I.op == "phi":
        out = set()
        for inc in I.incoming:
            s = value_set(F, inc["v"], mods_fn, depth + 1, seen)
            if s is None:
                return None
            out |= s
        return out
    if I.op in ("zext", "sext", "trunc", "freeze"):
        return value_set(F, I.ops[0], mods_fn, depth + 1, seen)
    if I.op == "icmp":
        return {0, 1}
    if I.op in ("or", "and", "xor"):
        a = value_set(F, I.ops[0], mods_fn, depth + 1, seen)
        b = value_set(F, I.ops[1], mods_fn, depth + 1, seen)
        if a is None or b is None:
            return None
        f = {"or": lambda x, y: x | y, "and": lambda x, y: x & y, "xor": lambda x, y: x ^ y}[I.op]
        return {f(x, y) for x in a for y in b}
    if I.op == "select":
        a = value_set(F, I.ops[1], mods_fn, depth + 1, seen)
        b = value_set(F, I.ops[2], mods_fn, depth + 1, seen)
        return None if a is None or b is None else a | b
    if I.op == "call":
        G = mods_fn.get(I.callee)
        if G is None or G.decl:
            return None
        return ret_set(G, mods_fn, depth + 1)
    return None


_RET = {}


def ret_set(G, mods_fn, depth=0):
    if G.name in _RET:
        return _RET[G.name]
    _RET[G.name] = set()
    out = set()
    for R in G.rets():
        if not R.ops:
            continue
        s = value_set(G, R.ops[0], mods_fn, depth + 1)
        if s is None:
            out = None
            break
        out |= s
    _RET[G.name] = out
    return out


def generic_protocol(chk):
    """The portable C11 implementation of the same protocol (fips/self_tests_generic.c, built for aarch64 and
    arch=noarch): premises G0-G5 on its IR, the analogue of P0-P7."""
    units, st = build.build("default", only=lambda u: u["src"] == "fips/self_tests_generic.c", extra_make_args=("arch=noarch", "FIPS_MODE=y"), variant_tag="noarch-fips")
    if not units:
        chk.broke("fips/self_tests_generic.c is not part of the arch=noarch FIPS build")
        return
    M = ir.load_modules(units)["fips/self_tests_generic.c"]
    F = M.functions.get("isal_self_tests")
    if F is None or F.decl:
        chk.broke("generic isal_self_tests not found")
        return
    src = "fips/self_tests_generic.c"
    SELF = M.enum_value("ISAL_CRYPTO_ERR_SELF_TEST")

    def G(name, ok, msg, loc=None, construct=None):
        chk.obligation(name, ok, key=(name, construct or msg[:40]), sample={"premise": name, "holds": bool(ok), "what": msg})
        if not ok:
            chk.finding(Finding(name, src, "isal_self_tests", construct or name, "generic (C11) protocol: " + msg, loc=loc or src))
    cx = [I for I in F.all_insts() if I.op == "cmpxchg"]
    if len(cx) != 1:
        G("G2", False, "expected exactly one compare-exchange on the status, found %d" % len(cx), construct="single-claim")
        return
    CX = cx[0]
    groot = F.resolve(CX.ops[0])
    gname = groot.get("name") if isinstance(groot, dict) and groot.get("k") == "g" else None
    g = M.globals.get(gname) if gname else None
    G("G0", g is not None and g.get("init_int") == "2" and g.get("local"), "the status object must be a private static initialised to 2 (NOT_DONE); found %s init=%s" % (gname, g.get("init_int") if g else None), construct="initial-state")
    G("G2", F.const_int(CX.ops[1]) == 2 and F.const_int(CX.ops[2]) == 3, "the claim must be compare_exchange(expected = constant 2, desired = constant 3); found expected=%s desired=%s" % (
        ir.expr_str(F, CX.ops[1]), ir.expr_str(F, CX.ops[2])), loc=CX.loc(), construct="claim-operands")

    def is_status(p):
        r, off = F.ptr_root(p)
        return isinstance(r, dict) and r.get("k") == "g" and r.get("name") == gname

    def success_flag(v):
        I = F.resolve(v)
        for _ in range(8):
            if isinstance(I, ir.Inst) and I.op in ("zext", "trunc", "sext", "freeze"):
                I = F.resolve(I.ops[0])
            else:
                break
        return isinstance(I, ir.Inst) and I.op == "extractvalue" and I.raw.get("indices") == [1] and isinstance(F.resolve(I.ops[0]), ir.Inst) and F.resolve(I.ops[0]).id == CX.id
    okall = {"G1": True, "G3": True, "G4": True, "G5": True}
    why = {}
    npaths = 0
    for P in ir.paths_with_facts(F):
        npaths += 1
        ids = [I.id for I in P.insts]
        has_cx = CX.id in ids
        outcomes = {taken for (val, pred, c, taken, br, pos) in P.facts if pred is None and success_flag(val)}
        if len(outcomes) > 1:
            continue        # infeasible: one SSA flag cannot be both true and false in one execution
        won = outcomes.pop() if outcomes else None
        stores = [I for I in P.insts if I.op == "store" and is_status(I.ops[1])]
        calls = [I.callee for I in P.insts if I.op == "call" and I.callee in ("_aes_self_tests", "_sha_self_tests")]
        loads = [I for I in P.insts if I.op == "load" and is_status(I.ops[0])]
        for I in stores + loads:
            if not I.raw.get("atomic"):
                # a plain read of an _Atomic object is still atomic in C11 only through the type; clang emits `load atomic`
                okall["G1"] = False
                why["G1"] = "non-atomic access to the status at %s" % I.loc()
        # G3: winner-only work, verdict domain and order
        if stores or calls:
            if not (has_cx and won is True):
                okall["G3"] = False
                why["G3"] = "the suites run / the verdict is stored on a path that did not win the claim"
            for S in stores:
                v = F.const_int(S.ops[0])
                zero_facts = {F.resolve(val).callee for (val, pred, c, t, br, pos) in P.facts if isinstance(F.resolve(val), ir.Inst) and F.resolve(val).op == "call" and pred == "eq" and c == 0 and pos < P.insts.index(S)}
                nz_facts = {F.resolve(val).callee for (val, pred, c, t, br, pos) in P.facts if isinstance(F.resolve(val), ir.Inst) and F.resolve(val).op == "call" and pred == "ne" and c == 0 and pos < P.insts.index(S)}
                if v == 0 and not ({"_aes_self_tests", "_sha_self_tests"} <= zero_facts):
                    okall["G3"] = False
                    why["G3"] = "OK is published without both suites having returned 0"
                elif v == 1 and not nz_facts:
                    okall["G3"] = False
                    why["G3"] = "FAIL is published without a failing suite"
                elif v not in (0, 1):
                    okall["G3"] = False
                    why["G3"] = "a value other than 0/1 is published"
            if calls and not stores:
                okall["G3"] = False
                why["G3"] = "a winner path runs a suite and returns without publishing"
            rv = P.ret
            if stores and not ((F.const_int(stores[-1].ops[0]) == 0) == (rv == 0)):
                okall["G3"] = False
                why["G3"] = "the winner's return value disagrees with the verdict it published"
        elif has_cx and won is False:
            # G4 waiter: must pass the loop exit (status != 3) and decide on a later load
            exitpos = [pos for (val, pred, c, t, br, pos) in P.facts if pred == "ne" and c == 3 and isinstance(F.resolve(val), ir.Inst) and F.resolve(val).op == "load" and is_status(F.resolve(val).ops[0])]
            decided = [(pred, c) for (val, pred, c, t, br, pos) in P.facts if exitpos and pos > exitpos[-1] and isinstance(F.resolve(val), ir.Inst) and F.resolve(val).op == "load" and is_status(F.resolve(val).ops[0])]
            if not exitpos:
                okall["G4"] = False
                why["G4"] = "a loser of the claim returns without waiting for status != RUNNING"
            elif P.ret == 0 and ("eq", 0) not in decided:
                okall["G4"] = False
                why["G4"] = "a waiter returns success without having read status == OK after the wait"
            elif P.ret not in (0, SELF):
                okall["G4"] = False
                why["G4"] = "a waiter returns %r" % (P.ret,)
        elif not has_cx:
            facts = [(pred, c) for (val, pred, c, t, br, pos) in P.facts if isinstance(F.resolve(val), ir.Inst) and F.resolve(val).op == "load" and is_status(F.resolve(val).ops[0])]
            if P.ret == 0 and ("eq", 0) not in facts:
                okall["G5"] = False
                why["G5"] = "the fast path returns success without having read status == OK"
            if P.ret == SELF and ("eq", 1) not in facts:
                okall["G5"] = False
                why["G5"] = "the fast path returns the error without having read status == FAIL"
    # loop shape: the wait loop contains no store
    for k in ("G1", "G3", "G4", "G5"):
        G(k, okall[k], why.get(k, {"G1": "all status accesses are atomic", "G3": "suites and publication happen only on the winner's paths, verdict in {0,1}, return value consistent",
                                     "G4": "losers wait for status != RUNNING and decide on a fresh load", "G5": "fast-path returns follow the loaded status"}[k]), construct=k)
    chk.extra["generic_protocol_paths"] = npaths
    if npaths < 7:
        chk.broke("generic isal_self_tests has only %d paths" % npaths)


def initial_state(so, ssym):
    ib = so.initial_bytes(ssym.sec, ssym.addr, 4)
    sec = so.sections[ssym.sec]["name"]
    if ib is None:
        return False, "initial value of self_test_status cannot be read from section %s" % sec
    v = int.from_bytes(ib, "little")
    relocated = any(r[0] == ssym.sec and ssym.addr <= r[1] < ssym.addr + 4 for r in so.relocs)
    if relocated:
        return False, "self_test_status is initialised through a relocation"
    return v == 2, "self_test_status starts as %d in %s; the protocol (and every gate that relies on it) requires 2 = NOT_DONE" % (v, sec)


def find_status(lib):
    for o in lib.objs:
        for sm in o.symbols:
            if sm.name == STATUS and sm.kind == "DEF":
                return o, sm
    return None


def run(chk):
    units, stats = build.build("fips")
    lib = x86.Library(units)
    mods = ir.load_modules([u for u in units if u["kind"] == "c"])
    chk.extra["build"] = stats
    chk.trusted += ["x86-TSO memory model and atomicity of lock cmpxchg", "termination of the self-test suites themselves", "LLVM 14 MC decoding; clang-14 -O0 IR mirrors self_tests.c"]
    chk.assumptions += ["the lemma of DESIGN.md section 5 links P1-P8 to the property; the check decides the premises, not schedules"]
    mods_fn = {}
    for M in mods.values():
        for F in M.defined():
            mods_fn.setdefault(F.name, F)

    def P(name, ok, msg, obj="fips/asm_self_tests.asm", fn=CHECK, loc=None, construct=None, sample=None):
        chk.obligation(name, ok, key=(name, construct or msg[:40]), sample=sample or {"premise": name, "holds": bool(ok), "what": msg})
        if not ok:
            chk.finding(Finding(name, obj, fn, construct or name, msg, loc=loc))

    # ---------------- P1
    refs = []
    stat_obj = None
    for o in lib.objs:
        for sm in o.symbols:
            if sm.name == STATUS and sm.kind == "DEF":
                stat_obj = (o, sm)
    if stat_obj is None:
        chk.broke("self_test_status not found in any object")
        return
    so, ssym = stat_obj
    P("P1", ssym.bind == "L", "self_test_status must be a local symbol (binding %s)" % ssym.bind, construct="binding")
    # ---------------- P0: the protocol starts in state 2 (NOT_DONE)
    ok0, msg0 = initial_state(so, ssym)
    P("P0", ok0, msg0, construct="initial-state", sample={"premise": "P0", "section": so.sections[ssym.sec]["name"], "what": msg0})
    for o in lib.objs:
        for (sec, iaddr, isz, kind, off, sym0, add_, rtype, ssec, opc) in o.erefs:
            t = o.reloc_target(sym0, add_, rtype, ssec, isz, off)
            hit = False
            if o is so and t[0] == ssym.sec and ssym.addr <= t[1] < ssym.addr + 4:
                hit = True
            if t[0] == -1 and t[2] == STATUS:
                hit = True
            if hit:
                import c12
                fn = c12.func_name_containing(lib, (o.name, sec, iaddr))
                refs.append((o.name, fn, kind, opc))
    owners = {r[1] for r in refs}
    P("P1", owners <= {CHECK, SETF} and len(refs) >= 4, "self_test_status is referenced from %s; only %s / %s may touch it" % (sorted(map(str, owners)), CHECK, SETF), construct="owners",
      sample={"premise": "P1", "references": refs})
    chk.floor("references to self_test_status", len(refs), 3)

    # ---------------- P2-P4 on asm_check
    f = lib.func_named(CHECK)
    g = lib.func_named(SETF)
    if f is None or g is None:
        chk.broke("status functions not found")
        return
    o = f.obj
    ip = absint.Interp(lib, lambda t: absint.SYSV, keep_regs=True)
    r = ip.run(f)

    def is_status_mem(i):
        if i.mem < 0 or not i.rel:
            return False
        t = i.rel_target(o)
        return t[0] == ssym.sec and t[1] == ssym.addr

    allins = [i for b in sorted(f.blocks) for i in f.blocks[b]]
    byaddr = {i.addr: i for i in allins}
    writes = [i for i in allins if i.writes_mem_operand()]
    cmpx = [i for i in allins if i.op.startswith("CMPXCHG")]
    okw = len(writes) == 1 and len(cmpx) == 1 and writes[0] is cmpx[0] and is_status_mem(cmpx[0]) and cmpx[0].memsize() == 4
    P("P2", okw, "asm_check must contain exactly one memory write, a 32-bit cmpxchg on self_test_status (writes: %s)" % [w.text.strip() for w in writes], construct="single-write", loc=o.line_of(f.sec, f.entry))
    if okw:
        cx = cmpx[0]
        # lock prefix is a separate MC instruction immediately before
        prev = [i for i in allins if i.next == cx.addr]
        locked = bool(prev) and prev[0].op == "LOCK_PREFIX"
        P("P2", locked, "the cmpxchg on self_test_status has no lock prefix", construct="lock", loc=o.line_of(f.sec, cx.addr))
        regs = r.reg_at.get(prev[0].addr if locked else cx.addr, {})
        ea, ed = regs.get("RAX"), regs.get(x86.PARENT[cx.reg(len(cx.ops) - 1)] if cx.reg(len(cx.ops) - 1) else "RDX")
        P("P2", ea == ("const", 2), "expected value of the claim is %s, must be the constant 2 (NOT_DONE)" % (ea,), construct="expected", loc=o.line_of(f.sec, cx.addr))
        P("P2", ed == ("const", 3), "new value of the claim is %s, must be the constant 3 (RUNNING)" % (ed,), construct="new-value", loc=o.line_of(f.sec, cx.addr))
        # the branch after cmpxchg
        blk = [b for b in f.blocks if cx in f.blocks[b]][0]
        br = f.blocks[blk][-1]
        okbr = br.is_cond() and br.imm(1) in (4, 5) and f.blocks[blk].index(br) == f.blocks[blk].index(cx) + 1
        P("P2", okbr, "the cmpxchg must be followed directly by a je/jne on its ZF", construct="claim-branch", loc=o.line_of(f.sec, br.addr))
        if okbr:
            tgt, fall = br.branch_target(), br.next
            succ_edge, fail_edge = (tgt, fall) if br.imm(1) == 4 else (fall, tgt)
            # success edge: straight to ret with no definition of eax
            a = succ_edge
            clean = True
            steps = 0
            while steps < 50:
                i = byaddr.get(a)
                steps += 1
                if i is None:
                    clean = False
                    break
                if i.is_ret():
                    break
                if any(x86.PARENT.get(d) == "RAX" for d in i.explicit_defs() + i.idefs) or i.is_branch() or i.is_call() or "S" in i.fl:
                    clean = False
                    break
                a = i.next
            P("P2", clean, "the winner must return with eax still 2 (success edge redefines eax, branches or stores)", construct="winner-return", loc=o.line_of(f.sec, succ_edge))
            # ---------------- P4
            reach = set()
            work = [fail_edge]
            while work:
                a = work.pop()
                # block containing a
                for b, ins in f.blocks.items():
                    if ins[0].addr <= a <= ins[-1].addr and b not in reach:
                        reach.add(b)
                        work += f.succ.get(b, [])
            rb = sorted(reach)
            rins = [i for b in rb for i in f.blocks[b]]
            nostore = not any(i.writes_mem_operand() for i in rins)
            P("P4", nostore, "the waiters' path contains a store", construct="wait-no-store", loc=o.line_of(f.sec, fail_edge))
            # path-based: every path from the failed claim to ret (a block at most twice) must (1) leave through the
            # "not RUNNING" direction of a compare of the status with 3 and (2) return in eax a load of the status
            # that is the compared value itself or was made after that exit.  Nothing else may decide a branch.
            bad4 = []
            nret4 = [0]

            def walk(a, regs, fl, okexit, fresh, seen, depth):
                while True:
                    i = byaddr.get(a)
                    if i is None or depth > 400:
                        bad4.append((a, "control leaves the function"))
                        return
                    depth += 1
                    if a in f.blocks:
                        c = seen.get(a, 0)
                        if c >= 2:
                            return
                        seen = dict(seen)
                        seen[a] = c + 1
                    if i.is_ret():
                        nret4[0] += 1
                        ev = regs.get("RAX")
                        if okexit is None:
                            bad4.append((i.addr, "a loser of the claim reaches ret without having seen the status differ from RUNNING"))
                        elif ev is None:
                            bad4.append((i.addr, "a loser of the claim returns a value in eax that is not a load of the status"))
                        elif not (ev == okexit or ev in fresh):
                            bad4.append((i.addr, "a loser of the claim returns a load of the status made before the wait ended"))
                        return
                    if i.is_call() or (i.is_branch() and (i.is_indirect() or i.branch_target() is None)):
                        bad4.append((i.addr, "call or indirect branch on the waiters' path"))
                        return
                    if i.is_branch():
                        t = i.branch_target()
                        if not i.is_cond():
                            a = t
                            continue
                        cc = i.imm(1)
                        if fl is None or cc not in (4, 5):
                            bad4.append((i.addr, "a branch on the waiters' path is not decided by a compare of the status with RUNNING"))
                            return
                        eq_t, ne_t = (t, i.next) if cc == 4 else (i.next, t)
                        walk(eq_t, dict(regs), None, okexit, set(fresh), seen, depth)
                        a, okexit, fl = ne_t, fl, None
                        fresh = set()
                        continue
                    op = i.op
                    if op == "MOV32rm" and is_status_mem(i):
                        tag = ("ld", i.addr, seen.get(max(b_ for b_ in f.blocks if b_ <= i.addr), 0))
                        regs = dict(regs)
                        regs[x86.PARENT[i.reg(0)]] = tag
                        if okexit is not None:
                            fresh = set(fresh) | {tag}
                    elif op in ("MOV32rr", "MOV64rr") and i.mem < 0:
                        regs = dict(regs)
                        regs[x86.PARENT[i.reg(0)]] = regs.get(x86.PARENT.get(i.reg(1)))
                    else:
                        ds = [x86.PARENT.get(d) for d in list(i.explicit_defs()) + list(i.idefs)]
                        if any(d in regs for d in ds):
                            regs = dict(regs)
                            for d in ds:
                                regs.pop(d, None)
                    if op.startswith("CMP32mi") and is_status_mem(i) and i.imm(5) == 3:
                        fl = "mem"
                    elif op in ("CMP32ri8", "CMP32ri", "CMP64ri8") and i.mem < 0 and i.imm(1) == 3 and regs.get(x86.PARENT.get(i.reg(0))) is not None:
                        fl = regs.get(x86.PARENT.get(i.reg(0)))
                    elif "EFLAGS" in i.idefs or "EFLAGS" in i.explicit_defs():
                        fl = None
                    a = i.next
            walk(fail_edge, {}, None, None, set(), {}, 0)
            P("P4", not bad4 and nret4[0] > 0, "waiters: %s" % (bad4[0][1] if bad4 else "no return reachable from the failed claim"), construct="wait-loop", loc=o.line_of(f.sec, bad4[0][0] if bad4 else fail_edge))
    # ---------------- P3
    first = [i for i in f.blocks[f.entry] if not i.op.startswith(("ENDBR", "NOOP"))]
    okp3 = False
    if len(first) >= 3:
        ld, ts, jb = first[0], first[1], first[2]
        if ld.op == "MOV32rm" and is_status_mem(ld) and x86.PARENT.get(ld.reg(0)) == "RAX" and ts.op in ("TEST32i32", "TEST32ri") and (ts.imm(0) if ts.op == "TEST32i32" else ts.imm(1)) == 2 and jb.is_cond() and jb.imm(1) in (4, 5):
            early = jb.next if jb.imm(1) == 5 else jb.branch_target()
            e = byaddr.get(early)
            okp3 = e is not None and e.is_ret()
    P("P3", okp3, "the fast path must be: load status into eax; test eax,2; return at once only when bit 1 is clear", construct="fast-path", loc=o.line_of(f.sec, f.entry))
    # asm_set: single 32-bit store of the first argument
    gins = [i for b in sorted(g.blocks) for i in g.blocks[b] if not i.op.startswith(("ENDBR", "NOOP"))]
    oks = len(gins) == 2 and gins[0].op == "MOV32mr" and gins[0].rel and gins[0].rel_target(g.obj)[1] == ssym.addr and gins[0].reg(5) == "EDI" and gins[1].is_ret()
    P("P5", oks, "asm_set must be `mov dword [self_test_status], edi; ret` (found %s)" % [i.text.strip() for i in gins], fn=SETF, construct="publisher-body", loc=g.obj.line_of(g.sec, g.entry))

    # ---------------- P5 / P6 / P7 in IR
    M = mods.get("fips/self_tests.c")
    F = M.functions.get("isal_self_tests") if M else None
    if F is None or F.decl:
        chk.broke("isal_self_tests not found in the FIPS IR")
        return
    callers = []
    for src, MM in mods.items():
        for G in MM.defined():
            for I in G.calls(SETF):
                callers.append((src, G.name, I))
    for oo in lib.objs:
        if oo.kind == "asm":
            for (sec, iaddr, isz, kind, off, sym0, add_, rtype, ssec, opc) in oo.erefs:
                if sym0 == SETF and kind in ("call", "jmp", "lea"):
                    callers.append((oo.name, "<asm>", None))
    P("P5", len(callers) == 1 and callers[0][1] == "isal_self_tests", "asm_set_self_tests_status must be called from exactly one site in isal_self_tests (callers: %s)" % [(c[0], c[1]) for c in callers], obj="fips/self_tests.c", fn="isal_self_tests", construct="single-publisher")
    if len(callers) == 1 and callers[0][2] is not None:
        S = callers[0][2]
        chkcalls = F.calls(CHECK)
        a_calls = F.calls("_aes_self_tests")
        s_calls = F.calls("_sha_self_tests")
        ok_one = len(chkcalls) == 1 and len(a_calls) == 1 and len(s_calls) == 1
        P("P5", ok_one, "isal_self_tests must call the status check and each suite exactly once", obj="fips/self_tests.c", fn="isal_self_tests", construct="call-counts", loc=S.loc())
        if ok_one:
            C, A, Bc = chkcalls[0], a_calls[0], s_calls[0]
            order = F.must_pass(S, {Bc.id}) and F.must_pass(Bc, {A.id}) and F.must_pass(A, {C.id})
            P("P5", order, "every path to the publication must pass check -> _aes_self_tests -> _sha_self_tests -> asm_set in this order", obj="fips/self_tests.c", fn="isal_self_tests", construct="publish-order", loc=S.loc())
            # reachable only when check returned neither 0 nor 1
            okfacts = True
            npaths = 0
            for Pth in ir.paths_with_facts(F):
                if S.id not in {I.id for I in Pth.insts}:
                    continue
                npaths += 1
                ne = set()
                for (val, pred, c, _t, br, pos) in Pth.facts:
                    rv = F.resolve(val)
                    if not (isinstance(rv, ir.Inst) and rv.id == C.id and pos < Pth.insts.index(S)):
                        continue
                    if pred == "ne" and isinstance(c, int):
                        ne.add(c)
                    elif pred == "switch-default" and isinstance(c, tuple):
                        ne |= {x for x in c if isinstance(x, int)}       # the default edge: none of the case values
                if not {0, 1} <= ne:
                    okfacts = False
            P("P5", okfacts and npaths >= 1, "the test suites / publication are reachable although the status check returned 0 or 1", obj="fips/self_tests.c", fn="isal_self_tests", construct="winner-only", loc=S.loc())
            # P6
            arg = F.resolve(S.ops[0])
            okor = isinstance(arg, ir.Inst) and arg.op == "or" and {F.resolve(x).id for x in arg.ops if isinstance(F.resolve(x), ir.Inst)} == {A.id, Bc.id}
            P("P6", okor, "the published verdict must be (aes result | sha result)", obj="fips/self_tests.c", fn="isal_self_tests", construct="verdict-expr", loc=S.loc())
            for nm in ("_aes_self_tests", "_sha_self_tests"):
                G = mods_fn.get(nm)
                rs = ret_set(G, mods_fn) if G is not None and not G.decl else None
                P("P6", rs is not None and rs <= {0, 1}, "%s may return %s; only 0 or 1 keep the status out of {2,3}" % (nm, "an unbounded value" if rs is None else sorted(rs)), obj=(G.module.unit["src"] if G is not None else "?"), fn=nm, construct="suite-return-domain",
                  sample={"premise": "P6", "function": nm, "return_values": sorted(rs) if rs is not None else None})
    # P7 (shared with C13)
    before = len(chk.findings)
    c13.check_self_tests_fn(chk, mods, rule="P7")

    # ---------------- P8: call graph from the suites
    import c18
    seen = set()
    bad = []
    work = [lib._by_name.get("_aes_self_tests"), lib._by_name.get("_sha_self_tests")]
    if None in work:
        chk.broke("self-test suites not found in the object code")
        return
    nfun = 0
    while work:
        k = work.pop()
        if k in seen:
            continue
        seen.add(k)
        fn = lib.func(k)
        if fn is None:
            continue
        nfun += 1
        name = lib.entries_by_key.get(k, "")
        if name.startswith("isal_"):
            bad.append(name)
            continue
        import c19
        if c19.is_stub(lib, k):
            cands = c18.stub_candidates(lib, k)
            if cands is None:
                chk.broke("cannot resolve candidates of stub %s" % name)
                continue
            work += cands
            continue
        for b in fn.blocks.values():
            for i in b:
                if i.is_call() or (i.is_branch() and not i.is_cond() and not i.is_indirect()):
                    t = lib.resolve_reloc_target(fn.obj, i) if i.rel else None
                    if t is None:
                        bt = i.branch_target()
                        if bt is not None and (i.is_call() or bt in lib.entry_addrs.get((fn.obj.name, fn.sec), ())) and bt != fn.entry:
                            t = ("func", (fn.obj.name, fn.sec, bt))
                    if t is None:
                        continue
                    if t[0] == "func":
                        work.append(t[1])
                    elif t[0] == "ext" and t[1].startswith("isal_"):
                        bad.append(t[1])
                if i.is_call() and i.is_indirect():
                    chk.broke("indirect call in %s reachable from the self-tests" % name)
        for a, nxt in getattr(fn, "fallthrough", {}).items():
            work.append((fn.obj.name, fn.sec, nxt))
    P("P8", not bad, "public isal_ entry points are reachable from the self-test suites (%s): the winner would wait on its own claim" % sorted(set(bad))[:4], obj="fips/aes_self_tests.c", fn="_aes_self_tests", construct="re-entry",
      sample={"premise": "P8", "functions_reachable_from_suites": nfun})
    chk.floor("functions reachable from the self-test suites", nfun, 100)
    generic_protocol(chk)
    chk.extra["functions_reachable_from_suites"] = nfun
    return ("Premises P1-P8 of the once-protocol lemma decided on the FIPS build: ownership of self_test_status (%d references), shape of the lock cmpxchg claim and its "
            "constants, fast path, wait loop, single publisher with ordered suite calls, verdict domain {0,1}, result mapping, and absence of re-entry over %d functions reachable from the suites." % (len(refs), nfun))
