"""C08 (partial) - no access outside caller-supplied byte ranges; inputs never modified.

Decided (x86 provenance on all AES CPU-specific entry points and the rolling-hash scan loops, IR for the
rolling-hash window).  NOT decided: bounds of variable-length buffers (every `len mod 16/64` tail in every
family) - that needs relational numeric invariants between len, loop counters and masked-load k registers.

R08.1 inputs are never written: for every argument whose pointee is const in the calling wrapper's prototype
      (keys, key schedules, IV, tweak, AAD, input data), no store instruction's address derives from that
      argument alone.
R08.2 fixed-extent operands: every load whose address is a fixed-extent input argument + constant stays inside
      the extent (IV 12 bytes, tweak 16, raw keys 16/24/32, key schedules 16*(Nr+1), GCM key data = sizeof the
      struct) and fixed-extent inputs are never indexed by a register.
R08.4 tag extent: every fixed-offset store through the auth_tag argument fits the tag length known on that path
      (auth_tag_len == 16 / 12 after the corresponding compare) and otherwise the smallest tag (8 bytes).
R08.5 rolling-hash scan loops: every load of a stream byte indexed by the position register follows a comparison
      of that register with the end made after its last modification.
R08.6 the ctx layer's variable-length copy helper (memcpy_gte16_*_varlen, one static copy per unit) reads N bytes at
      src + i only under an established i + N <= nbytes, or end-anchored at nbytes - N.
R08.7 zero length: under the entry assumption len = 0 (the length argument of the CBC, GCM and XTS bodies, value-set
      interpretation of lib/valset.py) no instruction that stays reachable addresses memory through the in or out
      argument - 'exactly len output bytes', and no input byte is read that the caller did not supply.
R08.8 masked tails are read as they are written: in every body with (in, out), an input load whose address shape,
      offset and size equal those of output stores that are all confined by an opmask is itself masked - an unmasked
      load there reads up to a vector's width of bytes the function does not treat as data (lib/inplace.py forms).
R08.9 variable-length bounds on the length skeleton (lib/lenrun.py): for every body with (in, out, len) and every
      length of a dense range (1..299 quick, 1..699 thorough; multiples of 16 for CBC, from 16 for XTS; for the GCM
      update bodies also with a pending partial block of 1, 8 and 15 bytes), constant propagation with branch
      folding over the scalar arguments follows the path(s) that length selects and every unmasked access whose
      address is `in + k` / `out + k` must satisfy 0 <= k and k + size <= len.  Branches that depend on data are
      taken both ways; a run that cannot be followed is counted as not judged, never as a violation.
R08.11 exactly len output bytes, the other half: on the same runs the stores through `out` (mask extents resolved)
      cover every byte of [0, len) - no output byte is left unwritten.  Runs with a store whose mask or address the
      skeleton does not determine are not judged for coverage.
R08.12 the 64-bit length stays 64 bits wide: in every body with a uint64_t length, a register that certainly holds the
      length argument or what 64-bit subtractions / additions of constants / masks that keep the high bits have
      made of it (must-analysis) is never the destination of a 32-bit read-modify-write instruction - that would
      clear bits 63..32 and a call with len >= 4 GiB would stop early.
R08.10 hash kernels read whole blocks only: for every kernel the assembly managers call, with 1..4 blocks and every
      lane pointer of the argument block taken as a distinct buffer, the length skeleton's accesses through a lane
      pointer lie within [0, blocks * block size) - no software-pipelined load of a block that does not exist.
R08.3 rolling-hash window: in _rolling_hash2_run every address of the form buffer - w / buffer + i - w is computed
      only after the first loop has exited normally (i >= w), before that the window comes from state->history.
"""
import collections
import re

import build
import ir
import par
import roles
import x86
import absint
import c12
import c19
import valset
import inplace
import lenrun
from report import Finding

LEVEL = "other"
RULE_TEXT = __doc__.split("\n\n", 2)[2].replace("\n      ", " ")
ARGROOTS = ["RDI", "RSI", "RDX", "RCX", "R8", "R9"] + ["ARG@%d" % (8 + 8 * k) for k in range(10)]


def extent_of(iface, name, gcm_key_size):
    """Byte extent of a fixed-extent input argument, or None when it is a variable-length buffer."""
    bits = None
    m = re.search(r"_(128|192|256)(?:_|$)", iface)
    if m:
        bits = int(m.group(1))
    nr = {128: 10, 192: 12, 256: 14}.get(bits)
    if name in ("iv", "IV"):
        return 12 if "gcm" in iface else 16
    if name in ("initial_tweak", "TW_initial"):
        return 16
    if name in ("k1", "k2"):
        if "expanded_key" in iface:
            return 16 * (nr + 1)
        return bits // 8
    if name == "key" and "keyexp" in iface:
        return bits // 8
    if name == "keys":
        return 16 * (nr + 1)
    if name == "key_data":
        return gcm_key_size
    return None


def worker(lib, objname, extra):
    cand = extra["cand"]      # function name -> (iface, sig)
    gks = extra["gcm_key_size"]
    o = lib.by_name[objname]
    out = {"findings": [], "stores": 0, "loads_fixed": 0, "funcs": 0, "unknown": 0, "samples": []}

    def add(rule, fn, construct, msg, addr, sec):
        out["findings"].append({"rule": rule, "obj": objname, "function": fn, "construct": construct, "message": msg, "loc": o.line_of(sec, addr) or ("%s+%#x" % (objname, addr))})
    for key, name in lib.entry_list:
        if key[0] != objname or name not in cand:
            continue
        iface, sig = cand[name]
        f = lib.func(key)
        r = c19.analyse(lib, key)
        out["funcs"] += 1
        inputs = {}
        others = set()
        for k, s in enumerate(sig):
            if k >= len(ARGROOTS) or s is None:
                if k < len(ARGROOTS):
                    others.add(ARGROOTS[k])
                continue
            nm, cst, dt = s
            if cst and dt.endswith("*"):
                inputs[ARGROOTS[k]] = nm
            elif dt.endswith("*") or dt.endswith("* const"):
                others.add(ARGROOTS[k])
        # ---- R08.7 zero-length call touches neither buffer
        lenreg = None
        bufregs = {}
        for k, sg in enumerate(sig):
            if sg and k < 6:
                if sg[0] in ("len", "len_bytes") and "*" not in (sg[2] or ""):
                    lenreg = ARGROOTS[k]
                elif sg[0] in ("in", "out") and "*" in (sg[2] or ""):
                    bufregs[ARGROOTS[k]] = sg[0]
        if lenreg and len(bufregs) == 2:
            out["zero_len"] = out.get("zero_len", 0) + 1
            vs = valset.run(f, {lenreg: [0]})
            badz = []
            for b0 in sorted(vs.reached):
                for i in f.blocks[b0]:
                    if i.mem < 0 or i.op.startswith(("LEA", "PREFETCH")):
                        continue
                    av = r.maddr.get(i.addr)
                    if av is None:
                        continue
                    rs = absint.roots(av[0])
                    flat = set()
                    for rr in (rs or ()):
                        if isinstance(rr, str):
                            flat.add(rr)
                        elif isinstance(rr, tuple) and rr and rr[0] == "ld":
                            flat |= {x for x in rr[1] if isinstance(x, str)}
                    hit = sorted(flat & set(bufregs))
                    if hit:
                        badz.append((i, hit))
            if badz:
                i, hit = badz[0]
                add("R08.7", name, "len=0", "with len = 0 `%s` stays reachable and %s memory through the %s argument (%d such access(es)): a zero-length call must touch neither buffer" % (i.text.strip(), "writes" if i.writes_mem_operand() else "reads", bufregs[hit[0]], len(badz)), i.addr, key[1])
            else:
                out["zero_len_ok"] = out.get("zero_len_ok", 0) + 1
        # ---- R08.9 bounds on the length skeleton
        if lenreg and len(bufregs) == 2:
            thorough = extra.get("tier") == "thorough"
            lo_, step_ = (16, 16) if "_cbc_" in name else (16, 1) if "XTS" in name else (1, 1)
            hi_ = 700 if thorough else 300
            pbs = (0, 1, 8, 15) if "_update_" in name else (0,)
            pboff = extra.get("pblock_off")
            judged = notj = nacc = ncov = 0
            why = None
            badl = None
            badc = None
            for PB in pbs:
                for L in range(lo_, hi_ if PB == 0 else 48, step_):
                    entry = {}
                    sargs = {}
                    for k, sg in enumerate(sig):
                        if sg is None:
                            continue
                        isptr = "*" in (sg[2] or "")
                        nm_ = sg[0] or ("arg%d" % k)
                        v_ = ("p", nm_, 0) if isptr else (L if ARGROOTS[k] == lenreg else 16 if nm_ == "auth_tag_len" else 0 if nm_ == "aad_len" else None)
                        if k < 6:
                            entry[ARGROOTS[k]] = v_
                        else:
                            sargs[8 + 8 * (k - 6)] = v_

                    def hook(i, a, size, _sa=sargs, _pb=PB):
                        if a[0] == "p" and a[1] == "sp" and a[2] in _sa and size == 8:
                            return _sa[a[2]]
                        if pboff is not None and a[0] == "p" and a[1] == "context_data" and a[2] == pboff and size == 8:
                            return _pb
                        return None
                    rr = lenrun.Machine(lib, f, entry, mem_hook=hook).run()
                    if rr.stopped or not rr.returned:
                        notj += 1
                        why = why or rr.stopped
                        continue
                    judged += 1
                    wr = []
                    wr_unknown = False
                    for (i, tag, off, size, rw, masked) in rr.accesses:
                        if tag not in ("in", "out"):
                            continue
                        nacc += 1
                        if tag == "out" and "w" in rw:
                            if masked:
                                wr_unknown = True
                            else:
                                wr.append((off, off + size))
                        if masked:
                            continue
                        avail = L
                        if off < 0 or off + size > avail:
                            badl = badl or (L, PB, i, tag, off, size, rw)
                    # R08.11 every output byte is written
                    if not wr_unknown and not getattr(rr, "unknown_addr", 0):
                        ncov += 1
                        wr.sort()
                        reach = 0
                        for (a_, b_) in wr:
                            if a_ > reach:
                                break
                            reach = max(reach, b_)
                        if reach < L and badc is None:
                            badc = (L, PB, reach)
            out["lr_judged"] = out.get("lr_judged", 0) + judged
            out["lr_notjudged"] = out.get("lr_notjudged", 0) + notj
            out["lr_acc"] = out.get("lr_acc", 0) + nacc
            out["lr_bodies"] = out.get("lr_bodies", 0) + 1
            if notj and len(out.setdefault("lr_why", [])) < 3:
                out["lr_why"].append("%s: %s" % (name, why))
            out["lr_cov"] = out.get("lr_cov", 0) + ncov
            if badc:
                L, PB, reach = badc
                add("R08.11", name, "coverage:len=%d" % L, "with len = %d%s the stores through `out` cover only the first %d byte(s) without a gap: byte %d of the output is never written" % (L, (" and a pending partial block of %d bytes" % PB) if PB else "", reach, reach), f.entry, key[1])
            else:
                out["lr_cov_ok"] = out.get("lr_cov_ok", 0) + 1
            if badl:
                L, PB, i, tag, off, size, rw = badl
                add("R08.9", name, "bounds:len=%d" % L, "with len = %d%s `%s` %s bytes %d..%d of `%s`, which has %d byte(s)" % (L, (" and a pending partial block of %d bytes" % PB) if PB else "", i.text.strip(), "writes" if "w" in rw else "reads", off, off + size - 1, tag, L), i.addr, key[1])
            else:
                out["lr_ok"] = out.get("lr_ok", 0) + 1
        # ---- R08.12 the length carrier is never narrowed
        l64 = [k_ for k_, s_ in enumerate(sig) if s_ and s_[0] in ("len", "len_bytes", "N") and "64" in (s_[2] or "") and k_ < 6]
        if l64:
            PP, WW = x86.PARENT, x86.WIDTH
            st_in = {f.entry: frozenset([ARGROOTS[l64[0]]])}
            work12 = [f.entry]
            bad12 = {}
            while work12:
                b12 = work12.pop()
                full = set(st_in[b12])
                for i in f.blocks[b12]:
                    defs = [d for d in list(i.explicit_defs()) + list(i.idefs) if d in PP]
                    uses = [PP[u] for u in i.reg_uses_nomem() if u in PP]
                    op = i.op
                    newfull = set()
                    for d in defs:
                        if PP[d] in full and WW[d] == 32 and PP[d] in uses and not op.startswith(("CMP", "TEST")) and not (op.startswith(("XOR32rr", "SUB32rr")) and i.reg(1) == i.reg(2)):
                            bad12.setdefault(i.addr, i)
                    if i.mem < 0 and op == "MOV64rr" and PP.get(i.reg(1)) in full:
                        newfull.add(PP[i.reg(0)])
                    elif i.mem < 0 and op in ("SUB64ri8", "SUB64ri32", "ADD64ri8", "ADD64ri32") and PP.get(i.reg(0)) in full:
                        newfull.add(PP[i.reg(0)])
                    elif i.mem < 0 and op in ("AND64ri8", "AND64ri32") and PP.get(i.reg(0)) in full and (i.imm(2) or 0) < 0:
                        newfull.add(PP[i.reg(0)])
                    for d in defs:
                        full.discard(PP[d])
                    full |= newfull
                for s12 in f.succ.get(b12, []):
                    old12 = st_in.get(s12)
                    if old12 is None:
                        st_in[s12] = frozenset(full)
                        work12.append(s12)
                    else:
                        j12 = old12 & full
                        if j12 != old12:
                            st_in[s12] = j12
                            work12.append(s12)
            out["l64_bodies"] = out.get("l64_bodies", 0) + 1
            if bad12:
                a12 = sorted(bad12)[0]
                add("R08.12", name, "length-narrowed", "`%s` is a 32-bit operation on the register that carries the 64-bit length: bits 63..32 are cleared, so a call with len >= 4 GiB processes only part of the data (%d such instruction(s))" % (bad12[a12].text.strip(), len(bad12)), a12, key[1])
            else:
                out["l64_ok"] = out.get("l64_ok", 0) + 1
        # ---- R08.8 mask symmetry of tails
        if len(bufregs) == 2:
            inr = [k_ for k_, v_ in bufregs.items() if v_ == "in"][0]
            outr = [k_ for k_, v_ in bufregs.items() if v_ == "out"][0]
            try:
                ipr = inplace.analyse(f, inr, outr, r)
                out["mask_bodies"] = out.get("mask_bodies", 0) + 1
                nm = sum(1 for (a_, s_, i_) in ipr.stores if inplace._mask_of(i_))
                out["masked_stores"] = out.get("masked_stores", 0) + nm
                asym = inplace.mask_asymmetry(ipr)
                if asym:
                    l_, s_ = asym[0]
                    add("R08.8", name, "unmasked-tail-load", "`%s` reads a full vector from the input where the matching output store `%s` (%s) is confined by an opmask: up to %d bytes beyond the data are read (%d such load(s))" % (l_.text.strip(), s_.text.strip(), o.line_of(key[1], s_.addr), (l_.memsize() or 16) - 1, len(asym)), l_.addr, key[1])
                else:
                    out["mask_ok"] = out.get("mask_ok", 0) + 1
            except RuntimeError:
                pass
        nst = nld = 0
        tag_root = len_root = None
        for k, sg in enumerate(sig):
            if sg and k < len(ARGROOTS):
                if sg[0] == "auth_tag":
                    tag_root = ARGROOTS[k]
                elif sg[0] == "auth_tag_len":
                    len_root = ARGROOTS[k]
        for bl, b in f.blocks.items():
            for i in b:
                av = r.maddr.get(i.addr)
                if av is None:
                    continue
                v, indexed, size = av
                if i.writes_mem_operand():
                    nst += 1
                    if v[0] in ("sp", "fr"):
                        continue
                    if tag_root and v[0] == "init" and v[1] == tag_root and not indexed and "{k" not in i.text:
                        # R08.4: exactly tag_len tag bytes: on a path where auth_tag_len is known the store must fit it,
                        # otherwise it must fit the smallest documented tag (8 bytes)
                        limit = 8
                        for (val, iv) in r.store_facts.get(i.addr, []):
                            if val == ("init", len_root, 0) and iv[0] == iv[1]:
                                limit = iv[0]
                        out["tagstores"] = out.get("tagstores", 0) + 1
                        if v[2] < 0 or v[2] + (size or 1) > limit:
                            add("R08.4", name, "tag-extent", "`%s` writes tag bytes %d..%d on a path where the tag is %d bytes long" % (i.text.strip(), v[2], v[2] + (size or 1) - 1, limit), i.addr, key[1])
                    rs = absint.roots(v)
                    if rs is None:
                        out["unknown"] += 1
                        continue
                    argroots = {t for t in rs if isinstance(t, str)}
                    if argroots and argroots <= set(inputs) and not any(isinstance(t, tuple) for t in rs):
                        nm = inputs[sorted(argroots)[0]]
                        add("R08.1", name, "store-through:" + nm, "`%s` stores through the input argument '%s' (const in %s's prototype)" % (i.text.strip(), nm, iface), i.addr, key[1])
                elif i.reads_mem_operand():
                    if v[0] == "init" and v[1] in inputs:
                        nm = inputs[v[1]]
                        ext = extent_of(iface, nm, gks)
                        if ext is None:
                            continue
                        nld += 1
                        sz = size or 1
                        if "{k" in i.text:
                            # masked load: bytes outside the mask are neither read nor faulted on
                            mk = mask_const(lib, f, r, b, i)
                            if mk is None:
                                add("R08.2", name, "masked:" + nm, "`%s` reads the fixed-extent input '%s' under a mask whose value is not a known constant" % (i.text.strip(), nm), i.addr, key[1])
                                continue
                            esz = 1 if "dqu8" in i.text or "vmovdqu8" in i.text else 2 if "dqu16" in i.text else 4 if ("dqu32" in i.text or "ps " in i.text) else 8
                            sz = mk.bit_length() * esz
                            out["masked"] = out.get("masked", 0) + 1
                        if indexed:
                            if nm == "key_data":
                                out["indexed_table"] = out.get("indexed_table", 0) + 1     # GHASH key-power table indexed by block count: not decided
                                continue
                            add("R08.2", name, "indexed:" + nm, "`%s` reads the fixed-extent input '%s' (%d bytes) with a register index" % (i.text.strip(), nm, ext), i.addr, key[1])
                        elif v[2] < 0 or v[2] + sz > ext:
                            add("R08.2", name, "extent:" + nm, "`%s` reads bytes %d..%d of '%s', whose extent is %d bytes" % (i.text.strip(), v[2], v[2] + sz - 1, nm, ext), i.addr, key[1])
        out["stores"] += nst
        out["loads_fixed"] += nld
        if len(out["samples"]) < 2:
            out["samples"].append({"function": name, "interface": iface, "inputs": inputs, "stores": nst, "fixed_extent_loads": nld})
    return out


def mask_const(lib, f, r, block, ins):
    """Constant value of the opmask register governing `ins`, if it was set from a constant GPR earlier in the
    same basic block (kmov k, reg) and not rewritten since."""
    kreg = None
    for o in ins.ops:
        if o[0] == "r" and o[1] and x86.K_RE.match(o[1]) and o[1] != "K0":
            kreg = o[1]
    if kreg is None:
        return None
    ip = absint.Interp(lib, lambda t: c19.summary_of(lib, t))
    st = r.in_state.get(block[0].addr)
    if st is None:
        return None
    regs, stack = dict(st[0]), dict(st[1])
    val = None
    for j in block:
        if j.addr == ins.addr:
            break
        if kreg in j.explicit_defs():
            val = None
            if j.op.startswith("KMOV") and j.reg(1) in x86.PARENT:
                v = ip.val(regs, j.reg(1))
                if v[0] == "const":
                    val = v[1]
        ip.step(f, j, regs, stack, None)
    return val


def run(chk):
    units, stats = build.build("default")
    lib = x86.Library(units)
    chk.extra["build"] = stats
    mods = ir.load_modules([u for u in units if u["kind"] == "c"])
    chk.trusted += ["the wrappers' prototypes (const pointee = input)", "LLVM MC operand tables"]
    chk.assumptions += ["bounds of variable-length buffers are NOT decided", "stores through pointers of unknown provenance are counted, not judged",
                        "in-place operation uses the output pointer: a store is judged only when its address derives from input arguments alone"]
    sigs = roles.interface_signatures(mods)
    gks = None
    for M in mods.values():
        ds = M.distructs.get("isal_gcm_key_data")
        if ds:
            gks = ds["size"]
    if not gks:
        chk.broke("size of struct isal_gcm_key_data not found in DWARF")
        return
    cand = {}
    for key, name in lib.entry_list:
        if not name.endswith("_dispatch_init"):
            continue
        o = lib.by_name[key[0]]
        if not (o.src or "").startswith(("aes/",)):
            continue
        iface = name[:-len("_dispatch_init")]
        sig = sigs.get(iface)
        if sig is None:
            pref = sorted((k for k in sigs if iface.startswith(k + "_")), key=len)
            if pref:
                sig = sigs[pref[-1]][:2] if iface.endswith("_enc") and "keyexp" in iface else sigs[pref[-1]]
        if sig is None or any(s is None for s in sig):
            chk.broke("no complete signature for %s" % iface)
            continue
        try:
            for (facts, stored, addr) in c12.ladder_paths(lib, lib.func(key), None):
                if isinstance(stored, tuple) and stored[1] and stored[1][0] == "addr":
                    cand.setdefault(stored[1][1], (iface, sig))
        except c12.Unmodelled as e:
            chk.broke("%s: %s" % (name, e))
    chk.floor("AES entry points", len(cand), 143)
    objs = sorted({lib._by_name[c][0] for c in cand if c in lib._by_name})
    pboff = None
    for M_ in mods.values():
        ds_ = M_.distructs.get("isal_gcm_context_data")
        if ds_:
            for m_ in ds_["members"]:
                if m_["name"] == "partial_block_length":
                    pboff = m_["off"]
    res = par.map_objects(lib, worker, objs, extra={"cand": cand, "gcm_key_size": gks, "tier": chk.tier, "pblock_off": pboff})
    tot = collections.Counter()
    for objname in sorted(res):
        r = res[objname]
        for k in ("stores", "loads_fixed", "funcs", "unknown"):
            tot[k] += r[k]
        tot["masked"] += r.get("masked", 0)
        tot["tagstores"] += r.get("tagstores", 0)
        tot["indexed_table"] += r.get("indexed_table", 0)
        tot["zero_len"] += r.get("zero_len", 0)
        tot["zero_len_ok"] += r.get("zero_len_ok", 0)
        for k_ in ("mask_bodies", "masked_stores", "mask_ok", "lr_judged", "lr_notjudged", "lr_acc", "lr_bodies", "lr_ok", "lr_cov", "lr_cov_ok", "l64_bodies", "l64_ok"):
            tot[k_] += r.get(k_, 0)
        for w_ in r.get("lr_why", []):
            if len(chk.notes) < 12:
                chk.notes.append("R08.9 not judged: " + w_)
        for fd in r["findings"]:
            chk.finding(Finding(fd["rule"], fd["obj"], fd["function"], fd["construct"], fd["message"], loc=fd["loc"]))
        for s in r["samples"]:
            if len(chk.samples) < 8:
                chk.samples.append(dict(rule="R08.1/2", **s))
    chk.obligations["R08.1"] = [tot["stores"], tot["stores"] - len([f for f in chk.findings if f.rule == "R08.1"])]
    chk.obligations["R08.2"] = [tot["loads_fixed"], tot["loads_fixed"] - len([f for f in chk.findings if f.rule == "R08.2"])]
    for c in cand:
        chk.distinct.add(("fn", c))
    chk.obligations["R08.4"] = [tot["tagstores"], tot["tagstores"] - len([f for f in chk.findings if f.rule == "R08.4"])]
    chk.obligations["R08.7"] = [tot["zero_len"], tot["zero_len_ok"]]
    chk.obligations["R08.8"] = [tot["mask_bodies"], tot["mask_ok"]]
    chk.obligations["R08.9"] = [tot["lr_bodies"], tot["lr_ok"]]
    chk.obligations["R08.11"] = [tot["lr_bodies"], tot["lr_cov_ok"]]
    chk.obligations["R08.12"] = [tot["l64_bodies"], tot["l64_ok"]]
    chk.floor("bodies with a 64-bit length checked for narrowing", tot["l64_bodies"], 100)
    chk.floor("length-skeleton runs judged for output coverage", tot["lr_cov"], 20000)
    chk.floor("(body, length) runs followed to a return on the length skeleton", tot["lr_judged"], 20000)
    chk.floor("accesses through in / out checked against len", tot["lr_acc"], 150000)
    chk.extra["length_skeleton_runs"] = {"judged": tot["lr_judged"], "not_judged": tot["lr_notjudged"], "accesses_checked": tot["lr_acc"], "bodies": tot["lr_bodies"]}
    chk.floor("opmask-confined output stores seen", tot["masked_stores"], 100)
    chk.floor("bodies with (in, out, len) judged for the zero-length call", tot["zero_len"], 80)
    chk.floor("tag stores judged", tot["tagstores"], 60)
    chk.floor("store instructions judged", tot["stores"], 10000)
    chk.floor("fixed-extent loads judged", tot["loads_fixed"], 3000)
    chk.extra["stores_with_unknown_address"] = tot["unknown"]
    chk.extra["masked_fixed_extent_loads_with_constant_mask"] = tot["masked"]
    chk.extra["indexed_reads_of_gcm_key_table_not_decided"] = tot["indexed_table"]
    # ---- R08.10 hash kernels: block-granular bounds on the length skeleton
    import c01
    hash_objs = sorted(o_.name for o_ in lib.objs if (o_.src or "").split("/")[0] in c01.DIRS and "_mb_mgr_" in o_.name)
    r1 = par.map_objects(lib, c01.worker, hash_objs, extra={"kernels": {}, "ptr_region": {}})
    kernels = {}
    for on_, rr_ in r1.items():
        for k_ in rr_["callees"]:
            nm_ = lib.entries_by_key.get(tuple(k_))
            if nm_:
                kernels[nm_] = tuple(k_)
    regions = {}
    for src_, M_ in mods.items():
        if not re.match(r"^(sha1|sha256|sha512|md5|sm3)_mb/\w+_ctx_(sse|avx2)\.c$", src_):
            continue
        for n_, ds in M_.distructs.items():
            ms = {m["name"]: (m["off"], m["size"]) for m in ds["members"]}
            if "data_ptr" in ms and "digest" in ms and "_MB_ARGS_" in n_:
                regions[src_.split("/")[0].split("_")[0]] = ms["data_ptr"]
    nk = nkj = nka = 0
    for kname, kkey in sorted(kernels.items()):
        algo = kname.split("_")[0]
        reg = regions.get(algo)
        if not reg:
            continue
        bsz = 128 if algo == "sha512" else 64
        fk = lib.func(kkey)
        nk += 1
        badk = None
        whyk = None
        for nblk in (1, 2, 3, 4):
            def hookk(i, a, size, _reg=reg):
                if a[0] == "p" and a[1] == "args" and _reg[0] <= a[2] < _reg[0] + _reg[1] and size == 8 and (a[2] - _reg[0]) % 8 == 0:
                    return ("p", "lane%d" % ((a[2] - _reg[0]) // 8), 0)
                return None
            rrk = lenrun.Machine(lib, fk, {"RDI": ("p", "args", 0), "RSI": nblk}, mem_hook=hookk).run()
            if rrk.stopped or not rrk.returned:
                whyk = whyk or rrk.stopped
                continue
            nkj += 1
            for (i, tag, off, size, rw, masked) in rrk.accesses:
                if not tag.startswith("lane"):
                    continue
                nka += 1
                if masked:
                    continue
                if off < 0 or off + size > nblk * bsz:
                    badk = badk or (nblk, i, tag, off, size)
        chk.obligation("R08.10", badk is None, key=kname, sample={"kernel": kname, "block_size": bsz})
        if whyk and len(chk.notes) < 16:
            chk.notes.append("R08.10 %s not judged for some block counts: %s" % (kname, whyk))
        if badk:
            nblk, i, tag, off, size = badk
            chk.finding(Finding("R08.10", fk.obj.name, kname, "block-bounds", "with %d block(s) per lane `%s` reads bytes %d..%d of the buffer of %s, which has %d bytes" % (nblk, i.text.strip(), off, off + size - 1, tag, nblk * bsz), loc=fk.obj.line_of(fk.sec, i.addr)))
    chk.floor("hash kernels followed on the length skeleton", nk, 20)
    chk.floor("(kernel, block count) runs judged", nkj, 60)
    chk.floor("lane-buffer accesses checked", nka, 1000)
    chk.extra["hash_kernel_runs"] = {"kernels": nk, "judged": nkj, "lane_accesses": nka}
    # ---- R08.3 rolling hash window (IR)
    M = mods.get("rolling_hash/rolling_hash2.c")
    F = M.functions.get("_rolling_hash2_run") if M else None
    if F is None or F.decl:
        chk.broke("_rolling_hash2_run not found")
    else:
        buf_n = F.arg_index("buffer")
        # "the window has been filled" = the scan position is >= w.  The facts of the conditional edges that dominate
        # a look-back address computation are collected as an order graph (a >= b) over SSA values / local variables
        # and the position variable (the one handed to the scan routine by address) must reach w in it: `i >= w`
        # directly, or through a chain such as i >= head_len, head_len >= w.
        def vkey(v):
            r = F.resolve(v)
            while isinstance(r, ir.Inst) and r.op in ("zext", "sext", "trunc", "freeze"):
                r = F.resolve(r.ops[0])
            if isinstance(r, ir.Inst) and r.op == "load":
                root, off = F.ptr_root(r.ops[0])
                if isinstance(root, ir.Inst) and root.op == "alloca":
                    return ("slot", root.id)
                fld = F.field(r.ops[0])
                if fld and fld[1] and fld[1][-1][1] == "w":
                    return ("w",)
            if isinstance(r, ir.Inst):
                return ("i", r.id)
            c = F.const_int(r) if isinstance(r, dict) else None
            if c is not None:
                return ("c", c)
            return ("v", repr(r))
        cond_edges = []
        for B in F.blocks:
            T = B.insts[-1]
            if T.op == "br" and T.raw.get("cond") and T.raw["succ"][0] != T.raw["succ"][1]:
                nc = ir.norm_cond(F, T.ops[0])
                if nc and nc[1] in ("ult", "uge", "ule", "ugt", "eq", "ne"):
                    lhs = vkey(nc[0])
                    rhs = vkey(nc[2].v) if isinstance(nc[2], ir.ValRef) else ("c", nc[2])
                    t, fl = T.raw["succ"]
                    for (succ, pred) in ((t, nc[1]), (fl, {"ult": "uge", "uge": "ult", "ule": "ugt", "ugt": "ule", "eq": "ne", "ne": "eq"}[nc[1]])):
                        cond_edges.append(((B.id, succ), lhs, pred, rhs))
        pos_keys = set()
        for I in F.all_insts():
            if I.op == "call" and (I.callee or "").startswith("_rolling_hash2_run_until") and I.ops:
                r0 = F.resolve(I.ops[0])
                if isinstance(r0, ir.Inst) and r0.op == "alloca":
                    pos_keys.add(("slot", r0.id))
        if not pos_keys:
            chk.broke("_rolling_hash2_run: the position variable handed to the scan routine was not found")
        neg = []
        for I in F.all_insts():
            if I.op == "getelementptr":
                root, off = F.ptr_root({"k": "i", "id": I.id})
                if F.is_arg(root, buf_n) and mentions_minus_w(F, I, 0):
                    neg.append(I)
        chk.floor("window look-back address computations", len(neg), 2)
        for I in neg:
            ge = {}
            for (edge, lhs, pred, rhs) in cond_edges:
                if not F.edge_dominates(edge, I):
                    continue
                if pred in ("uge", "ugt", "eq"):
                    ge.setdefault(lhs, set()).add(rhs)
                if pred in ("ule", "ult", "eq"):
                    ge.setdefault(rhs, set()).add(lhs)
            ok = False
            for pk in pos_keys:
                seen_ = {pk}
                st_ = [pk]
                while st_:
                    x = st_.pop()
                    if x == ("w",):
                        ok = True
                        break
                    for y in ge.get(x, ()):
                        if y not in seen_:
                            seen_.add(y)
                            st_.append(y)
            chk.obligation("R08.3", ok, key=I.id, sample={"function": F.name, "line": I.line, "dominating_order_facts": sum(len(v) for v in ge.values())})
            if not ok:
                chk.finding(Finding("R08.3", "rolling_hash/rolling_hash2.c", F.name, "look-back-before-window", "an address below `buffer` (buffer - w / buffer + i - w) is formed where the branches taken so far do not imply that the first w bytes have been consumed (position >= w)", loc=I.loc()))
    # ---- R08.6 the ctx layer's variable-length copy helper never reads beyond src + nbytes
    n86 = 0
    for src_, M in sorted(mods.items()):
        for F in M.defined():
            if not re.match(r"^memcpy_gte16_\w+_varlen$", F.name):
                continue
            n86 += 1
            src_n, nb_n = 1, 2
            bad = None
            for P in ir.paths_with_facts(F, max_paths=5000):
                for pos, I in enumerate(P.insts):
                    acc = None
                    if I.op == "call" and re.match(r"^memcpy_\w+_fixedlen$", I.callee or "") and I.raw.get("nargs") == 3:
                        acc = (I.ops[1], F.const_int(I.ops[2]))
                    elif I.op == "load" and I.raw.get("size", 0) >= 1:
                        acc = (I.ops[0], I.raw.get("size"))
                    if acc is None or acc[1] is None:
                        continue
                    ptr, size = acc
                    # find the (single) variable-index GEP on the src argument
                    G = F.resolve(ptr)
                    idx = None
                    while isinstance(G, ir.Inst) and G.op in ("bitcast", "getelementptr"):
                        if G.op == "getelementptr" and G.raw.get("off") is None and len(G.ops) == 2 and F.is_arg(F.resolve(G.ops[0]), src_n):
                            idx = G.ops[1]
                        G = F.resolve(G.ops[0])
                    if not F.is_arg(G, src_n) or idx is None:
                        continue
                    k = P.bidx[pos]
                    iv = P.at(F, idx, k)
                    ok = False
                    # end-anchored: idx == nbytes - size, size within the helper's precondition (nbytes >= 16)
                    if isinstance(iv, ir.Inst) and iv.op == "sub" and F.is_arg(F.resolve(iv.ops[0]), nb_n) and F.const_int(iv.ops[1]) == size and size <= 16:
                        ok = True
                    for (val, pred, c, t, br, fpos), fk in zip(P.facts, P.fact_k):
                        if fpos >= pos or pred != "ule" or not isinstance(c, ir.ValRef) or not F.is_arg(F.resolve(c.v), nb_n):
                            continue
                        A = F.resolve(val)
                        if isinstance(A, ir.Inst) and A.op == "add" and F.const_int(A.ops[1]) is not None and F.const_int(A.ops[1]) >= size:
                            if P.same(P.at(F, A.ops[0], fk), iv):
                                ok = True
                    if not ok and bad is None:
                        bad = (I, size)
            chk.obligation("R08.6", bad is None, key=(src_, F.name), sample={"unit": src_, "function": F.name})
            if bad:
                chk.finding(Finding("R08.6", src_, F.name, "read-past-source", "%d bytes are read from src + i on a path that has not established i + %d <= nbytes (and i is not nbytes - %d): up to %d bytes beyond the caller's buffer" % (bad[1], bad[1], bad[1], bad[1] - 1), loc=bad[0].loc()))
    chk.floor("variable-length copy helpers", n86, 20)
    # ---- R08.5 rolling-hash scan loops: every stream byte load indexed by the position follows a bounds comparison
    # of the position made after its last modification (no speculative / software-pipelined load past the end)
    nscan = 0
    for key, name in lib.entry_list:
        if not re.match(r"^_rolling_hash2_run_until_(00|04)$", name):
            continue
        f = lib.func(key)
        r = c19.analyse(lib, key)
        posreg = None
        for b in f.blocks.values():
            for i in b:
                av = r.maddr.get(i.addr)
                if i.writes_mem_operand() and av is not None and av[0] == ("init", "RDI", 0) and i.op.startswith("MOV") and i.reg(5) in x86.PARENT:
                    posreg = x86.PARENT[i.reg(5)]
        if posreg is None:
            chk.broke("%s: position register (stored to *idx) not found" % name)
            continue
        nscan += 1
        state = {f.entry: False}
        work = [f.entry]
        bad = []
        nloads = 0
        while work:
            bl = work.pop()
            ok = state[bl]
            for i in f.blocks[bl]:
                m = i.memop()
                if i.reads_mem_operand() and m and posreg in (x86.PARENT.get(m[0]), x86.PARENT.get(m[2])):
                    av = r.maddr.get(i.addr)
                    rs = absint.roots(av[0]) if av else None
                    if rs and (("R8" in rs) or ("R9" in rs)):
                        nloads += 1
                        if not ok:
                            bad.append(i)
                if any(x86.PARENT.get(d) == posreg for d in i.explicit_defs() + i.idefs):
                    ok = False
                if i.op.startswith("CMP") and posreg in [x86.PARENT.get(u) for u in i.reg_uses_nomem()]:
                    ok = True
            for s2 in f.succ.get(bl, []):
                if s2 not in state:
                    state[s2] = ok
                    work.append(s2)
                elif state[s2] and not ok:
                    state[s2] = False
                    work.append(s2)
        chk.obligation("R08.5", not bad, key=name, sample={"function": name, "position_register": posreg.lower(), "stream_loads": nloads})
        if nloads < 4:
            chk.broke("%s: only %d stream loads indexed by the position were recognised" % (name, nloads))
        for i in bad[:2]:
            chk.finding(Finding("R08.5", f.obj.name, name, "load-before-bounds-check", "`%s` reads a stream byte at the position before the position has been compared with the end since its last update: at the end of the run this reads past the buffer" % i.text.strip(), loc=f.obj.line_of(f.sec, i.addr)))
    chk.floor("rolling-hash assembly scan loops", nscan, 2)
    return ("Provenance analysis of %d AES entry points: %d stores judged against const-pointee arguments, %d fixed-extent loads (IV 12 B, tweak 16 B, raw keys, key schedules, GCM key data) "
            "judged against their extents; rolling-hash look-back addresses dominated by the window-filled edge." % (tot["funcs"], tot["stores"], tot["loads_fixed"]))


def mentions_minus_w(F, I, depth):
    """The GEP's index expression subtracts the window size (sub x, zext(load state->w) / 0 - w)."""
    if depth > 8:
        return False
    for o in I.ops[1:] if I.op == "getelementptr" else I.ops:
        J = F.resolve(o)
        if not isinstance(J, ir.Inst):
            continue
        if J.op == "sub":
            rhs = F.resolve(J.ops[1])
            while isinstance(rhs, ir.Inst) and rhs.op in ("zext", "sext", "trunc"):
                rhs = F.resolve(rhs.ops[0])
            if isinstance(rhs, ir.Inst) and rhs.op == "load":
                fld = F.field(rhs.ops[0])
                if fld and fld[1] and fld[1][-1][1] == "w":
                    return True
        if J.op in ("zext", "sext", "add", "sub", "trunc") and mentions_minus_w(F, J, depth + 1):
            return True
    return False
