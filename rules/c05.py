"""C05 - mh_sha1 / mh_sha256: the structural clauses (PARTIAL; digest values are not decided).

R05.1 "the digest does not depend on ... buffer alignment": in every assembly block function
      _mh_sha1_block_<family> / _mh_sha256_block_<family> no alignment-demanding instruction addresses memory
      through the input_data argument (position taken from the C sibling _block_base); the aligned accesses go to
      the interim digests and the frame buffer, which the C layer aligns itself.
R05.2 "does not depend on how the stream was cut into update calls" (bookkeeping half): on every path of every
      _mh_sha1_update_<family> / _mh_sha256_update_<family> that has any effect, total_length is stored exactly
      once with the value total_length + len - finalize derives both the padding and the size of the carried
      partial block from it.
R05.3 every unit that implements the SHA-1 / SHA-256 round function for the multi-hash (block functions of all
      families, the final single-buffer hash over the 16 segment digests) carries the complete standard round
      constants, tables in standard order; the init / final-hash units carry the standard initial hash values.
R05.6 "shorter than 2^32 bytes": the byte-to-bit conversion feeding every length-field store is a 64-bit operation.
R05.7 block loops keep their accumulators (see C10 R10.8) in the 8 assembly block functions.
R05.8 the assembly block functions read the input only within [0, 1024 * num_blocks): length skeleton with 1..3
      blocks (lib/lenrun.py).
R05.9 byte conservation of the update functions on the IR skeleton (lib/irskel.py): for a grid of (bytes carried,
      len) around every block boundary the events of the one path the pair selects are replayed: every byte of the
      caller's buffer is consumed exactly once and in order (copied behind the carried bytes, or handed to the block
      function in whole blocks), the carried block is hashed exactly when it is full, floor((carried+len)/1024)
      blocks are hashed, (carried+len) mod 1024 bytes are carried, total_length grows by len.
R05.10 padding layout of the tail functions on the IR skeleton: 0x80 right behind the residue, zero fill, one block
      more exactly when the 8-byte length no longer fits, length stored into the last 8 bytes of the last block.
R05.11 byte-order masks are constants in the block functions (as C01 R01.9).
R05.12 the frame buffer is aligned upwards: every pointer into the caller's context that is aligned by masking has the
      alignment minus one added first - rounding down would place the block functions' scratch area over the interim
      digests that precede it in the context.
R05.4 "hashed ... with standard SHA-1 / SHA-256" (padding half): every store of the message bit length into a
      padding buffer that the C source asks for (tail functions, the final single-buffer hash) survives in the
      object built with the real flags - some instruction attributed to that source line writes memory.
"""
import re

import build
import cands
import c01
import ir
import mhrules
import x86

LEVEL = "other"
RULE_TEXT = __doc__.split("\n\n", 1)[1].replace("\n      ", " ")
DIRS = {"mh_sha1": "SHA1", "mh_sha256": "SHA256"}


def run(chk):
    units, stats = build.build("default")
    lib = x86.Library(units)
    chk.extra["build"] = stats
    mods = ir.load_modules([u for u in units if u["kind"] == "c" and u["src"].split("/")[0] in DIRS])
    nbind = cands.binding_rule(chk, "R05.5", lib, ['_mh_sha1_update', '_mh_sha1_finalize', '_mh_sha1_block', '_mh_sha256_'])
    chk.floor("implementations checked for binding ownership", nbind, 1)
    nb = mhrules.block_alignment(chk, "R05.1", lib, mods, "_mh_sha1_block") + mhrules.block_alignment(chk, "R05.1", lib, mods, "_mh_sha256_block")
    chk.floor("assembly block functions", nb, 8)
    nu = mhrules.total_length_rule(chk, "R05.2", mods, r"^_mh_sha(1|256)_update_\w+$")
    chk.floor("update functions", nu, 10)
    mhrules.bit_length_width(chk, "R05.6", mods)
    nls = mhrules.loop_state_rule(chk, "R05.7", lib, r"^_mh_sha(1|256)_block_\w+$")
    chk.floor("block functions with loops checked for accumulator discipline", nls, 8)
    ncons, ncase = mhrules.update_conservation(chk, "R05.9", mods, r"^_mh_sha(1|256)_update_\w+$", r"^_?mh_sha(1|256)_block_\w+$")
    chk.floor("update functions replayed for byte conservation", ncons, 10)
    chk.floor("(carried, len) cases followed on the IR skeleton", ncase, 300)
    ntail, ntc = mhrules.tail_rule(chk, "R05.10", mods, r"^_mh_sha(1|256)_tail_\w+$", r"^_?mh_sha(1|256)_block_\w+$")
    chk.floor("tail functions replayed for the padding layout", ntail, 8)
    nsm, nsh = mhrules.shuffle_mask_rule(chk, "R05.11", lib, r"^_?mh_sha(1|256)_block_\w+$")
    chk.floor("block functions checked for constant byte-shuffle masks", nsm, 8)
    nal = mhrules.align_up_rule(chk, "R05.12", mods)
    chk.extra["pointer_alignments_by_masking_judged"] = nal      # the idiom may legitimately disappear: no floor
    nbb = mhrules.block_bounds(chk, "R05.8", lib, mods, "_mh_sha1_block") + mhrules.block_bounds(chk, "R05.8", lib, mods, "_mh_sha256_block")
    chk.floor("block functions followed on the length skeleton", nbb, 8)
    ns = mhrules.length_store_survives(chk, "R05.4", lib, mods)
    chk.floor("bit-length stores checked for survival", ns, 6)
    nunits, nctx = c01.constant_rules(chk, lib, DIRS, "R05.3", "R05.3", {"SHA1": 6, "SHA256": 6}, {"SHA1": 2, "SHA256": 2}, ctx_pat=re.compile(r"^(mh_sha1|mh_sha256|sha1_for_mh_sha1|sha256_for_mh_sha256)\.o$"))
    chk.trusted += ["LLVM 14 MC decoding", "clang -O0 + mem2reg IR of the C layer", "the definitions in lib/stdconst.py"]
    chk.extra.update({"round_function_units": dict(nunits), "initial_value_units": dict(nctx),
                      "not_decided": "the digest itself: word dealing into 16 segments, padding arithmetic, the carry of partial blocks, agreement between families"})
    return "%d block functions alignment-free on input_data; %d update functions keep total_length = bytes consumed on every path; %d units carry the standard constants." % (nb, nu, sum(nunits.values()))
