"""C16 - invalid arguments are refused without side effects; legacy and isal_ wrappers agree.

Engine: path enumeration over the (loop-free) isal_ wrappers in clang -O0+mem2reg IR, default
configuration (SAFE_PARAM on).  Decides structure, not results.

R16.1 every pointer parameter is compared with NULL before any other use on every path; when the
      NULL outcome does not return an error at once, the next decision on the path is a condition on
      scalar parameters only whose other outcome returns an error (documented optional pointers).
R16.2 every path that returns a non-zero constant is free of effects (stores to non-local memory,
      calls), except a callee that itself returned its error before any store, and the post-call
      error mapping of the hash submit wrappers (owned by C11).
R16.3 sibling wrappers (identical parameter lists) evaluate the same set of argument conditions.
R16.4 every path with an effect returns 0 or the callee's own result.
R16.7 the XTS entry points accept exactly the documented window: constant propagation over each isal_aes_xts_* wrapper
      (lib/irskel.py) with len_bytes = MIN-1, MIN, MIN+1, MAX-1, MAX, MAX+1 (ISAL_AES_XTS_MIN_LEN / _MAX_LEN read from
      include/aes_xts.h) reaches the implementation exactly for the lengths inside the window.
R16.5 each legacy wrapper forwards its parameters to the same internal callee in the same roles as
      its isal_ twin and returns the callee's result.
R16.6 a legacy selector without a twin (aes_cbc_precomp) invokes exactly one internal interface per path, and
      the one whose key size its size fact names.
"""
import collections
import re

import build
import ir
from report import Finding
from c13 import is_dbg, is_effect, classify

LEVEL = "proof"
RULE_TEXT = __doc__.split("\n\n", 2)[2].replace("\n      ", " ")
PURE = {"memcmp", "isal_self_tests"}

# parameter-name pairs (legacy, isal_) that denote the same role although spelled differently.
# Frozen after reading the wrappers; one line of reason each.
NAME_ALIASES = {
    ("ctx", "ctx_in"),           # hash submit: legacy takes ctx, isal_ takes ctx_in (+ ctx_out for the result)
}


# Confirmed minority idioms in sibling groups (read and judged legitimate); exact sets, so any further
# drift of the named function is still reported.
SIBLING_EXCEPTIONS = {
    # sm3 treats `buffer` as optional when len == 0; the four other hash submit wrappers treat it as
    # optional when flags is FIRST or LAST.  Both refuse a NULL buffer whenever UPDATE/ENTIRE data of
    # non-zero length would be read; neither contradicts the (unspecific) header documentation.
    "isal_sm3_ctx_mgr_submit": {"missing": {"('arg:flags', 'eq', 0)", "('arg:flags', 'eq', 3)"}, "extra": {"('arg:len', 'eq', 0)"}},
}


def ptr_params(F):
    return [k for k, a in enumerate(F.args) if a["ty"].endswith("*")]


def uses_of_param(F, n):
    """Instructions using parameter n or a cast/GEP of it, excluding null compares."""
    out = []
    seen = set()
    work = [{"k": "a", "n": n}]
    while work:
        v = work.pop()
        for U in F.users(F.resolve(v) if v.get("k") == "i" else v):
            if U.id in seen:
                continue
            seen.add(U.id)
            if U.op in ("bitcast", "getelementptr", "ptrtoint", "phi", "select"):
                work.append({"k": "i", "id": U.id})
                if U.op != "bitcast":
                    out.append(U) if U.op in ("phi", "select") else None
                continue
            if U.op == "icmp":
                other = [o for o in U.ops if not (isinstance(o, dict) and o == v)]
                if any(F.is_null(o) for o in U.ops):
                    continue
            if is_dbg(U):
                continue
            out.append(U)
    return out


def callee_error_effect_free(mods_by_fn, callee):
    """Summary: every path of `callee` that returns a non-zero constant has no effect."""
    F = mods_by_fn.get(callee)
    if F is None or F.decl:
        return False
    try:
        for P in ir.paths_with_facts(F, max_paths=5000):
            if isinstance(P.ret, int) and P.ret != 0:
                if any(is_effect(F, I) for I in P.insts):
                    return False
    except ir.PathLimit:
        return False
    return True


def canon_fact(F, val, pred, c):
    """Orientation-free rendering of a condition for sibling comparison."""
    e = ir.expr_str(F, val)
    if pred is None:
        return (e, "?", None)
    if pred in ("ugt",) and c == 0:
        pred = "ne"
    if pred in ("ule",) and c == 0:
        pred = "eq"
    inv = ir._INV.get(pred, pred)
    p = min(pred, inv)
    return (e, p, c if not isinstance(c, tuple) else str(c))


def run(chk):
    units, stats = build.build("default", only=lambda u: u["kind"] == "c")
    mods = ir.load_modules(units)
    chk.extra["build"] = stats
    chk.trusted += ["clang-14 -O0 + mem2reg IR reflects the C source's control flow", "Makefile.unx default flags (-DSAFE_PARAM -DSAFE_DATA)"]
    chk.assumptions += ["wrappers are loop-free (checked: a wrapper whose path enumeration hits a loop is analysis-broken)",
                        "result equality legacy vs isal_ beyond 'same callee, same argument roles' is not decided",
                        "reads through NULL-admitting optional pointers inside the internal callee (len == 0) are not decided"]
    all_fn = {}
    for M in mods.values():
        for F in M.defined():
            all_fn.setdefault(F.name, F)
    wrappers = []
    for src, M in sorted(mods.items()):
        if classify(src) in (None, "exempt"):
            continue
        for F in sorted(M.defined(), key=lambda f: f.name):
            if F.name.startswith("isal_") and not F.local:
                wrappers.append((src, M, F))
    chk.floor("isal_ algorithm wrappers", len(wrappers), 69)

    guardsets = {}
    internal_of = {}
    for src, M, F in wrappers:
        try:
            paths = list(ir.paths_with_facts(F, max_paths=20000))
        except ir.PathLimit:
            chk.broke("path limit in %s" % F.name)
            continue
        paths = [p for p in paths if not p.contradictory(F)]
        if any(len(set(p.blocks)) != len(p.blocks) for p in paths):
            chk.broke("%s contains a loop; the wrapper rules assume loop-free wrappers" % F.name)
            continue
        pp = ptr_params(F)
        # ---- R16.1
        for n in pp:
            pname = F.args[n].get("name") or str(n)
            uses = uses_of_param(F, n)
            use_ids = {U.id for U in uses}
            bad = None
            nullcmp_seen = False
            for P in paths:
                state = "unchecked"     # unchecked | nonnull | null-pending | null-admitted
                for pos, I in enumerate(P.insts):
                    # facts are attached to branch positions
                    for (val, pred, c, _t, br, fpos), fk in zip(P.facts, P.fact_k):
                        if fpos != pos:
                            continue
                        rv_ = P.at(F, val, fk)
                        if isinstance(rv_, int) or (isinstance(rv_, dict) and rv_.get("k") == "c"):
                            continue        # decided by the edges already taken (e.g. the verdict of an inlined helper): not a new decision
                        r = F.resolve(val)
                        is_p = isinstance(r, dict) and r.get("k") == "a" and r["n"] == n
                        if is_p and c == 0 and pred in ("ne", "eq"):
                            nullcmp_seen = True
                            if pred == "ne":
                                state = "nonnull"
                            else:
                                state = "null-pending"
                        elif state == "null-pending":
                            # next decision after p == NULL must be scalar-only with an error exit on the other edge
                            if scalar_only(F, val) and other_edge_is_error(F, br, P, pos):
                                state = "null-admitted"
                            else:
                                state = "null-bad"
                    if I.id in use_ids:
                        if state in ("unchecked", "null-pending", "null-bad"):
                            bad = (I, state, P)
                            break
                if bad:
                    break
                # a path ending while null-pending must be an error return (required pointer)
                if state == "null-pending" and not (isinstance(P.ret, int) and P.ret != 0):
                    bad = (P.retinst, "null-returns-success", P)
                    break
            ok = bad is None and nullcmp_seen
            chk.obligation("R16.1", ok, key=(F.name, pname), sample={"function": F.name, "param": pname, "uses": len(uses)})
            if not nullcmp_seen:
                chk.finding(Finding("R16.1", src, F.name, "param:" + pname, "pointer parameter '%s' is never compared with NULL" % pname, loc="%s:%s" % (F.file, F.line)))
            elif bad:
                I, st, P = bad
                chk.finding(Finding("R16.1", src, F.name, "param:" + pname,
                                    "pointer parameter '%s' is used (%s) on a path where it %s" % (pname, I.callee or I.op, {"unchecked": "has not been compared with NULL yet", "null-pending": "is NULL", "null-bad": "is NULL and no scalar condition refuses it", "null-returns-success": "is NULL yet the call does not return an error"}[st]),
                                    loc=I.loc(), detail={"path": P.blocks}))
        # ---- R16.2 / R16.4
        bad2 = None
        bad4 = None
        for P in paths:
            effs = [I for I in P.insts if is_effect(F, I)]
            if isinstance(P.ret, int) and P.ret != 0:
                for E in effs:
                    if exempt_effect_on_error_path(F, P, E, all_fn):
                        continue
                    bad2 = (E, P)
                    break
            elif effs:
                okret = (P.ret == 0) or (isinstance(P.ret, ir.Inst) and P.ret.op == "call")
                if not okret:
                    bad4 = (P.retinst, P)
            if P.ret is None and F.raw.get("ret") != "void":
                bad4 = (P.retinst, P)
        chk.obligation("R16.2", bad2 is None, key=F.name, sample={"function": F.name, "paths": len(paths)})
        chk.obligation("R16.4", bad4 is None, key=F.name)
        if bad2:
            E, P = bad2
            chk.finding(Finding("R16.2", src, F.name, "effect-before-error:" + (E.callee or E.op),
                                "a path returning error %s first performs %s" % (P.ret, E.callee or "a store"), loc=E.loc(), detail={"path": P.blocks}))
        if bad4:
            R, P = bad4
            chk.finding(Finding("R16.4", src, F.name, "success-value", "a path that did the work returns %r rather than 0 or the callee's result" % (P.ret if isinstance(P.ret, int) else str(P.ret)), loc=R.loc()))
        # ---- guard set for R16.3 (conditions evaluated before the first effect)
        gs = set()
        for P in paths:
            first_eff = None
            for pos, I in enumerate(P.insts):
                if is_effect(F, I) and not (I.op == "call" and I.callee in PURE):
                    first_eff = pos
                    break
            for (val, pred, c, _t, br, fpos) in P.facts:
                if first_eff is not None and fpos > first_eff:
                    continue
                gs.add(canon_fact(F, val, pred, c))
        guardsets[F.name] = (src, F, gs)
        ic = [I.callee for I in F.calls() if not is_dbg(I) and I.callee not in PURE and (I.callee or "").startswith("_")]
        internal_of[F.name] = ic

    # ---- R16.3 sibling agreement
    groups = collections.defaultdict(list)
    for name, (src, F, gs) in guardsets.items():
        sig = tuple((a.get("name"), "ptr" if a["ty"].endswith("*") else a["ty"]) for a in F.args)
        groups[sig].append(name)
    ngroups = 0
    for sig, names in sorted(groups.items(), key=lambda kv: kv[1]):
        if len(names) < 2:
            continue
        ngroups += 1
        cnt = collections.Counter()
        for nm in names:
            cnt[frozenset(guardsets[nm][2])] += 1
        major, mcount = cnt.most_common(1)[0]
        for nm in sorted(names):
            src, F, gs = guardsets[nm]
            ok = frozenset(gs) == major or mcount * 2 <= len(names) and False
            chk.obligation("R16.3", frozenset(gs) == major, key=nm, sample={"function": nm, "group_size": len(names), "guards": sorted(map(str, gs))[:12]})
            if frozenset(gs) != major:
                missing = sorted(map(str, set(major) - gs))
                extra = sorted(map(str, gs - set(major)))
                ex = SIBLING_EXCEPTIONS.get(nm)
                if ex and set(missing) == ex["missing"] and set(extra) == ex["extra"]:
                    chk.notes.append("R16.3: %s uses its confirmed minority idiom (missing %s, extra %s)" % (nm, missing, extra))
                    chk.obligations["R16.3"][1] += 1
                    continue
                chk.finding(Finding("R16.3", src, nm, "guards-differ",
                                    "argument checks differ from the %d sibling(s) with the same parameter list: missing %s, extra %s" % (mcount, missing, extra),
                                    loc="%s:%s" % (F.file, F.line), detail={"siblings": sorted(names)}))
    chk.extra["sibling_groups"] = ngroups
    chk.extra["guard_reference"] = {nm: sorted(map(str, gs)) for nm, (s, F, gs) in sorted(guardsets.items())}

    # ---- R16.5 legacy twins
    n_legacy = 0
    unpaired = []
    by_callee = collections.defaultdict(list)
    for nm, ics in internal_of.items():
        for c in ics:
            by_callee[c].append(nm)
    for src, M in sorted(mods.items()):
        if classify(src) in (None, "exempt"):
            continue
        for L in sorted(M.defined(), key=lambda f: f.name):
            if L.local or L.name.startswith(("isal_", "_")):
                continue
            calls = [I for I in L.calls() if not is_dbg(I) and (I.callee or "").startswith("_")]
            if len(calls) > 1:
                # R16.6: a legacy selector (e.g. aes_cbc_precomp): one internal interface per path, and the
                # interface's key size must be the one the path's size fact names
                unpaired.append(L.name)
                try:
                    lpaths = list(ir.paths_with_facts(L, max_paths=5000))
                except ir.PathLimit:
                    chk.broke("path limit in %s" % L.name)
                    continue
                bad6 = None
                for P in lpaths:
                    pc = [I for I in P.insts if I.op == "call" and not is_dbg(I) and (I.callee or "").startswith("_")]
                    names = sorted({I.callee for I in pc})
                    if len(names) > 1:
                        bad6 = (pc[1], "one path invokes %s: the later call overwrites what the earlier one produced" % " and then ".join(I.callee for I in pc))
                        break
                    for I in pc:
                        mm = re.search(r"_(128|192|256)(?:_|$)", I.callee)
                        if not mm:
                            continue
                        for (val, pred, c, _t, br, pos) in P.facts:
                            if pred == "eq" and isinstance(c, int) and c in (16, 24, 32) and scalar_only(L, val) and c * 8 != int(mm.group(1)):
                                bad6 = (I, "under the fact %s == %d the %s-bit interface %s is invoked" % (ir.expr_str(L, val), c, mm.group(1), I.callee))
                    if bad6:
                        break
                chk.obligation("R16.6", bad6 is None, key=L.name, sample={"legacy_selector": L.name, "paths": len(lpaths), "callees": sorted({I.callee for I in calls})})
                if bad6:
                    chk.finding(Finding("R16.6", src, L.name, "selector", bad6[1], loc=bad6[0].loc()))
                continue
            if len(calls) != 1:
                continue
            C = calls[0]
            twins = by_callee.get(C.callee, [])
            if not twins:
                unpaired.append(L.name)
                continue
            n_legacy += 1
            own = "isal_" + L.name
            if own in guardsets and own not in twins:
                owncal = sorted(internal_of.get(own, []))
                chk.obligation("R16.5", False, key=(L.name, "own-twin"))
                chk.finding(Finding("R16.5", src, L.name, "legacy-forwarding", "the legacy wrapper forwards to %s, the routine behind %s, while its own twin %s forwards to %s" % (C.callee, twins[0], own, ", ".join(owncal) or "another routine"), loc=C.loc(), detail={"twin": own}))
                continue
            T = guardsets[twins[0]][1]
            TC = [I for I in T.calls(C.callee)][0]
            problems = []
            nargs = C.raw.get("nargs", 0)
            # Each wrapper passes its own parameters; compare the *rank* (declaration order among the
            # parameters that are forwarded) and the type (modulo const) position by position.
            lidx = [arg_param_index(L, C.ops[j]) for j in range(nargs)]
            tidx = [arg_param_index(T, TC.ops[j]) for j in range(nargs)]
            if None in lidx or None in tidx:
                for j in range(nargs):
                    if (lidx[j] is None) != (tidx[j] is None):
                        problems.append("argument %d of %s is a parameter in one wrapper and a computed value in the other" % (j, C.callee))
            else:
                lrank = [sorted(lidx).index(x) for x in lidx]
                trank = [sorted(tidx).index(x) for x in tidx]
                if len(set(lidx)) != len(lidx):
                    problems.append("legacy wrapper passes one parameter twice to %s" % C.callee)
                for j in range(nargs):
                    if lrank[j] != trank[j]:
                        problems.append("argument %d of %s: legacy passes its forwarded parameter #%d ('%s'), %s passes its #%d ('%s')" % (
                            j, C.callee, lrank[j], L.args[lidx[j]].get("name"), T.name, trank[j], T.args[tidx[j]].get("name")))
                    elif L.args[lidx[j]]["ty"] != T.args[tidx[j]]["ty"] and not (L.args[lidx[j]]["ty"].endswith("*") and T.args[tidx[j]]["ty"].endswith("*")) and not (L.args[lidx[j]]["ty"][0] == "i" and T.args[tidx[j]]["ty"][0] == "i"):
                        problems.append("argument %d of %s: parameter kinds differ (%s vs %s)" % (j, C.callee, L.args[lidx[j]]["ty"], T.args[tidx[j]]["ty"]))
            # return: legacy must return the callee's result, the constant 0, or nothing
            rets = L.rets()
            if L.raw.get("ret") != "void":
                for R in rets:
                    rv = L.resolve(R.ops[0]) if R.ops else None
                    base = rv
                    while isinstance(base, ir.Inst) and base.op in ("bitcast", "zext", "sext", "trunc"):
                        base = L.resolve(base.ops[0])
                    if not ((isinstance(base, ir.Inst) and base.id == C.id) or L.const_int(base) == 0):
                        problems.append("legacy wrapper returns neither the callee's result nor 0")
            # no effects other than the call
            other = [I for I in L.all_insts() if is_effect(L, I) and I.id != C.id]
            if other:
                problems.append("legacy wrapper has an extra effect (%s)" % (other[0].callee or other[0].op))
            chk.obligation("R16.5", not problems, key=L.name, sample={"legacy": L.name, "isal": T.name, "callee": C.callee})
            if problems:
                chk.finding(Finding("R16.5", src, L.name, "legacy-forwarding", "; ".join(problems), loc=C.loc(), detail={"twin": T.name}))
    chk.floor("legacy wrappers paired with an isal_ twin", n_legacy, 40)
    # ---- R16.7 the documented length window of the XTS entry points (IR skeleton)
    import irskel
    import os as _os
    win = {}
    try:
        with open(_os.path.join(build.REPO, "include", "aes_xts.h")) as fh:
            for ln in fh:
                mm = re.match(r"^\s*#\s*define\s+(ISAL_AES_XTS_(MIN|MAX)_LEN)\s+\(?\s*(\d+)\s*(<<\s*(\d+))?\s*\)?", ln)
                if mm:
                    win[mm.group(2)] = int(mm.group(3)) << int(mm.group(5) or 0)
    except OSError:
        pass
    n167 = 0
    Mx = mods.get("aes/aes_xts.c")
    if Mx is not None and {"MIN", "MAX"} <= set(win):
        for Fx in sorted(Mx.defined(), key=lambda f: f.name):
            if not Fx.name.startswith("isal_aes_xts_"):
                continue
            ln_n = Fx.arg_index("len_bytes")
            if ln_n is None:
                continue
            n167 += 1
            bad7 = None
            for L_, want in ((win["MIN"] - 1, False), (win["MIN"], True), (win["MIN"] + 1, True), (win["MAX"] - 1, True), (win["MAX"], True), (win["MAX"] + 1, False)):
                args_ = [("p", a_.get("name") or "p%d" % k_, 0) if "*" in (a_.get("ty") or "") else None for k_, a_ in enumerate(Fx.args)]
                args_[ln_n] = L_
                try:
                    rr_ = irskel.run(Fx, args_, None, enter=lambda cal: (Mx.functions.get(cal) if (Mx.functions.get(cal) is not None and not Mx.functions[cal].decl and not cal.startswith(("_XTS", "isal_self"))) else None), unknown_dir=0)
                except irskel.Unknown as e:
                    chk.broke("%s: IR skeleton not followed for len = %d: %s" % (Fx.name, L_, e))
                    bad7 = "broken"
                    break
                did = any(ev[0] == "call" and re.match(r"^_?XTS_AES_", ev[1] or "") for ev in rr_.events)
                if did != want:
                    bad7 = (L_, want)
                    break
            chk.obligation("R16.7", bad7 is None, key=Fx.name, sample={"function": Fx.name, "min": win["MIN"], "max": win["MAX"]})
            if bad7 and bad7 != "broken":
                chk.finding(Finding("R16.7", "aes/aes_xts.c", Fx.name, "length-window:%d" % bad7[0], "len_bytes = %d is %s, but include/aes_xts.h documents the window [%d, %d] - %s" % (bad7[0], "refused" if bad7[1] else "accepted", win["MIN"], win["MAX"], "a documented length is turned away" if bad7[1] else "an undocumented length reaches the implementation"), loc="%s:%s" % (Fx.file, Fx.line)))
        chk.floor("XTS entry points checked against the documented length window", n167, 8)
    chk.extra["legacy_unpaired_listed_not_judged"] = unpaired
    return ("Path enumeration over %d isal_ wrappers (default build): NULL-guard-before-use per pointer parameter, effect-free error "
            "paths, sibling guard-set agreement in %d groups, %d legacy/isal_ forwarding pairs." % (len(wrappers), ngroups, n_legacy))


def arg_param_index(F, v):
    r = F.resolve(v)
    for _ in range(8):
        if isinstance(r, ir.Inst) and r.op in ("bitcast", "zext", "sext", "trunc", "ptrtoint", "inttoptr"):
            r = F.resolve(r.ops[0])
        else:
            break
    if isinstance(r, dict) and r.get("k") == "a":
        return r["n"]
    return None


def arg_param_name(F, v):
    """Name of the parameter passed (through casts) as v, or None if v is not a plain parameter."""
    r = F.resolve(v)
    for _ in range(8):
        if isinstance(r, ir.Inst) and r.op in ("bitcast", "zext", "sext", "trunc", "ptrtoint", "inttoptr"):
            r = F.resolve(r.ops[0])
        else:
            break
    if isinstance(r, dict) and r.get("k") == "a":
        return F.args[r["n"]].get("name") or str(r["n"])
    return None


def scalar_only(F, val, depth=0):
    """The condition's value depends on non-pointer parameters and constants only."""
    if depth > 8:
        return False
    I = F.resolve(val)
    if isinstance(I, dict):
        if I.get("k") == "a":
            return not F.args[I["n"]]["ty"].endswith("*")
        return I.get("k") == "c"
    if I.op in ("load", "call", "phi", "getelementptr"):
        return False
    return all(scalar_only(F, o, depth + 1) for o in I.ops)


def other_edge_is_error(F, br, P, pos):
    """Some successor of conditional branch `br` leads effect-free to a non-zero constant return, or the
    branch is part of an ||/&& chain of scalar-only conditions that does."""
    for s in br.raw["succ"]:
        if leads_to_error(F, s, [br.block.id], 0):
            return True
    return False


def leads_to_error(F, b, path, depth):
    """path: the blocks walked so far (the return value may be a phi chain through an inlined helper's exits)."""
    if depth > 10 or b in path[1:]:
        return False
    B = F.bmap[b]
    for I in B.insts[:-1]:
        if is_effect(F, I):
            return False
    T = B.insts[-1]
    here = path + [b]
    if T.op == "ret":
        v = ir.eval_on_path(F, T.ops[0], here) if T.ops else None
        return isinstance(v, int) and v != 0
    if T.op == "br" and not T.raw.get("cond"):
        return leads_to_error(F, T.raw["succ"][0], here, depth + 1)
    if T.op == "br" and T.raw.get("cond"):
        nc = ir.norm_cond(F, T.ops[0])
        if nc and scalar_only(F, nc[0]):
            return any(leads_to_error(F, s, here, depth + 1) for s in T.raw["succ"])
        # a branch on a value that is constant along this walk (the verdict of an inlined helper): follow it
        v = ir.eval_on_path(F, T.ops[0], here)
        if nc is not None:
            val, pred, c = nc
            r = ir.eval_on_path(F, val, here)
            if isinstance(r, int) and isinstance(c, int) and pred in ("eq", "ne"):
                holds = (r == c) == (pred == "eq")
                return leads_to_error(F, T.raw["succ"][0] if holds else T.raw["succ"][1], here, depth + 1)
    return False


def exempt_effect_on_error_path(F, P, E, all_fn):
    """R16.2 exceptions.  (a) E is a call whose result is tested on this path as an error indication and
    whose own error returns are effect-free; (b) the error is the mapping of a context's `error` field
    after the internal submit call (hash submit wrappers; decided under C11)."""
    if E.op == "call":
        for (val, pred, c, _t, br, fpos) in P.facts:
            r = F.resolve(val)
            if isinstance(r, ir.Inst) and r.id == E.id and pred in ("ne", "slt", "sgt", "ugt") :
                if callee_error_effect_free(all_fn, E.callee):
                    return True
    # (b): some fact on the path reads the struct member `error`
    for (val, pred, c, _t, br, fpos) in P.facts:
        e = ir.expr_str(F, val)
        if ".error)" in e or e.endswith(".error"):
            return True
    return False
