"""C19 - every entry point preserves the callee-saved machine state of the SysV ABI.

Engine: x86 abstract interpretation (lib/absint.py) of every function of every object of the default build.

R19.1 at every ret and tail jump rsp equals its entry value.
R19.2 at every such exit rbx, rbp, r12-r15 hold their entry values.
R19.3 no reachable instruction writes DF (std / popf), MXCSR or the x87 control word.
R19.4 no store at or above the return address.
R19.7 no store beyond an aligned frame: after `and rsp, -N` the bytes between the aligned rsp and the registers the
      function pushed are only guaranteed up to the amount it subtracted; a fixed-offset store past that amount
      overwrites the saved registers whenever the alignment slack happens to be zero.
R19.5 the abstract rsp agrees on all edges into a join.
R19.6 the first-call trampolines (X_mbinit -> X_dispatch_init) also preserve every argument register,
      rax, r10, r11 and touch no vector / mask register (the interface's arguments are live across them).
Functions referenced only by `call` from assembly (private calling convention kernels) are summarised and
their callers are checked with that summary instead.
"""
import collections

import build
import par
import x86
import absint
from report import Finding

LEVEL = "proof"
RULE_TEXT = __doc__.split("\n\n", 2)[2].replace("\n      ", " ")

_SUMM = {}
_INPROG = set()
_RES = {}


def is_stub(lib, key):
    """Dispatch stub: its first real instruction is jmp [slot]."""
    f = lib.func(key)
    if f is None:
        return False
    for b in sorted(f.blocks):
        for i in f.blocks[b]:
            if i.op.startswith(("ENDBR", "NOOP")):
                continue
            return b == f.entry and i.is_branch() and i.is_indirect()
    return False


_PRIV = {}


def analyse(lib, key, ctx=None):
    """Phase-1 result of function `key`.  ctx: known-bits facts of the argument registers at a call site; used
    only for private-convention kernels (called solely from assembly), whose summary is computed per context."""
    mk = (key, ctx) if ctx else key
    if mk in _RES:
        return _RES[mk]
    f = lib.func(key)
    ip = absint.Interp(lib, lambda t, c=None: summary_of(lib, t, c), entry_facts=dict(ctx) if ctx else None)
    _INPROG.add(mk)
    try:
        r = ip.run(f)
    finally:
        _INPROG.discard(mk)
    _RES[mk] = r
    return r


def summary_of(lib, tgt, ctx=None):
    if tgt is None:
        return absint.SYSV
    kind, k = tgt
    if kind != "func":
        return absint.SYSV
    if "set" not in _PRIV:
        _PRIV["set"] = private_funcs(lib)
    if not (ctx and k in _PRIV["set"]):
        ctx = None
    mk = (k, ctx) if ctx else k
    if mk in _SUMM:
        return _SUMM[mk]
    if mk in _INPROG:
        return absint.SYSV
    f = lib.func(k)
    if f is None:
        return absint.SYSV
    # tail-calling stubs and anything that ends in an indirect jump behave like their (checked) targets
    r = analyse(lib, k, ctx)
    s = r.summary
    if any(kind2 in ("tail", "tail-ind", "fall") for (_i, kind2, _r) in r.exits) or r.broken:
        # a tail call hands control to a SysV-conformant callee: caller-saved registers are gone as well
        s = absint.Summary(s.name, set(s.clobbers) | set(x86.CALLER_SAVED), s.rsp_ok)
    _SUMM[mk] = s
    return s


def private_funcs(lib):
    """Functions reachable only through call/jmp from assembly objects (not exported, not dispatched, not
    referenced from C)."""
    priv = set()
    kinds = {o.name: o.kind for o in lib.objs}
    for key, name in lib.entry_list:
        o = lib.by_name[key[0]]
        refs = lib.code_refs.get(key, [])
        exported = False
        for s in o.symtab.get((key[1], key[2]), []):
            if s.bind in ("G", "W") and s.vis == "D" and s.type == "F":
                exported = True
        if exported or not refs:
            continue
        if name.endswith("_dispatch_init"):
            continue
        if all(k in ("call",) and kinds.get(frm) == "asm" for (frm, k) in refs):
            priv.add(key)
    return priv


BAD_STATE_DEFS = {"DF", "MXCSR", "FPCW"}
DF_OK = {"CLD"}
# LLVM 14 does not list MXCSR / FPCW as implicit definitions of these; name them explicitly.
BAD_STATE_OPS = ("LDMXCSR", "VLDMXCSR", "FXRSTOR", "XRSTOR", "FLDCW", "FLDENV", "FRSTOR", "FNINIT", "FINIT", "STD", "POPF")


def worker(lib, objname, extra):
    priv = extra["private"]
    out = {"findings": [], "broken": [], "funcs": 0, "ins": 0, "exits": 0, "assumed_indexed": 0, "assumed_funcs": [], "private": [], "samples": [], "state_writers": 0, "tramp": 0, "stores": 0}
    o = lib.by_name[objname]
    for key, name in lib.entry_list:
        if key[0] != objname:
            continue
        f = lib.func(key)
        for p in f.problems:
            out["broken"].append("%s::%s %s" % (objname, name, p))
        r = analyse(lib, key)
        out["funcs"] += 1
        out["ins"] += r.ins_visited
        out["exits"] += len(r.exits)
        if r.assumed_indexed:
            out["assumed_indexed"] += 1
            out["assumed_funcs"].append(name)
        for b in r.broken:
            out["broken"].append("%s::%s %s" % (objname, name, b))
        is_priv = key in priv

        def add(rule, construct, msg, addr):
            out["findings"].append({"rule": rule, "obj": objname, "function": name, "construct": construct, "message": msg, "loc": o.line_of(key[1], addr) or ("%s+%#x" % (objname, addr))})
        # R19.1 / R19.2
        bad_regs = collections.OrderedDict()
        for (i, kind, regs) in r.exits:
            if regs["RSP"] != ("sp", 0):
                if not is_priv:
                    add("R19.1", "rsp", "rsp at %s (%s) is %s, not its entry value" % (kind, i.text.strip(), regs["RSP"]), i.addr)
                else:
                    out["broken"].append("%s::%s private kernel returns with rsp %s" % (objname, name, regs["RSP"]))
            for cs in x86.CALLEE_SAVED:
                if regs[cs] != ("init", cs, 0):
                    bad_regs.setdefault(cs, (i, kind, regs[cs]))
        if is_priv:
            out["private"].append({"function": name, "object": objname, "clobbers_callee_saved": sorted(bad_regs)})
        else:
            for cs, (i, kind, v) in bad_regs.items():
                add("R19.2", cs.lower(), "%s does not hold its entry value at %s `%s` (abstract value %s)" % (cs.lower(), kind, i.text.strip(), v if v[0] != "der" else "derived"), i.addr)
        for (rule, construct, msg, addr) in r.findings:
            if rule in ("R19.4", "R19.7"):
                add(rule, construct, msg, addr)
            elif rule == "R19.5":
                add(rule, construct, msg, addr)
        # R19.3
        for b in f.blocks.values():
            for i in b:
                if "S" in i.fl:
                    out["stores"] += 1
                hit = None
                for d in i.idefs:
                    if d in BAD_STATE_DEFS and not (d == "DF" and i.op in DF_OK):
                        hit = d
                if hit is None and i.op.startswith(BAD_STATE_OPS):
                    hit = "MXCSR" if "MXCSR" in i.op or "XRSTOR" in i.op else "FPCW" if i.op.startswith("F") else "DF"
                if hit:
                    out["state_writers"] += 1
                    add("R19.3", hit.lower(), "`%s` writes %s" % (i.text.strip(), hit), i.addr)
        # R19.6
        if name.endswith("_dispatch_init") or name.endswith("_mbinit"):
            out["tramp"] += 1
            for (i, kind, regs) in r.exits:
                for g in ["RDI", "RSI", "RDX", "RCX", "R8", "R9", "RAX", "R10", "R11"]:
                    if regs[g] != ("init", g, 0):
                        add("R19.6", g.lower(), "first-call trampoline leaves %s modified at %s `%s`" % (g.lower(), kind, i.text.strip()), i.addr)
            for b in f.blocks.values():
                for i in b:
                    for d in i.explicit_defs() + i.idefs:
                        if x86.vec_of(d) or x86.K_RE.match(d):
                            add("R19.6", d.lower(), "first-call trampoline writes %s" % d.lower(), i.addr)
        if len(out["samples"]) < 2 and r.exits:
            i, kind, regs = r.exits[0]
            out["samples"].append({"object": objname, "function": name, "exit": "%s `%s`" % (kind, i.text.strip()), "instructions": r.ins_visited,
                                   "lowest_stack_offset": r.min_sp, "aligned_frames": len(r.frames)})
    return out


def run(chk):
    units, stats = build.build("default")
    lib = x86.Library(units)
    chk.extra["build"] = stats
    chk.trusted += ["LLVM 14 MC instruction tables (explicit/implicit register definitions and uses)", "nasm / gcc emit what the build flags say (objects are analysed, not sources)"]
    chk.assumptions += ["functions referenced only by `call` from assembly objects follow private conventions and are checked through their callers",
                        "external (libc) callees follow the SysV ABI", "Windows-only save/restore code is not assembled in this configuration"]
    priv = private_funcs(lib)
    res = par.map_objects(lib, worker, [o.name for o in lib.objs], extra={"private": priv})
    tot = collections.Counter()
    privs = []
    for objname in sorted(res):
        r = res[objname]
        for k in ("funcs", "ins", "exits", "state_writers", "tramp", "stores"):
            tot[k] += r[k]
        privs += r["private"]
        chk.extra.setdefault("functions_relying_on_indexed_stack_store_assumption", []).extend(r["assumed_funcs"])
        for b in r["broken"]:
            chk.broke(b)
        fkeys = set()
        for fd in r["findings"]:
            chk.finding(Finding(fd["rule"], fd["obj"], fd["function"], fd["construct"], fd["message"], loc=fd["loc"]))
            fkeys.add((fd["function"], fd["rule"]))
        for s in r["samples"]:
            if len(chk.samples) < 12:
                chk.samples.append(dict(rule="R19.1/2", **s))
    # obligations: one per (function, exit-class rule)
    nf = tot["funcs"]
    bad_funcs = collections.Counter((f.function, f.rule) for f in chk.findings)
    for rule in ("R19.1", "R19.2", "R19.4", "R19.5", "R19.7"):
        nbad = len({fn for (fn, r) in bad_funcs if r == rule})
        chk.obligations[rule] = [nf, nf - nbad]
    chk.obligations["R19.3"] = [tot["ins"], tot["ins"] - len([1 for f in chk.findings if f.rule == "R19.3"])]
    chk.obligations["R19.6"] = [tot["tramp"], tot["tramp"] - len({f.function for f in chk.findings if f.rule == "R19.6"})]
    for key, name in lib.entry_list[:4000]:
        chk.distinct.add(("fn", key))
    chk.floor("functions analysed", nf, 780)
    chk.floor("first-call trampolines (mbinit + dispatch_init)", tot["tramp"], 128)
    chk.floor("objects", len(res), 230)
    chk.extra["instructions_interpreted"] = tot["ins"]
    chk.extra["exits_checked"] = tot["exits"]
    chk.extra["private_convention_functions"] = privs
    # positive control for R19.3 (expected count 0 on the library): the selftest object must be flagged
    import selftest_x86
    ctl = selftest_x86.control_c19(worker)
    chk.extra["positive_control"] = ctl
    if not ctl.get("ok"):
        chk.broke("positive control not flagged: %s" % ctl)
    return ("Abstract interpretation of %d functions (%d instructions, %d exits) in %d objects: rsp and callee-saved registers at every ret/tail jump, "
            "no DF/MXCSR/x87-CW writer, no store above the frame, consistent stack height at joins, %d transparent trampolines; %d private-convention kernels summarised." % (
                nf, tot["ins"], tot["exits"], len(res), tot["tramp"], len(privs)))
