"""C13 - FIPS build fails closed.  IR rules over the FIPS_MODE configuration.

R13.1 gate dominance (approved): every effect (call other than the gate itself / memcmp, store through
      non-local memory) is dominated by the pass edge of `if (isal_self_tests())`; the fail edge leads,
      effect-free, to `ret ISAL_CRYPTO_ERR_SELF_TEST`.
R13.2 non-approved: only possible return value is ISAL_CRYPTO_ERR_FIPS_INVALID_ALGO, no call, no store.
R13.5 no approved entry point returns 0 (success) on a path that has not passed the gate (fail closed also for calls
      that have nothing to do, e.g. a zero length).
R13.3 XTS key equality: internal call dominated by the non-zero edge of memcmp(k1,k2,n), n from the callee.
R13.4 the gate is real: isal_self_tests returns 0 only when the status check returned 0 or the freshly run
      suites both returned 0.
"""
import os

import build
import ir
from report import Finding

APPROVED_DIRS = {"aes", "sha1_mb", "sha256_mb", "sha512_mb"}
NONAPPROVED_DIRS = {"md5_mb", "sm3_mb", "mh_sha1", "mh_sha256", "mh_sha1_murmur3_x64_128", "rolling_hash"}
EXEMPT_DIRS = {"fips", "misc"}
GATE = "isal_self_tests"
PURE_CALLS = {"memcmp", GATE}

LEVEL = "proof"
RULE_TEXT = ("R13.1 every effect of an approved isal_ entry point is dominated by the pass edge of the self-test gate and the "
             "fail edge returns ISAL_CRYPTO_ERR_SELF_TEST without effects; R13.2 non-approved entry points return only "
             "ISAL_CRYPTO_ERR_FIPS_INVALID_ALGO and have no effects; R13.3 XTS wrappers compare k1/k2 over the full key extent "
             "before the cipher call; R13.4 isal_self_tests returns 0 only after a passing status or a passing fresh run")


def is_dbg(I):
    return I.op == "call" and (I.callee or "").startswith(("llvm.dbg.", "llvm.lifetime.", "llvm.expect"))


def is_effect(fn, I):
    if I.op in ("call", "invoke"):
        if is_dbg(I):
            return False
        return (I.callee or "") not in PURE_CALLS
    if I.op in ("store", "atomicrmw", "cmpxchg"):
        ptr = I.ops[1] if I.op == "store" else I.ops[0]
        root, _ = fn.ptr_root(ptr)
        if isinstance(root, ir.Inst) and root.op == "alloca":
            return False
        return True
    return False


def find_gates(fn, callee=GATE):
    """[(call, icmp, br, zero_block, nonzero_block)]: conditional branches whose normalised condition is
    `call callee(...) ==/!= 0` (through zext / boolean wrappers / likely(), so that a predicate helper that was
    inlined still shows the comparison)."""
    gates = []
    for B in fn.all_insts():
        if B.op != "br" or not B.raw.get("cond"):
            continue
        nc = ir.norm_cond(fn, B.ops[0])
        if nc is None:
            continue
        val, pred, c = nc
        C = fn.resolve(val)
        for _ in range(4):
            if isinstance(C, ir.Inst) and C.op in ("zext", "sext", "trunc", "freeze"):
                C = fn.resolve(C.ops[0])
        if not (isinstance(C, ir.Inst) and C.op == "call" and C.callee == callee) or c != 0 or pred not in ("eq", "ne"):
            continue
        t, f = B.raw["succ"][0], B.raw["succ"][1]
        nonzero, zero = (t, f) if pred == "ne" else (f, t)
        gates.append((C, fn.resolve(B.ops[0]), B, zero, nonzero))
    return gates


def classify(src):
    d = src.split("/")[0]
    if d in APPROVED_DIRS:
        return "approved"
    if d in NONAPPROVED_DIRS:
        return "nonapproved"
    if d in EXEMPT_DIRS:
        return "exempt"
    return None


def ret_values_from(fn, block_id, prefix):
    vals = []
    for path in ir.iter_paths(fn, block_id, prefix=prefix):
        R = fn.term(fn.bmap[path[-1]])
        if R.op != "ret":
            vals.append(("noret", path))
            continue
        v = ir.eval_on_path(fn, R.ops[0], path) if R.ops else None
        vals.append((v, path))
    return vals


def xts_expected_n(callee):
    bits = 128 if "_128_" in callee else 256 if "_256_" in callee else None
    if bits is None:
        return None
    if "expanded_key" in callee:
        return 16 * (11 if bits == 128 else 15)
    return bits // 8


def _call_of(F, P, val, fk, callee):
    base = P.at(F, val, fk)
    for _ in range(4):
        if isinstance(base, ir.Inst) and base.op in ("zext", "sext", "trunc", "freeze"):
            base = P.at(F, base.ops[0], fk)
    if isinstance(base, ir.Inst) and base.op == "call" and base.callee == callee:
        return base
    return None


def check_approved(chk, src, F, SELF, SAME):
    """R13.1 / R13.3 decided path by path (facts are normalised and resolved along the path, so the gate may sit in
    an inlined helper, behind a status variable or a switch): every effect is preceded by the fact
    isal_self_tests() == 0; after the fact != 0 nothing happens and ISAL_CRYPTO_ERR_SELF_TEST is returned; an XTS
    cipher call is preceded by memcmp(k1, k2, n) != 0 and the equal case returns ISAL_CRYPTO_ERR_XTS_SAME_KEYS."""
    try:
        paths = [P for P in ir.paths_with_facts(F, max_paths=20000) if not P.contradictory(F)]
    except ir.PathLimit:
        chk.broke("path limit in %s" % F.name)
        return
    effects_all = [I for I in F.all_insts() if is_effect(F, I)]
    if not effects_all:
        chk.notes.append("%s has no effects at all" % F.name)
    ngates = len({I.id for I in F.calls(GATE)})
    undominated = None
    fail_eff = None
    fail_ret = None
    internal = [I for I in F.calls() if (I.callee or "").startswith("_XTS_AES_")]
    xts_bad = {IC.id: None for IC in internal}
    xts_seen = {IC.id: False for IC in internal}
    nfail = 0
    ungated_ok = None
    for P in paths:
        passed_at = None
        failed_at = None
        cmp_ne_at = {}
        cmp_eq_at = None
        for (val, pred, c, _t, br, pos), fk in zip(P.facts, P.fact_k):
            if c != 0 or pred not in ("eq", "ne"):
                continue
            G = _call_of(F, P, val, fk, GATE)
            if G is not None:
                if pred == "eq" and passed_at is None:
                    passed_at = pos
                if pred == "ne" and failed_at is None:
                    failed_at = pos
            Cm = _call_of(F, P, val, fk, "memcmp")
            if Cm is not None:
                names = set()
                for o in Cm.ops[:2]:
                    r, _o = F.ptr_root(o)
                    if isinstance(r, dict) and r.get("k") == "a":
                        names.add(F.args[r["n"]].get("name"))
                n = F.const_int(Cm.ops[2])
                if names == {"k1", "k2"}:
                    if pred == "ne":
                        cmp_ne_at.setdefault(n, pos)
                    elif cmp_eq_at is None:
                        cmp_eq_at = pos
        for pos, I in enumerate(P.insts):
            eff = is_effect(F, I)
            anycall = I.op == "call" and not is_dbg(I) and (I.callee or "") not in PURE_CALLS
            if eff and (passed_at is None or passed_at >= pos):
                undominated = undominated or I
            if failed_at is not None and pos > failed_at and (eff or anycall):
                fail_eff = fail_eff or I
            if cmp_eq_at is not None and pos > cmp_eq_at and (eff or anycall):
                for IC in internal:
                    xts_bad[IC.id] = xts_bad[IC.id] or "work is done although the two keys compared equal"
            if I.id in xts_seen:
                xts_seen[I.id] = True
                n_exp = xts_expected_n(I.callee)
                at = cmp_ne_at.get(n_exp)
                if at is None or at >= pos:
                    xts_bad[I.id] = xts_bad[I.id] or ("cipher call is not preceded by memcmp(k1,k2,%s) != 0" % n_exp)
        if passed_at is None and isinstance(P.ret, int) and P.ret == 0:
            ungated_ok = ungated_ok or P.retinst
        if failed_at is not None:
            nfail += 1
            if P.ret != SELF:
                fail_ret = fail_ret or (P.retinst, P.ret)
        if cmp_eq_at is not None and P.ret != SAME:
            for IC in internal:
                xts_bad[IC.id] = xts_bad[IC.id] or ("the equal-keys path returns %r, not ISAL_CRYPTO_ERR_XTS_SAME_KEYS" % (P.ret if isinstance(P.ret, int) else str(P.ret),))
    chk.obligation("R13.1-dom", undominated is None and (ngates >= 1 or not effects_all), key=F.name, sample={"function": F.name, "effects": len(effects_all), "gates": ngates, "paths": len(paths)})
    if undominated is not None or (effects_all and ngates < 1):
        E = undominated or effects_all[0]
        what = E.callee if E.op == "call" else "store"
        chk.finding(Finding("R13.1", src, F.name, "ungated:" + str(what), "%s is reachable without passing the isal_self_tests() == 0 edge (%d gate(s) in function)" % (what, ngates), loc=E.loc()))
    chk.obligation("R13.5", ungated_ok is None, key=(F.name, "success-needs-gate"), sample={"function": F.name})
    if ungated_ok is not None:
        chk.finding(Finding("R13.5", src, F.name, "ungated-success", "a path returns 0 (success) without having passed the isal_self_tests() == 0 edge: the call reports success although the self-tests may have failed or never run", loc=ungated_ok.loc()))
    ok_fail = fail_eff is None and fail_ret is None and SELF is not None and (nfail >= 1 or not effects_all)
    chk.obligation("R13.1-fail", ok_fail, key=(F.name, "fail"), sample={"function": F.name, "failing_gate_paths": nfail})
    if fail_eff is not None:
        chk.finding(Finding("R13.1", src, F.name, "fail-edge-effect:" + (fail_eff.callee or fail_eff.op), "work is done after the self-test gate failed", loc=fail_eff.loc()))
    elif fail_ret is not None:
        chk.finding(Finding("R13.1", src, F.name, "fail-edge-return", "failed self-test gate returns %r, not ISAL_CRYPTO_ERR_SELF_TEST" % (fail_ret[1] if isinstance(fail_ret[1], int) else str(fail_ret[1]),), loc=fail_ret[0].loc()))
    elif effects_all and nfail < 1:
        chk.finding(Finding("R13.1", src, F.name, "no-fail-path", "no path takes the failing edge of the self-test gate", loc="%s:%s" % (F.file, F.line)))
    for IC in internal:
        n_exp = xts_expected_n(IC.callee)
        bad = xts_bad[IC.id] or (None if xts_seen[IC.id] else "the cipher call lies on no feasible path")
        chk.obligation("R13.3", bad is None, key=F.name, sample={"function": F.name, "callee": IC.callee, "n": n_exp})
        if bad is not None:
            chk.finding(Finding("R13.3", src, F.name, "xts-key-compare:" + IC.callee, "%s (expected: memcmp over %s bytes with the equal edge returning ISAL_CRYPTO_ERR_XTS_SAME_KEYS)" % (bad, n_exp), loc=IC.loc()))



def check_self_tests_fn(chk, mods, rule="R13.4"):
    """isal_self_tests (FIPS build): ret 0 only on (status check == 0) or (winner and aes|sha == 0)."""
    M = mods.get("fips/self_tests.c")
    F = M.functions.get(GATE) if M else None
    if not F or F.decl:
        chk.broke("%s: isal_self_tests not found in fips/self_tests.c" % rule)
        return
    SELF = M.enum_value("ISAL_CRYPTO_ERR_SELF_TEST")
    chk_calls = F.calls("asm_check_self_tests_status")
    if len(chk_calls) != 1:
        chk.broke("%s: expected exactly one call of asm_check_self_tests_status, found %d" % (rule, len(chk_calls)))
        return
    C = chk_calls[0]
    n = 0
    for P in ir.paths_with_facts(F, max_paths=5000):
        if P.contradictory(F):
            continue
        path = P.blocks
        R = P.retinst
        v = P.ret
        n += 1
        ok = True
        why = ""
        ran_tests = any(I.op == "call" and I.callee in ("_aes_self_tests", "_sha_self_tests") for I in P.insts)
        if v == 0:
            # justification: a fact "X == 0" holds for X = status (not having run tests) or X = or(aes,sha);
            # branch and switch forms alike (facts are normalised, values resolved along the path)
            just = False
            for (val, pred, k, _t, br, pos), fk in zip(P.facts, P.fact_k):
                if pred != "eq" or k != 0:
                    continue
                base = P.at(F, val, fk)
                for _ in range(4):
                    if isinstance(base, ir.Inst) and base.op in ("zext", "sext", "trunc", "freeze"):
                        base = P.at(F, base.ops[0], fk)
                if isinstance(base, ir.Inst) and base.id == C.id and not ran_tests:
                    just = True
                if isinstance(base, ir.Inst) and base.op == "or" and ran_tests:
                    srcs = [P.at(F, o, fk) for o in base.ops]
                    names = sorted((s_.callee or "") for s_ in srcs if isinstance(s_, ir.Inst) and s_.op == "call")
                    if names == ["_aes_self_tests", "_sha_self_tests"]:
                        just = True
            ok = just
            why = "returns 0 without a passing status or a passing fresh run"
        elif v != SELF:
            ok = False
            why = "returns %r, neither 0 nor ISAL_CRYPTO_ERR_SELF_TEST" % (v,)
        chk.obligation(rule, ok, key=("isal_self_tests", tuple(path)), sample={"function": GATE, "path": path, "returns": v if isinstance(v, int) else str(v)})
        if not ok:
            chk.finding(Finding(rule, "fips/self_tests.c", GATE, "ret-on-path", why, loc=R.loc(), detail={"path": path}))
    if n < 3:
        chk.broke("%s: isal_self_tests has %d paths, expected >= 3" % (rule, n))


def strip_expect(F, cond):
    return ir.norm_cond(F, cond)


def run(chk):
    units, stats = build.build("fips", only=lambda u: u["kind"] == "c")
    mods = ir.load_modules(units)
    chk.extra["build"] = stats
    chk.trusted += ["clang-14 -O0 + mem2reg IR reflects the C source's control flow", "Makefile.unx FIPS_MODE=y flag set"]
    chk.assumptions += ["approved / non-approved classification is by unit directory, as in the property statement",
                        "memcmp and isal_self_tests are the only calls allowed before the gate"]
    counts = {"approved": 0, "nonapproved": 0, "exempt": 0}
    any_mod = next(iter(mods.values()))
    for src, M in sorted(mods.items()):
        SELF = M.enum_value("ISAL_CRYPTO_ERR_SELF_TEST")
        INVAL = M.enum_value("ISAL_CRYPTO_ERR_FIPS_INVALID_ALGO")
        SAME = M.enum_value("ISAL_CRYPTO_ERR_XTS_SAME_KEYS")
        for F in sorted(M.defined(), key=lambda f: f.name):
            if not F.name.startswith("isal_") or F.local:
                continue
            cls = classify(src)
            if cls is None:
                chk.broke("isal_ entry point %s in unclassified directory %s" % (F.name, src))
                continue
            counts[cls] += 1
            if cls == "exempt":
                continue
            if cls == "nonapproved":
                effects = [I for I in F.all_insts() if is_effect(F, I) or (I.op == "call" and not is_dbg(I))]
                vals = ret_values_from(F, F.entry.id, ())
                bad = [v for v, p in vals if v != INVAL]
                ok = not effects and not bad and INVAL is not None
                chk.obligation("R13.2", ok, key=F.name, sample={"function": F.name, "returns": [v if isinstance(v, int) else str(v) for v, p in vals][:4]})
                if effects:
                    chk.finding(Finding("R13.2", src, F.name, "effect:" + (effects[0].callee or effects[0].op), "non-approved entry point has an effect in the FIPS build", loc=effects[0].loc()))
                elif bad or INVAL is None:
                    chk.finding(Finding("R13.2", src, F.name, "return-value", "non-approved entry point may return %r instead of ISAL_CRYPTO_ERR_FIPS_INVALID_ALGO" % (bad[:1],), loc="%s:%s" % (F.file, F.line)))
                continue
            # approved
            check_approved(chk, src, F, SELF, SAME)
    check_self_tests_fn(chk, mods)
    # R13.4 continued: the status the gate reads starts as NOT_DONE (shared with C17/P0)
    import x86
    import c17
    allunits, _st = build.build("fips")
    lib = x86.Library([u for u in allunits if u["src"].startswith("fips/")])
    st = c17.find_status(lib)
    if st is None:
        chk.broke("self_test_status not found")
    else:
        ok0, msg0 = c17.initial_state(*st)
        chk.obligation("R13.4", ok0, key="initial-state", sample={"what": msg0})
        if not ok0:
            chk.finding(Finding("R13.4", "fips/asm_self_tests.asm", "asm_check_self_tests_status", "initial-state", msg0, loc="fips/asm_self_tests.asm"))
    chk.floor("approved isal_ entry points", counts["approved"], 50)
    chk.floor("non-approved isal_ entry points", counts["nonapproved"], 19)
    chk.floor("exempt isal_ entry points", counts["exempt"], 3)
    chk.floor("R13.3 XTS wrappers", chk.obligations.get("R13.3", [0, 0])[0], 8)
    chk.extra["entry_points"] = counts
    return ("IR dominance analysis of all %d isal_ entry points of the FIPS_MODE build (%d approved, %d non-approved, %d exempt): "
            "gate-edge dominance of every call/store, constant return values on the fail edge, XTS memcmp extents." % (sum(counts.values()), counts["approved"], counts["nonapproved"], counts["exempt"]))
