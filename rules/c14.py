"""C14 - SAFE_DATA: no key material left in vector registers or dead stack after AES calls.

Engine: x86 secrecy-class dataflow (lib/secrecy.py) on every CPU-specific AES entry point named by an AES
dispatcher, in the default build (-DSAFE_DATA), plus the gcc -O2 objects of aes/*.c for stack buffers.

R14.1 at every ret / tail jump of every AES entry point no segment of any vector register is PSD (purely
      secret-derived: computed from key / key-schedule / GHASH-key / XTS-tweak loads only).
R14.2 at every such exit no slot of a stack frame the function created is PSD.
R14.3 a C stack buffer whose address is handed to a callee that stores PSD data through that argument is
      overwritten on every path to ret by stores that survive optimisation (checked on the -O2 object).
R14.4 the build enables SAFE_DATA by default: every unit's command line carries -DSAFE_DATA.
Data that mixes in caller data (AES state, GHASH accumulator, ciphertext spills) is MIXED and is not one of the
property's listed secrets.
"""
import collections
import re

import build
import ir
import par
import roles
import x86
import absint
import secrecy
import c12
import c18
import c19
from report import Finding

LEVEL = "proof"
RULE_TEXT = __doc__.split("\n\n", 2)[2].replace("\n      ", " ")
ARGROOTS = ["RDI", "RSI", "RDX", "RCX", "R8", "R9"] + ["ARG@%d" % (8 + 8 * k) for k in range(10)]
WIPE_CALLS = {"memset": ("RDI", "RDX"), "__memset_chk": ("RDI", "RDX"), "explicit_bzero": ("RDI", "RSI"), "bzero": ("RDI", "RSI"), "memset_s": ("RDI", "RCX")}

_P1 = {}


def phase1(lib, key):
    if key in _P1:
        return _P1[key]
    ip = absint.Interp(lib, lambda t, c=None: c19.summary_of(lib, t, c), keep_regs=True)
    r = ip.run(lib.func(key))
    _P1[key] = r
    return r


def make_role(names):
    m = {}
    for k, n in enumerate(names or []):
        if k < len(ARGROOTS):
            m[ARGROOTS[k]] = roles.role_class(n)
    return lambda root: m.get(root, "data")


_SEC = {}


def sec_summary(lib, key, names):
    """psd_arg_stores of function `key` analysed with argument role names `names`."""
    ck = (key, tuple(names or ()))
    if ck in _SEC:
        return _SEC[ck]
    _SEC[ck] = {}
    f = lib.func(key)
    si = secrecy.SecInterp(lib, f, phase1(lib, key), make_role(names))
    r = si.run()
    _SEC[ck] = r.psd_arg_stores
    return r.psd_arg_stores


def confirm_on_skeleton(lib, f, names, p1, call_handler, pboff):
    """(reproduced?, number of concrete paths replayed)"""
    import lenrun
    lens = list(range(1, 81)) + [16 * k + r for k in (5, 7, 8, 9, 12, 15, 16, 17, 24, 31, 32, 33, 40, 47, 48, 49, 50, 64, 65) for r in (0, 1, 15)]
    if "cbc" in f.name.lower():
        lens = list(range(16, 641, 16))
    elif "XTS" in f.name:
        lens = list(range(16, 300))
    pbs = (0, 8) if "_update_" in f.name else (0,)
    # the other scalar arguments select paths too (a 12-byte AAD and the tag lengths have their own code)
    combos = [(L_, 20, 16) for L_ in lens]
    if "gcm" in f.name:
        combos += [(L_, A_, T_) for L_ in (1, 16, 100) for A_ in (0, 1, 12, 16, 33) for T_ in (8, 12, 16)]
    npaths = 0
    for PB in pbs:
        for (L, AAD_, TAG_) in combos:
            entry = {}
            sargs = {}
            for k, nm in enumerate(names or []):
                if nm is None:
                    continue
                isptr = nm not in ("len", "len_bytes", "N", "aad_len", "auth_tag_len")
                v = ("p", nm, 0) if isptr else (L if nm in ("len", "len_bytes", "N") else TAG_ if nm == "auth_tag_len" else AAD_)
                if k < 6:
                    entry[ARGROOTS[k]] = v
                else:
                    sargs[8 + 8 * (k - 6)] = v

            def hook(i, a, size, _pb=PB):
                if a[0] == "p" and a[1] == "sp" and a[2] in sargs and size == 8:
                    return sargs[a[2]]
                if a[0] == "p" and a[1] == "context_data" and a[2] == pboff and size == 8:
                    return _pb
                return None
            m = lenrun.Machine(lib, f, entry, mem_hook=hook)
            m.record_paths = True
            rr = m.run()
            for path in getattr(rr, "paths", []) or []:
                npaths += 1
                si = secrecy.SecInterp(lib, f, p1, make_role(names), call_handler=call_handler)
                st = ({r_: secrecy.CONST for r_ in x86.G64}, {}, {})
                for n_, b in enumerate(path):
                    si.block(b, st, n_ == len(path) - 1)
                if si.res.stack_findings:
                    return True, npaths
    return False, npaths


def worker(lib, objname, extra):
    cand_roles = extra["cand_roles"]      # function name -> (iface, [role names])
    iface_roles = extra["iface_roles"]
    o = lib.by_name[objname]
    out = {"findings": [], "broken": [], "entries": 0, "ins": 0, "exits": 0, "psd_loads": 0, "spills": 0, "unknown_loads": 0, "samples": [], "cfuncs": 0, "poisoned": 0, "wipes": 0}

    def add(rule, fn, construct, msg, addr, sec):
        out["findings"].append({"rule": rule, "obj": objname, "function": fn, "construct": construct, "message": msg, "loc": o.line_of(sec, addr) or ("%s+%#x" % (objname, addr))})
    for key, name in lib.entry_list:
        if key[0] != objname:
            continue
        is_cand = name in cand_roles
        is_c = o.kind == "c"
        if not is_cand and not is_c:
            continue
        f = lib.func(key)
        p1 = phase1(lib, key)
        for b in p1.broken:
            out["broken"].append("%s::%s %s" % (objname, name, b))
        if is_cand:
            iface, names = cand_roles[name]
        else:
            names = iface_roles.get(name)
            iface = name
        state = {"poisoned": 0}

        def call_handler(si, i, st, final, _key=key, _p1=p1, _state=state):
            gpr, vec, slots = st
            tgt = None
            args = None
            for (ci, t, a) in _p1.callargs:
                if ci.addr == i.addr:
                    tgt, args = t, a
            for r in x86.CALLER_SAVED:
                gpr[r] = secrecy.CONST
            for idx in range(32):
                vec[idx] = (secrecy.MIXED,) * 3
            if tgt is None or args is None:
                return
            if tgt[0] == "ext":
                w = WIPE_CALLS.get(tgt[1])
                if w:
                    dst = args.get(w[0])
                    ln = args.get(w[1])
                    if dst is not None and dst[0] in ("sp", "fr") and ln is not None and ln[0] == "const":
                        si.store_mem(st, i, dst, False, ln[1], secrecy.ZERO)
                return
            if tgt[0] != "func":
                return
            tname = lib.entries_by_key.get(tgt[1], "")
            tn = iface_roles.get(tname)
            cands = [tgt[1]]
            if c19.is_stub(lib, tgt[1]):
                cands = c18.stub_candidates(lib, tgt[1]) or []
            psd = {}
            for ck in cands:
                for root, ext in sec_summary(lib, ck, tn).items():
                    psd[root] = max(psd.get(root, 0), ext)
            for root, ext in psd.items():
                v = args.get(root)
                if v is not None and v[0] in ("sp", "fr"):
                    si.store_mem(st, i, v, False, min(ext, 4096), secrecy.PSD)
                    if final:
                        _state["poisoned"] += 1
        si = secrecy.SecInterp(lib, f, p1, make_role(names), call_handler=call_handler)
        r = si.run()
        out["entries" if is_cand else "cfuncs"] += 1
        out["ins"] += r.ins
        out["exits"] += r.exits
        out["psd_loads"] += r.psd_loads
        out["spills"] += r.spills_psd
        out["unknown_loads"] += r.unknown_loads
        out["poisoned"] += state["poisoned"]
        out["wipes"] += r.wipes
        for b in r.broken:
            out["broken"].append(b)
        regs = collections.OrderedDict()
        for (i, kind, rn) in r.reg_findings:
            regs.setdefault(rn, (i, kind))
        for rn, (i, kind) in regs.items():
            add("R14.1", name, rn, "%s still holds purely key-derived data at %s `%s` (no clearing write on some path)" % (rn, kind, i.text.strip()), i.addr, key[1])
        if r.stack_findings and is_cand and not is_c:
            # The fixpoint joins paths.  An own-frame report is kept only if it is reproduced on a concrete path: the
            # length skeleton (lib/lenrun.py) supplies, for a dense grid of lengths, the block sequence each length
            # selects, and the same transfer functions are run along it without joins.  (The GCM bodies have two
            # correlated tests - "the next eight counter blocks are prepared unless fewer than 128 bytes remain" and
            # "the eight-block loop is entered only if 128 or more remain" - whose contradictory combination parks
            # whatever xmm1-xmm8 last held.)
            confirmed, npaths = confirm_on_skeleton(lib, f, names, p1, call_handler, extra.get("pblock_off", 80))
            out["skeleton_paths"] = out.get("skeleton_paths", 0) + npaths
            if npaths and not confirmed:
                out["unconfirmed"] = out.get("unconfirmed", 0) + 1
                out.setdefault("unconfirmed_names", []).append(name)
                r.stack_findings = []
        if r.stack_findings:
            i, kind, bad = r.stack_findings[0]
            allbad = sorted({b for (_i, _k, bl) in r.stack_findings for b in bl}, key=repr)
            rule = "R14.3" if is_c else "R14.2"
            desc = ", ".join("%s%+d..%+d" % ("rsp0" if kk[0] == "sp" else "frame", kk[-1] if kk[-1] != "*" else 0, (kk[-1] if kk[-1] != "*" else 0) + sz) for kk, sz in allbad[:6])
            add(rule, name, "own-stack", "%d stack slot(s) of the function's own frame still hold purely key-derived data at %s `%s` (%s%s)" % (len(allbad), kind, i.text.strip(), desc, ", ..." if len(allbad) > 6 else ""), i.addr, key[1])
        if is_cand and len(out["samples"]) < 2:
            out["samples"].append({"function": name, "interface": iface, "roles": names, "instructions": r.ins, "exits": r.exits, "loads_of_key_material": r.psd_loads, "psd_spills_to_stack": r.spills_psd, "clearing_stack_stores": r.wipes})
    return out


def run(chk):
    units, stats = build.build("default")
    lib = x86.Library(units)
    chk.extra["build"] = stats
    chk.trusted += ["LLVM 14 MC operand tables (which registers an instruction reads and writes)", "the role dictionary in lib/roles.py (parameter names -> key / tweak / data), fed from the repository's own wrappers"]
    chk.assumptions += ["a value that mixes in caller data is not one of the property's listed secrets (AES round state, GHASH accumulator, ciphertext spills)",
                        "general-purpose registers are outside the property's statement (vector registers and stack only); their count at exits is reported",
                        "reading a never-written vector register yields caller data"]
    # R14.4
    nosafe = [u["src"] for u in units if "-DSAFE_DATA" not in u["flags"]]
    chk.obligation("R14.4", not nosafe, key="safe-data-default", sample={"units": len(units), "without_SAFE_DATA": nosafe[:5]})
    if nosafe:
        chk.finding(Finding("R14.4", "make.inc", "build", "SAFE_DATA-default", "%d unit(s) are built without -DSAFE_DATA in the default configuration (%s ...)" % (len(nosafe), nosafe[:3]), loc="make.inc"))
    mods = ir.load_modules([u for u in units if u["kind"] == "c" and u["src"].startswith(("aes/", "fips/"))])
    iface_roles = roles.interface_roles(mods)
    cand_roles = {}
    n_disp = 0
    for key, name in lib.entry_list:
        if not name.endswith("_dispatch_init"):
            continue
        o = lib.by_name[key[0]]
        if not (o.src or "").startswith("aes/"):
            continue
        n_disp += 1
        iface = name[:-len("_dispatch_init")]
        try:
            paths = c12.ladder_paths(lib, lib.func(key), None)
        except c12.Unmodelled as e:
            chk.broke("%s: %s" % (name, e))
            continue
        names = iface_roles.get(iface)
        if names is None:
            # an interface nobody calls from C (no prototype anywhere): inherit the roles of the interface whose
            # name is its longest proper prefix (e.g. _aes_keyexp_128_enc <- _aes_keyexp_128); reported in the evidence
            pref = sorted((k for k in iface_roles if iface.startswith(k + "_")), key=len)
            if pref:
                names = iface_roles[pref[-1]]
                iface_roles[iface] = names
                chk.extra.setdefault("roles_inherited_from_prefix_interface", {})[iface] = pref[-1]
        if names is None:
            chk.broke("no C call site gives the argument roles of %s" % iface)
            continue
        for (facts, stored, addr) in paths:
            if isinstance(stored, tuple) and stored[1] and stored[1][0] == "addr":
                cand_roles.setdefault(stored[1][1], (iface, names))
    chk.floor("AES dispatchers", n_disp, 42)
    chk.floor("AES CPU-specific entry points", len(cand_roles), 143)
    keyed = sum(1 for (i, n) in cand_roles.values() if any(roles.role_class(x) in ("key", "tweak") for x in n))
    chk.floor("entry points with a key/tweak-role argument", keyed, 143)
    objs = sorted({lib._by_name[c][0] for c in cand_roles if c in lib._by_name} | {o.name for o in lib.objs if o.kind == "c" and (o.src or "").startswith("aes/")})
    res = par.map_objects(lib, worker, objs, extra={"cand_roles": cand_roles, "iface_roles": iface_roles})
    tot = collections.Counter()
    for objname in sorted(res):
        r = res[objname]
        for k in ("entries", "ins", "exits", "psd_loads", "spills", "unknown_loads", "cfuncs", "poisoned", "wipes"):
            tot[k] += r[k]
        for b in r["broken"]:
            chk.broke(b)
        for fd in r["findings"]:
            chk.finding(Finding(fd["rule"], fd["obj"], fd["function"], fd["construct"], fd["message"], loc=fd["loc"]))
        for s in r["samples"]:
            if len(chk.samples) < 10:
                chk.samples.append(dict(rule="R14.1/2", **s))
    nf = tot["entries"]
    badf1 = {f.function for f in chk.findings if f.rule == "R14.1"}
    badf2 = {f.function for f in chk.findings if f.rule == "R14.2"}
    badf3 = {f.function for f in chk.findings if f.rule == "R14.3"}
    chk.obligations["R14.1"] = [nf, nf - len(badf1)]
    chk.obligations["R14.2"] = [nf, nf - len(badf2)]
    chk.obligations["R14.3"] = [tot["cfuncs"], tot["cfuncs"] - len(badf3)]
    for c in cand_roles:
        chk.distinct.add(("entry", c))
    chk.floor("entry points analysed", nf, 143)
    chk.floor("loads of key material seen", tot["psd_loads"], 2000)
    chk.extra.update({"entry_points": nf, "instructions": tot["ins"], "exits": tot["exits"], "loads_of_key_material": tot["psd_loads"], "psd_spills_to_stack": tot["spills"],
                      "loads_with_unknown_address_treated_as_data": tot["unknown_loads"], "c_functions_checked": tot["cfuncs"], "stack_buffers_poisoned_by_callee_summary": tot["poisoned"],
                      "clearing_stack_stores": tot["wipes"], "interface_roles": {k: v for k, v in sorted(iface_roles.items()) if k.startswith(("_aes", "_XTS"))}})
    if tot["cfuncs"] and tot["poisoned"] < 1:
        chk.broke("R14.3 matched no stack buffer handed to a key-writing callee (expected at least the GCM key pre-computation)")
    # positive control: a tiny function that returns with a key in xmm1 and on the stack
    import selftest_x86
    ctl = selftest_x86.control_c14()
    chk.extra["positive_control"] = ctl
    if not ctl.get("ok"):
        chk.broke("positive control not flagged: %s" % ctl)
    return ("Secrecy dataflow over %d AES entry points (%d instructions, %d exits, %d loads of key material, %d key-derived spills) and %d C functions of aes/: "
            "no vector-register segment and no own-frame stack slot is purely key-derived at any exit." % (nf, tot["ins"], tot["exits"], tot["psd_loads"], tot["spills"], tot["cfuncs"]))
