"""C15 (partial) - hash length accounting stays exact across the 2^29 / 2^32 byte totals.

Decided (IR, every built *_ctx_*.c unit): the running total and the padded bit length are computed without
narrowing below 64 bits.  NOT decided: the digest itself (C01) and the flush side of the managers' lane-word packing.

R15.1 the member total_length of every hash context struct is a 64-bit integer (DWARF).
R15.2 every store to total_length is the constant 0 or `load total_length + zext(len)` as a 64-bit add; no value
      derived from a load of total_length is truncated below 64 bits except after masking with a constant that
      fits the narrower type (the block-offset computation); the *8 / <<3 that forms the bit length is a 64-bit
      operation and reaches the stored length field of the padding.
R15.6 no 32-bit sum with the caller's length: in the ctx layer no i32 add / mul / shl has an operand that is the raw
      `len` argument (or what is left of it after subtracting consumed bytes): `partial + len > BLOCK` wraps for
      len near 2^32 and then copies 4 GiB into the partial-block buffer; the layer bounds len only by
      comparing it (`len < BLOCK - partial`) or widens first.
R15.7 lane-word head-room: each assembly submit manager loads job->len (a block count, at most (2^32-1) >> log2
      (block size) after the ctx layer's shift) and packs it as (len << k) | lane into a 32-bit lens[] word; k must
      not exceed log2(block size), or block counts the API admits no longer fit and the job is cut short.
R15.4 in every assembly manager the minimum over the packed lane-length words is an unsigned minimum (a single
      submit of 2^31 bytes or more sets bit 31 of its word).
R15.5 the store of the bit length into the padding that the C source asks for survives in the object built with the
      real flags: some instruction attributed to that source line writes memory (the type-punned uint64_t store into
      a byte buffer is undefined behaviour that -O2 may delete; lib/survive.py).
R15.3 in the SHA-512 hash_pad the upper 8 bytes of the 16-byte length field are written (zero) together with
      the lower 8 (synchronous base variant: zero-fill loop, not judged).
"""
import re

import build
import ir
from report import Finding
from c13 import is_dbg

LEVEL = "other"
RULE_TEXT = __doc__.split("\n\n", 2)[2].replace("\n      ", " ")
CTX_UNIT = re.compile(r"^(sha1|sha256|sha512|md5|sm3)_mb/\w*_ctx_\w+\.c$")


def is_total_length_ptr(F, p):
    fld = F.field(p)
    return bool(fld and fld[1] and fld[1][-1][1] == "total_length")


def bits(ty):
    return int(ty[1:]) if ty and ty.startswith("i") and ty[1:].isdigit() else None


INF = float("inf")


def upper_bound(F, v, depth=0):
    """Unsigned upper bound of an SSA value from masks, zero-extensions and additions of bounded terms."""
    if depth > 24:
        return INF
    I = F.resolve(v)
    if isinstance(I, dict):
        c = F.const_int(I)
        if c is not None:
            return c if c >= 0 else INF
        if I.get("k") == "a":
            b = bits(F.args[I["n"]]["ty"])
            return (1 << b) - 1 if b else INF
        return INF
    b = bits(I.ty)
    top = (1 << b) - 1 if b else INF
    if I.op == "and":
        return min(upper_bound(F, I.ops[0], depth + 1), upper_bound(F, I.ops[1], depth + 1), top)
    if I.op in ("zext", "trunc", "freeze"):
        return min(upper_bound(F, I.ops[0], depth + 1), top)
    if I.op == "add":
        return min(upper_bound(F, I.ops[0], depth + 1) + upper_bound(F, I.ops[1], depth + 1), INF)
    if I.op == "or":
        a, c = upper_bound(F, I.ops[0], depth + 1), upper_bound(F, I.ops[1], depth + 1)
        if a == INF or c == INF:
            return top
        return min((1 << max(int(a).bit_length(), int(c).bit_length())) - 1, top)
    if I.op == "udiv":
        c = F.const_int(I.ops[1])
        a = min(upper_bound(F, I.ops[0], depth + 1), top)
        if c and a != INF:
            return int(a) // c
        return a
    if I.op == "urem":
        c = F.const_int(I.ops[1])
        if c:
            return c - 1
        return min(upper_bound(F, I.ops[0], depth + 1), top)
    if I.op == "lshr":
        c = F.const_int(I.ops[1])
        a = min(upper_bound(F, I.ops[0], depth + 1), top)
        if c is not None and a != INF:
            return int(a) >> c
        return a
    if I.op == "call" and getattr(F, "module", None) is not None:
        G = F.module.functions.get(I.callee or "")
        if G is not None and not G.decl and depth < 8:
            rets = [R for R in G.all_insts() if R.op == "ret" and R.ops]
            if rets:
                return min(max(upper_bound(G, R.ops[0], depth + 8) for R in rets), top)
    if I.op == "shl":
        c = F.const_int(I.ops[1])
        a = upper_bound(F, I.ops[0], depth + 1)
        if c is not None and a != INF:
            return int(a) << c
        return INF
    if I.op == "phi":
        m = 0
        for inc in I.incoming:
            if isinstance(F.resolve(inc["v"]), ir.Inst) and F.resolve(inc["v"]).id == I.id:
                continue
            m = max(m, upper_bound(F, inc["v"], depth + 4))
        return m
    if I.op == "select":
        return max(upper_bound(F, I.ops[1], depth + 1), upper_bound(F, I.ops[2], depth + 1))
    return top if I.op in ("load", "call") and b and b <= 8 else INF if not b else (top if b < 64 and I.op in ("load",) else INF)


def run(chk):
    units, stats = build.build("default", only=lambda u: u["kind"] == "c")
    mods = {s: m for s, m in ir.load_modules(units).items() if CTX_UNIT.match(s)}
    chk.extra["build"] = stats
    chk.trusted += ["clang-14 -O0 + mem2reg IR carries the C integer conversions explicitly (zext/trunc)", "DWARF member types"]
    chk.assumptions += ["only the ctx layer is decided; the digest (C01) and the assembly managers' block-count packing are not"]
    chk.floor("ctx units", len(mods), 28)
    n_adds = n_len_stores = n_raw_fn = n_joblen = 0
    for src, M in sorted(mods.items()):
        # ---- R15.1
        found = False
        for sname, ds in M.distructs.items():
            for m in ds["members"]:
                if m["name"] == "total_length" and "HASH_CTX" in sname:
                    found = True
                    ok = m.get("basebits") == 64 and m["size"] == 8
                    chk.obligation("R15.1", ok, key=(src, sname), sample={"unit": src, "struct": sname, "member_type": m["type"], "bits": m.get("basebits")})
                    if not ok:
                        chk.finding(Finding("R15.1", src, sname, "total_length-width", "total_length is a %s-bit %s; the running total must be 64 bits wide" % (m.get("basebits"), m["type"]), loc=src))
        if not found:
            chk.broke("%s: no context struct with a total_length member in DWARF" % src)
            continue
        fnmap = M.functions
        # ---- R15.2 stores
        for F in M.defined():
            for I in F.all_insts():
                if I.op == "store" and is_total_length_ptr(F, I.ops[1]):
                    v = F.resolve(I.ops[0])
                    c = F.const_int(v) if isinstance(v, dict) else None
                    ok = False
                    why = ""
                    if c == 0:
                        ok = True
                    elif isinstance(v, ir.Inst) and v.op == "add" and v.ty == "i64":
                        a, b = F.resolve(v.ops[0]), F.resolve(v.ops[1])
                        lds = [x for x in (a, b) if isinstance(x, ir.Inst) and x.op == "load" and is_total_length_ptr(F, x.ops[0])]
                        oth = [x for x in (a, b) if x not in lds]
                        if len(lds) == 1 and len(oth) == 1:
                            o = oth[0]
                            if isinstance(o, ir.Inst) and o.op == "zext" and o.ty == "i64":
                                ok = True
                                n_adds += 1
                            elif isinstance(o, dict) and o.get("k") == "a" and F.args[o["n"]]["ty"] == "i64":
                                ok = True
                                n_adds += 1
                            else:
                                why = "the addend is not a zero-extended length"
                        else:
                            why = "not of the form total_length + len"
                    else:
                        why = "stored value is a %s %s" % (getattr(v, "ty", "?"), getattr(v, "op", "?"))
                    chk.obligation("R15.2-store", ok, key=(src, F.name, I.id), sample={"unit": src, "function": F.name, "line": I.line})
                    if not ok:
                        chk.finding(Finding("R15.2", src, F.name, "total_length-update", "update of total_length is not a 64-bit `total_length + zext(len)`: %s" % why, loc=I.loc()))
        # ---- R15.7 (IR half): the block count handed to the manager is bounded by the shift in the ctx layer
        log2blk = 7 if src.startswith("sha512_mb/") else 6
        for F in M.defined():
            for I in F.all_insts():
                if I.op != "store":
                    continue
                fld = F.field(I.ops[1])
                if not (fld and fld[1] and len(fld[1]) >= 2 and fld[1][-1][1] == "len" and fld[1][-2][1] == "job"):
                    continue
                ub = upper_bound(F, I.ops[0])
                ok = ub <= (0xFFFFFFFF >> log2blk)
                n_joblen += 1
                chk.obligation("R15.7-ctx", ok, key=(src, F.name, I.id), sample={"unit": src, "function": F.name, "line": I.line, "upper_bound": ub if ub != INF else "unbounded"})
                if not ok:
                    chk.finding(Finding("R15.7", src, F.name, "job-len-bound", "the block count stored into job.len is not bounded by 2^%d (bound found: %s): the managers pack it into a 32-bit lane word above the lane index" % (32 - log2blk, ub if ub != INF else "none"), loc=I.loc()))
        # ---- R15.6 raw 32-bit length in wrapping arithmetic
        for F in M.defined():
            la = [n for n, a in enumerate(F.args) if a.get("name") == "len" and a.get("ty") == "i32"]
            if not la:
                continue
            raw = set()
            rawarg = la[0]

            def is_raw(v):
                if isinstance(v, dict):
                    if v.get("k") == "a":
                        return v.get("n") == rawarg
                    if v.get("k") == "i":
                        return v["id"] in raw
                return False
            changed = True
            insts = list(F.all_insts())
            while changed:
                changed = False
                for I in insts:
                    if I.id in raw or I.ty != "i32":
                        continue
                    if I.op == "sub" and is_raw(I.ops[0]):
                        raw.add(I.id)
                        changed = True
                    elif I.op == "phi" and I.ops and all(is_raw(o) or (o.get("k") == "i" and o["id"] == I.id) for o in I.ops):
                        raw.add(I.id)
                        changed = True
            n_raw_fn += 1
            for I in insts:
                if I.ty == "i32" and I.op in ("add", "mul", "shl") and any(is_raw(o) for o in I.ops[:2]):
                    chk.obligation("R15.6", False, key=(src, F.name, I.id))
                    chk.finding(Finding("R15.6", src, F.name, "len-32bit-" + I.op, "a 32-bit %s takes the caller's length (up to 2^32-1) as an operand: the result wraps for long inputs and the bound or copy length derived from it is wrong" % I.op, loc=I.loc()))
            chk.obligation("R15.6", True, key=(src, F.name), sample={"unit": src, "function": F.name, "values_carrying_the_raw_length": len(raw) + 1})
        # ---- R15.2 taint from loads of total_length
        tainted = {}      # (fname, inst id | ('a', n)) -> origin description
        work = []
        for F in M.defined():
            for I in F.all_insts():
                if I.op == "load" and is_total_length_ptr(F, I.ops[0]):
                    tainted[(F.name, I.id)] = I
                    work.append((F, I))
        truncs = []
        shifts = []
        len_stores = []
        seen_args = set()
        while work:
            F, V = work.pop()
            for U in F.users(V):
                key = (F.name, U.id)
                if U.op == "store":
                    if F.resolve(U.ops[0]) is V or (isinstance(V, dict) and U.ops[0] == V):
                        len_stores.append((F, U))
                    continue
                if U.op == "call":
                    if is_dbg(U):
                        continue
                    cal = U.callee or ""
                    if cal.startswith("llvm.bswap"):
                        if key not in tainted:
                            tainted[key] = U
                            work.append((F, U))
                        continue
                    G = fnmap.get(cal)
                    if G is not None and not G.decl:
                        for k in range(U.raw.get("nargs", 0)):
                            a = F.resolve(U.ops[k])
                            if a is V or U.ops[k] == V:
                                if (G.name, k) not in seen_args:
                                    seen_args.add((G.name, k))
                                    work.append((G, {"k": "a", "n": k}))
                    continue
                if U.op == "trunc":
                    nb = bits(U.ty)
                    lossless = bool(nb) and upper_bound(F, U.ops[0]) < (1 << nb)
                    truncs.append((F, U, lossless))
                    continue
                if U.op in ("shl", "mul"):
                    c = F.const_int(U.ops[1])
                    if (U.op == "shl" and c == 3) or (U.op == "mul" and c == 8):
                        shifts.append((F, U))
                if U.op in ("add", "sub", "and", "or", "xor", "shl", "lshr", "mul", "phi", "select", "zext", "sext", "bitcast", "freeze", "icmp"):
                    if U.op == "icmp":
                        continue
                    if key not in tainted:
                        tainted[key] = U
                        work.append((F, U))
        for (F, U, lossless) in truncs:
            chk.obligation("R15.2-trunc", lossless, key=(src, F.name, U.id), sample={"unit": src, "function": F.name, "line": U.line, "to": U.ty})
            if not lossless:
                chk.finding(Finding("R15.2", src, F.name, "narrowing", "a value derived from total_length is truncated to %s without a mask that makes the truncation lossless (lengths of 2^%s bytes and more are lost)" % (U.ty, bits(U.ty) or "?"), loc=U.loc()))
        ok_shift = [s for s in shifts if s[1].ty == "i64"]
        for (F, U) in shifts:
            chk.obligation("R15.2-bitlen", U.ty == "i64", key=(src, F.name, U.id), sample={"unit": src, "function": F.name, "line": U.line, "type": U.ty})
            if U.ty != "i64":
                chk.finding(Finding("R15.2", src, F.name, "bit-length-width", "the byte-to-bit conversion of the total is a %s operation (must be 64-bit)" % U.ty, loc=U.loc()))
        # the bit length reaches a stored length field
        reached = [1 for (F, S) in len_stores if S.raw.get("size") == 8]
        chk.obligation("R15.2-lenfield", bool(ok_shift) and bool(reached), key=src, sample={"unit": src, "bit_length_ops": len(shifts), "stores_of_derived_length": len(len_stores)})
        if not (ok_shift and reached):
            chk.finding(Finding("R15.2", src, "hash_pad/final", "length-field", "no 64-bit store of (total_length * 8) into the padding was found (the length field is not derived from the 64-bit total)", loc=src))
        n_len_stores += len(reached)
        # ---- R15.3
        if src.startswith("sha512_mb/") and "ctx_base" not in src:
            G = fnmap.get("hash_pad")
            ok = False
            if G is not None and not G.decl:
                zero_st = [I for I in G.all_insts() if I.op == "store" and I.raw.get("size") == 8 and G.const_int(I.ops[0]) == 0]
                len_st = [S for (FF, S) in len_stores if FF.name == "hash_pad"]
                for z in zero_st:
                    for l in len_st:
                        if G.must_pass(l, {z.id}):
                            ok = True
            chk.obligation("R15.3", ok, key=src, sample={"unit": src})
            if not ok:
                chk.finding(Finding("R15.3", src, "hash_pad", "upper-length-bytes", "the upper 8 bytes of SHA-512's 16-byte length field are not zeroed on the path that writes the lower 8", loc=src))
    # ---- R15.4 (object code): the managers' minimum over the packed lane-length words is unsigned
    import x86
    import selftest_x86
    allunits, _s = build.build("default")
    lib = x86.Library([u for u in allunits if u["kind"] == "asm" and re.search(r"_mb_mgr_(submit|flush)_|_sb_mgr_(submit|flush)_", u["src"])])
    n_min = n_mgr = 0
    for key, name in lib.entry_list:
        if not re.match(r"^_\w+_(mb|sb)_mgr_(submit|flush)_\w+$", name):
            continue
        n_mgr += 1
        f = lib.func(key)
        for b in f.blocks.values():
            for i in b:
                base = i.op[1:] if i.op.startswith("V") else i.op
                if base.startswith(("PMINU", "PMINS", "PMAXS")):
                    n_min += 1
                    ok = base.startswith("PMINU")
                    chk.obligation("R15.4", ok, key=(name, i.addr), sample={"function": name, "insn": i.text.strip()})
                    if not ok:
                        chk.finding(Finding("R15.4", f.obj.name, name, "signed-min", "`%s`: the minimum over the packed lane-length words must be unsigned; a submit of 2^31 bytes or more sets the top bit of its word and a signed minimum then picks the wrong lane" % i.text.strip(), loc=f.obj.line_of(f.sec, i.addr)))
    # ---- R15.7 (object code): head-room of the packed lane word
    import absint
    import c19
    from x86 import PARENT
    joblen = {}
    for src, M in mods.items():
        algo = src.split("_mb/")[0]
        for sn, ds in M.distructs.items():
            if sn == "ISAL_%s_JOB" % algo.upper():
                for m in ds["members"]:
                    if m["name"] == "len":
                        joblen[algo] = (m["off"], m["size"])
    n_pack = 0
    for key, name in lib.entry_list:
        mm = re.match(r"^_(sha1|sha256|sha512|md5|sm3)_mb_mgr_submit_\w+$", name)
        if not mm:
            continue
        algo = mm.group(1)
        if algo not in joblen:
            chk.broke("no DWARF layout of the %s job struct (member len)" % algo)
            continue
        loff, lsz = joblen[algo]
        log2blk = 7 if algo == "sha512" else 6
        f = lib.func(key)
        p1 = absint.Interp(lib, lambda t, c=None: c19.summary_of(lib, t, c), keep_regs=True).run(f)
        tags_in = {f.entry: {}}
        work = [f.entry]
        packs = []
        seen_store = set()
        guard = 0
        while work:
            b = work.pop()
            guard += 1
            if guard > 20000:
                chk.broke("%s: lane-word dataflow did not converge" % name)
                break
            st = dict(tags_in[b])
            for i in f.blocks[b]:
                m = p1.maddr.get(i.addr) if i.mem >= 0 else None
                op = i.op
                new = {}
                if m and op in ("MOV32rm",) and m[0][0] == "init" and m[0][1] == "RSI" and m[0][2] == loff and not m[1]:
                    new[PARENT[i.reg(0)]] = 0
                elif i.mem < 0 and op in ("SHL64ri", "SHL32ri") and PARENT.get(i.reg(0)) in st:
                    new[PARENT[i.reg(0)]] = st[PARENT[i.reg(0)]] + ((i.imm(2) or 0) & 63)
                    if op == "SHL32ri":
                        packs.append((i, new[PARENT[i.reg(0)]], 4))
                elif i.mem < 0 and op in ("OR64rr", "OR32rr") and PARENT.get(i.reg(1)) in st and PARENT.get(i.reg(2)) not in st:
                    new[PARENT[i.reg(0)]] = st[PARENT[i.reg(1)]]
                elif i.mem < 0 and op in ("ADD64rr", "ADD32rr") and PARENT.get(i.reg(1)) in st and i.reg(1) == i.reg(2):
                    new[PARENT[i.reg(0)]] = st[PARENT[i.reg(1)]] + 1          # x + x = x << 1
                    if op == "ADD32rr":
                        packs.append((i, new[PARENT[i.reg(0)]], 4))
                elif op in ("LEA64r", "LEA32r", "LEA64_32r") and i.memop() and not i.memop()[4] and i.memop()[2] and PARENT.get(i.memop()[2]) in st \
                        and (not i.memop()[0] or PARENT.get(i.memop()[0]) not in st) and (i.memop()[1] or 1) in (1, 2, 4, 8) and 0 <= (i.memop()[3] or 0) < 64:
                    mo = i.memop()
                    new[PARENT[i.reg(0)]] = st[PARENT.get(mo[2])] + {1: 0, 2: 1, 4: 2, 8: 3}[mo[1] or 1]   # index * scale (+ lane)
                    if op != "LEA64r":
                        packs.append((i, new[PARENT[i.reg(0)]], 4))
                elif i.mem < 0 and op in ("ADD64rr", "ADD32rr") and (PARENT.get(i.reg(1)) in st) != (PARENT.get(i.reg(2)) in st):
                    new[PARENT[i.reg(0)]] = st.get(PARENT.get(i.reg(1)), st.get(PARENT.get(i.reg(2))))
                elif op in ("LEA64r", "LEA32r", "LEA64_32r") and i.memop() and (i.memop()[1] or 1) == 1 and not i.memop()[4] \
                        and (PARENT.get(i.memop()[0]) in st) != (PARENT.get(i.memop()[2]) in st) and 0 <= (i.memop()[3] or 0) < 64:
                    mo = i.memop()
                    new[PARENT[i.reg(0)]] = st.get(PARENT.get(mo[0]), st.get(PARENT.get(mo[2])))
                elif i.mem < 0 and op in ("MOV64rr", "MOV32rr") and PARENT.get(i.reg(1)) in st:
                    new[PARENT[i.reg(0)]] = st[PARENT[i.reg(1)]]
                elif m and i.writes_mem_operand() and op in ("MOV32mr", "MOV64mr"):
                    src_ = i.ops[i.mem + 5] if i.mem + 5 < len(i.ops) else None
                    r = PARENT.get(src_[1]) if src_ and src_[0] == "r" else None
                    fr = absint.roots(m[0])
                    if r in st and fr and "RDI" in {x for x in fr if isinstance(x, str)} and i.addr not in seen_store:
                        seen_store.add(i.addr)
                        packs.append((i, st[r], i.memsize() or 4))
                for r_ in list(i.explicit_defs()) + list(i.idefs):
                    pr = PARENT.get(r_)
                    if pr in st and pr not in new:
                        del st[pr]
                st.update(new)
            for s_ in f.succ.get(b, []):
                old = tags_in.get(s_)
                if old is None:
                    tags_in[s_] = dict(st)
                    work.append(s_)
                else:
                    j = {r: v for r, v in old.items() if st.get(r) == v}
                    if j != old:
                        tags_in[s_] = j
                        if s_ not in work:
                            work.append(s_)
        stores = [p_ for p_ in packs if p_[0].writes_mem_operand()]
        if not stores:
            chk.broke("%s: no store of the packed job length into the manager state was recognised" % name)
            continue
        for (i, k, width) in packs:
            n_pack += 1
            ok = (32 - log2blk) + k <= 8 * width
            chk.obligation("R15.7", ok, key=(name, i.addr), sample={"function": name, "insn": i.text.strip(), "shift": k, "word_bits": 8 * width, "max_block_count_bits": 32 - log2blk})
            if not ok:
                chk.finding(Finding("R15.7", f.obj.name, name, "lane-word-headroom", "`%s`: job->len (up to 2^%d blocks for a submit of 2^32-1 bytes) shifted left by %d does not fit the %d-bit lane word: a single long submit is cut to its low block-count bits and the digest covers only part of the data" % (i.text.strip(), 32 - log2blk, k, 8 * width), loc=f.obj.line_of(f.sec, i.addr)))
    chk.floor("packed lane-word stores / 32-bit shifts judged", n_pack, 20)
    # ---- R15.5 (object code): the bit-length store survives optimisation
    import mhrules
    libc = x86.Library([u for u in allunits if u["kind"] == "c" and CTX_UNIT.match(u["src"])])
    n_surv = mhrules.length_store_survives(chk, "R15.5", libc, mods)
    chk.floor("stores of a block count into job.len", n_joblen, 60)
    chk.floor("ctx functions with a 32-bit len argument", n_raw_fn, 28)
    chk.floor("bit-length stores checked for survival in the object code", n_surv, 28)
    chk.floor("assembly managers scanned for the lane minimum", n_mgr, 40)
    chk.floor("lane-minimum instructions", n_min, 60)
    chk.floor("64-bit total_length updates", n_adds, 28)
    chk.floor("length-field stores", n_len_stores, 28)
    return ("IR def-use analysis of %d ctx units: 64-bit total_length member, %d 64-bit updates, no lossy truncation on any chain from total_length to the padded "
            "bit-length field (%d stores), SHA-512 upper length bytes." % (len(mods), n_adds, n_len_stores))
