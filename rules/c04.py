"""C04 - AES key expansion / AES-CBC: the structural clauses (PARTIAL; schedule and ciphertext values are not decided).

Engine: object code of the 8 key-expansion bodies (128/192/256 x sse/avx, plus the two encrypt-only 128 bodies)
and the 15 CBC bodies named by the dispatchers; straight-line value numbering (terms over uninterpreted
instructions, copy propagation, store-to-load forwarding by (argument, offset, size)) for the key schedules;
phase-1 pointer provenance + lib/align.py for the CBC data buffers.

R04.1 "the matching decryption schedule (reversed, with the inverse-mix-columns transform on the inner rounds)":
      at the function's exit, for every round i of 0..Nr the 16 bytes at exp_key_dec + 16*(Nr-i) hold exactly the
      value stored at exp_key_enc + 16*i for i in {0, Nr} and aesimc of exactly that value for 0 < i < Nr; every
      round slot of both schedules is written.  (Values are terms; equality is syntactic after copy propagation,
      so the rule holds for any round-key values.)
R04.2 "FIPS-197 round constants": the immediates of the aeskeygenassist instructions whose RotWord/Rcon dword
      (dword 3 or 1, selected by the consuming pshufd 0xFF / 0x55) is used are, in dependence order, 01 02 04 08
      10 20 40 80 1b 36 truncated to the number of such steps the key size needs (10 / 8 / 7); aeskeygenassist
      results consumed through the SubWord dword (pshufd 0xAA / 0x00) carry no round constant and are exempt.
R04.3 "CBC ... for any data alignment": in the 15 CBC bodies no alignment-demanding instruction addresses memory
      through the in or out argument (IV and the key structure are documented as 16-byte aligned).
R04.6 "in place or out of place": in the 15 CBC bodies, with the input and output pointers equated, no load through
      the input argument reads bytes that a store through the output argument has already written on some path to
      it - CBC decryption must keep the previous ciphertext block before overwriting it (lib/inplace.py).
R04.7 AES round typestate in the CBC bodies (lib/aesrounds.py, on the path each length selects; lengths 16..640 in
      steps of 16, thorough ..1600): every block stored through out went through the whitening with round key 0 and
      then rounds 1..Nr with the round keys keys+16r in order, the last one in its *last form; no round instruction
      meets a round key out of turn.  Lost track = not judged.
R04.8 CBC chaining: output block j depends on input block j and on input block j-1 (the IV for j = 0) - an
      over-approximating dependence set, presence demanded only.
R04.9 the key schedules end after 16*(Nr+1) bytes: no store through exp_key_enc / exp_key_dec of a key-expansion body
      lies outside [0, 16*(Nr+1)) (the caller's arrays for AES-128 / -192 are shorter than the 240 bytes AES-256 needs).
R04.4 instance floor: 8 key-expansion bodies, 15 CBC bodies, each with the argument list of aes_keyexp.c / aes_cbc.c.
"""
import collections
import re

import absint
import align
import build
import c19
import cands
import inplace
import ir
import x86
from report import Finding

LEVEL = "other"
RULE_TEXT = __doc__.split("\n\n", 2)[2].replace("\n      ", " ")
ARGREGS = ["RDI", "RSI", "RDX", "RCX", "R8", "R9"]
RCON = [0x01, 0x02, 0x04, 0x08, 0x10, 0x20, 0x40, 0x80, 0x1b, 0x36]
RCON_STEPS = {128: 10, 192: 8, 256: 7}
COPY = re.compile(r"^V?(MOVDQU|MOVDQA|MOVAPS|MOVUPS|MOVAPD|MOVUPD)(32|64)?(Z128)?rr(_REV)?$")
LOAD = re.compile(r"^V?(MOVDQU|MOVDQA|MOVAPS|MOVUPS|MOVAPD|MOVUPD|LDDQU)(32|64)?(Z128)?rm$")
STORE = re.compile(r"^V?(MOVDQU|MOVDQA|MOVAPS|MOVUPS|MOVAPD|MOVUPD|MOVNTDQ)(32|64)?(Z128)?mr$")


class Unmodelled(Exception):
    pass


def value_number(f, argnames):
    """Straight-line value numbering of f.  Returns (stores, terms) where stores[root] = list of (seq, off, size, term)."""
    blocks = sorted(f.blocks)
    ins = []
    for b in blocks:
        ins += f.blocks[b]
    for i in ins[:-1]:
        if i.is_branch() or i.is_call() or i.is_ret():
            raise Unmodelled("%s has control flow (`%s`); the key-schedule value numbering handles straight-line code only" % (f.name, i.text.strip()))
    gpr = {r: ("arg", r) for r in x86.G64}
    vec = {}
    stores = collections.defaultdict(list)
    seq = [0]
    keygens = []

    def vterm(r):
        k = x86.vec_of(r)
        return vec.get(k, ("entry-vec", k))

    def mem_addr(i):
        m = i.memop()
        if m is None:
            raise Unmodelled("string instruction `%s`" % i.text.strip())
        base, scale, index, disp, seg = m
        if index or base is None or base == "RIP":
            if base == "RIP" or (base is None and not index):
                return ("const", i.addr), 0
            raise Unmodelled("indexed address in `%s`" % i.text.strip())
        b = gpr.get(x86.PARENT.get(base, base))
        if b is None or b[0] != "arg":
            raise Unmodelled("address register modified before `%s`" % i.text.strip())
        if b[1] == "RSP":
            return ("stack",), disp or 0
        return b[1], disp or 0

    def load(root, off, size):
        if root not in argnames:
            return ("mem", root, off, size)
        over = [(s, o, z, t) for (s, o, z, t) in stores.get(root, []) if o < off + size and off < o + z]
        if over:
            last = over[-1]
            later_partial = [x for x in over if x[0] > last[0]]
            if last[1] == off and last[2] == size and not later_partial:
                # exact forwarding only if no other overlapping store is newer than ... (last is newest by construction)
                newer = [x for x in over if x[0] > last[0]]
                if not newer:
                    # older partial overlaps are fully shadowed by the exact store
                    return last[3]
        return ("mem", root, off, size, tuple(s for (s, o, z, t) in over))

    for i in ins:
        seq[0] += 1
        op = i.op
        if i.is_ret():
            break
        if op.startswith(("ENDBR", "NOOP")):
            continue
        defs = [r for r in list(i.explicit_defs()) + list(i.idefs)]
        srcs = []
        memt = None
        is_store = i.writes_mem_operand()
        if i.mem >= 0 and not op.startswith("LEA"):
            root, off = mem_addr(i)
            size = i.memsize() or 0
            if not is_store:
                memt = load(root, off, size)
        for k in range(i.ndefs, len(i.ops)):
            if i.mem >= 0 and i.mem <= k < i.mem + 5:
                continue
            o = i.ops[k]
            if o[0] == "r" and o[1]:
                if x86.vec_of(o[1]) is not None:
                    srcs.append(vterm(o[1]))
                elif o[1] in x86.PARENT:
                    srcs.append(gpr.get(x86.PARENT[o[1]], ("unk",)))
            elif o[0] == "i":
                srcs.append(("imm", o[1]))
        if is_store:
            vs = [s for s in srcs if s[0] != "imm"]
            if len(vs) != 1:
                raise Unmodelled("store with %d value operands `%s`" % (len(vs), i.text.strip()))
            t = vs[0] if STORE.match(op) else (op, vs[0])
            stores[root].append((seq[0], off, size, t))
            continue
        if COPY.match(op) and len(srcs) == 1:
            t = srcs[0]
        elif LOAD.match(op) and memt is not None:
            t = memt
        else:
            t = (re.sub(r"^V", "", op),) + tuple(srcs) + ((memt,) if memt is not None else ())
        for r in defs:
            k = x86.vec_of(r)
            if k is not None:
                vec[k] = t
            elif r in x86.PARENT:
                gpr[x86.PARENT[r]] = ("unk",)
        if "AESKEYGENASSIST" in op:
            keygens.append((i, t))
    return stores, vec, keygens


def final_slot(stores, root, off):
    """Term of the 16 bytes at root+off at exit, or a description of the partial stores covering them."""
    over = [(s, o, z, t) for (s, o, z, t) in stores.get(root, []) if o < off + 16 and off < o + z]
    if not over:
        return None
    last = over[-1]
    if last[1] == off and last[2] == 16:
        return last[3]
    covered = set()
    for (s, o, z, t) in over:
        covered |= set(range(max(o, off), min(o + z, off + 16)))
    if len(covered) < 16:
        return None
    return ("mem", root, off, 16, tuple(s for (s, o, z, t) in over))


def is_imc_of(t, x):
    return isinstance(t, tuple) and len(t) == 2 and isinstance(t[0], str) and t[0].startswith("AESIMC") and t[1] == x


def subterms(t, depth=0):
    yield t
    if isinstance(t, tuple) and depth < 400:
        for x in t[1:]:
            if isinstance(x, tuple):
                for y in subterms(x, depth + 1):
                    yield y


def rcon_chain(f, keygens, ins_all):
    """[(imm, consumer selector)] for aeskeygenassist results, in program order, with the pshufd selector that
    consumes each (found syntactically: the next instruction reading the destination register)."""
    out = []
    for (i, t) in keygens:
        dst = x86.vec_of(i.explicit_defs()[0])
        imm = None
        for o in i.ops:
            if o[0] == "i":
                imm = o[1] & 0xFF
        sel = None
        started = False
        for j in ins_all:
            if j.addr == i.addr:
                started = True
                continue
            if not started:
                continue
            uses = [x86.vec_of(r) for r in j.explicit_uses()]
            if dst in uses:
                if "PSHUFD" in j.op:
                    for o in j.ops:
                        if o[0] == "i":
                            sel = o[1] & 0xFF
                else:
                    sel = "other:" + j.op
                break
            if dst in [x86.vec_of(r) for r in j.explicit_defs()]:
                break
        out.append((i, imm, sel))
    return out


def run(chk):
    units, stats = build.build("default")
    lib = x86.Library(units)
    chk.extra["build"] = stats
    mods = ir.load_modules([u for u in units if u["kind"] == "c" and u["src"] in ("aes/aes_keyexp.c", "aes/aes_cbc.c", "aes/cbc_pre.c")])
    kcand, nk = cands.candidates(chk, lib, mods, "aes/", ["_aes_keyexp_"])
    ccand, nc = cands.candidates(chk, lib, mods, "aes/", ["_aes_cbc_"])
    chk.floor("key-expansion bodies", len(kcand), 8)
    chk.floor("CBC bodies", len(ccand), 15)
    chk.obligation("R04.4", len(kcand) >= 8 and len(ccand) >= 15, key="floors", sample={"keyexp_bodies": sorted(kcand), "cbc_bodies": sorted(ccand)})
    nbind = cands.binding_rule(chk, "R04.5", lib, ['_aes_cbc_', '_aes_keyexp_'])
    chk.floor("implementations checked for binding ownership", nbind, 1)
    nstores = 0
    nterms = 0
    for name in sorted(kcand):
        iface, sig = kcand[name]
        key = lib._by_name[name]
        key = (key[0], key[1], key[2]) if len(key) >= 3 else key
        f = lib.func_named(name)
        o = f.obj
        m = re.search(r"_(128|192|256)", iface)
        if not m:
            chk.broke("cannot read the key size from interface name %s" % iface)
            continue
        bits = int(m.group(1))
        nr = bits // 32 + 6
        names = [s[0] if s else None for s in sig]
        if len(names) < 2:
            chk.broke("%s: signature %r" % (name, sig))
            continue
        # the object code decides how many pointer arguments the body takes: the enc-only bodies have two
        has_dec = not iface.endswith("_enc")
        argnames = {ARGREGS[0]: names[0] or "key", ARGREGS[1]: (names[1] if len(names) > 1 else None) or "exp_key_enc"}
        if has_dec:
            argnames[ARGREGS[2]] = (names[2] if len(names) > 2 else None) or "exp_key_dec"
        try:
            stores, vec, keygens = value_number(f, argnames)
        except Unmodelled as e:
            chk.broke("%s: %s" % (name, e))
            continue
        ENC, DEC = ARGREGS[1], ARGREGS[2]
        nstores += sum(len(v) for v in stores.values())
        # R04.9 the schedules are 16*(Nr+1) bytes: no store through a schedule argument reaches beyond that
        for root_, what_ in ((ENC, "exp_key_enc"), (DEC, "exp_key_dec")):
            over_ = [(sq, o_, z_) for (sq, o_, z_, t_) in stores.get(root_, []) if o_ < 0 or o_ + z_ > 16 * (nr + 1)]
            if root_ == DEC and not has_dec:
                continue
            chk.obligation("R04.9", not over_, key=(name, what_), sample={"function": name, "schedule": what_, "bytes": 16 * (nr + 1), "stores": len(stores.get(root_, []))})
            if over_:
                sq, o_, z_ = over_[0]
                chk.finding(Finding("R04.9", o.name, name, "schedule-extent:" + what_, "a store writes bytes %d..%d of %s; an AES-%d schedule has %d bytes (%d round keys) - the caller's array ends there" % (o_, o_ + z_ - 1, what_, bits, 16 * (nr + 1), nr + 1), loc=o.src))
        other = [r for r in stores if stores[r] and r not in (ENC, DEC, ("stack",))]
        if other or (not has_dec and stores.get(DEC)):
            chk.finding(Finding("R04.1", o.name, name, "stray-store", "the key expansion stores through %s, which is neither of its schedule arguments" % (other or [DEC]), loc=o.line_of(f.sec, f.entry)))
        bad = []
        E = {}
        for i in range(nr + 1):
            E[i] = final_slot(stores, ENC, 16 * i)
            ok = E[i] is not None
            chk.obligation("R04.1", ok, key=(name, "enc", i))
            if not ok:
                bad.append("round key %d of the encryption schedule (%s+%d) is not completely written" % (i, argnames[ENC], 16 * i))
        if has_dec:
            for i in range(nr + 1):
                d = final_slot(stores, DEC, 16 * (nr - i))
                e = E[i]
                if d is None:
                    ok = False
                    why = "slot %d of the decryption schedule (%s+%d) is not written" % (nr - i, argnames[DEC], 16 * (nr - i))
                elif e is None:
                    ok = False
                    why = None
                elif i in (0, nr):
                    ok = d == e
                    why = "slot %d of the decryption schedule must be encryption round key %d unchanged, but holds %s" % (nr - i, i, "aesimc of it" if is_imc_of(d, e) else "a different value")
                else:
                    ok = is_imc_of(d, e)
                    why = "slot %d of the decryption schedule must be aesimc(encryption round key %d), but holds %s" % (nr - i, i, "the untransformed key" if d == e else ("aesimc of a different value" if isinstance(d, tuple) and str(d[0]).startswith("AESIMC") else "a different value"))
                chk.obligation("R04.1", ok, key=(name, "dec", i), sample={"function": name, "round": i, "dec_slot": nr - i, "relation": "identity" if i in (0, nr) else "aesimc"})
                if not ok and why:
                    bad.append(why)
        nterms += 2 * (nr + 1)
        if bad:
            chk.finding(Finding("R04.1", o.name, name, "schedule-relation", "%s%s" % (bad[0], " (+%d more)" % (len(bad) - 1) if len(bad) > 1 else ""), loc=o.line_of(f.sec, f.entry), detail={"all": bad[:20]}))
        # R04.2
        ins_all = []
        for b in sorted(f.blocks):
            ins_all += f.blocks[b]
        chain = rcon_chain(f, keygens, ins_all)
        rot = [(i, imm) for (i, imm, sel) in chain if sel in (0xFF, 0x55)]
        sub = [(i, imm) for (i, imm, sel) in chain if sel in (0xAA, 0x00)]
        unk = [(i, sel) for (i, imm, sel) in chain if sel not in (0xFF, 0x55, 0xAA, 0x00)]
        if unk:
            chk.broke("%s: aeskeygenassist result consumed in an unrecognised way (%s) at %s" % (name, unk[0][1], o.line_of(f.sec, unk[0][0].addr)))
            continue
        want = RCON[:RCON_STEPS[bits]]
        got = [imm for (_i, imm) in rot]
        ok = got == want
        chk.obligation("R04.2", ok, key=(name, "rcon"), sample={"function": name, "round_constants": ["%02x" % x for x in got], "subword_only_uses": len(sub)})
        if not ok:
            k = next((k for k in range(min(len(got), len(want))) if got[k] != want[k]), min(len(got), len(want)))
            at = rot[k][0] if k < len(rot) else (rot[-1][0] if rot else None)
            chk.finding(Finding("R04.2", o.name, name, "rcon[%d]" % (k + 1), "round-constant sequence is %s; FIPS-197 requires %s (first difference at step %d)" % (" ".join("%02x" % x for x in got), " ".join("%02x" % x for x in want), k + 1),
                                loc=o.line_of(f.sec, at.addr) if at is not None else None))
    # R04.3
    nsinks = 0
    nacc = 0
    npairs = 0
    n_lanes = n_unl = n_rounds = n_unk = 0
    for name in sorted(ccand):
        iface, sig = ccand[name]
        f = lib.func_named(name)
        o = f.obj
        names = [s[0] if s else None for s in sig]
        bufs = {}
        for k, s in enumerate(sig):
            if s is None or k >= len(ARGREGS):
                continue
            if "*" in (s[2] or "") and (s[0] in ("in", "out")):
                bufs[ARGREGS[k]] = s[0]
        if set(bufs.values()) != {"in", "out"}:
            chk.broke("%s: cannot find the in/out arguments in %r" % (name, names))
            continue
        ip = absint.Interp(lib, lambda t, c=None: c19.summary_of(lib, t, c))
        p1 = ip.run(f)
        for b in p1.broken:
            chk.broke("%s %s" % (name, b))
        badi = None
        for i in (x for b in f.blocks.values() for x in b):
            if i.mem < 0 or i.op.startswith("LEA"):
                continue
            m = p1.maddr.get(i.addr)
            rs = absint.roots(m[0]) if m else None
            flat = set()
            for r in (rs or ()):
                if isinstance(r, str):
                    flat.add(r)
                elif isinstance(r, tuple) and r and r[0] == "ld":
                    flat |= {x for x in r[1] if isinstance(x, str)}
            hit = sorted(flat & set(bufs))
            if hit:
                nacc += 1
            nd = align.need(i)
            if not nd:
                continue
            nsinks += 1
            if m is not None and rs is None and badi is None:
                badi = (i, None, nd)
            elif hit and badi is None:
                badi = (i, hit[0], nd)
        # R04.7 / R04.8 round typestate and chaining on the length skeleton
        import aesrounds
        nr_ = {128: 10, 192: 12, 256: 14}[int(re.search(r"_(128|192|256)_", name).group(1))]
        hi_ = 1601 if chk.tier == "thorough" else 641
        bad7 = None
        jl = ul = jr = 0
        for L in range(16, hi_, 16):
            mch = aesrounds.run_body(lib, f, sig, nr_, L)
            rr = mch.result
            if rr.stopped or not rr.returned:
                chk.broke("%s: length skeleton not followed for len = %d (%s)" % (name, L, rr.stopped))
                break
            jr += 1
            v, a_, b_ = aesrounds.judge(mch, chain="cbc")
            jl += a_
            ul += b_
            n_rounds += mch.rounds_ok
            n_unk += mch.rounds_unk
            if v and not bad7:
                bad7 = (L, v)
        n_lanes += jl
        n_unl += ul
        rule7 = "R04.8" if bad7 and "does not depend" in bad7[1][1] else "R04.7"
        chk.obligation("R04.7", not (bad7 and rule7 == "R04.7"), key=(name, "rounds"), sample={"function": name, "rounds": nr_, "lengths": jr, "output_blocks_judged": jl, "not_judged": ul})
        chk.obligation("R04.8", not (bad7 and rule7 == "R04.8"), key=(name, "chain"), sample={"function": name, "output_blocks_judged": jl})
        if bad7:
            chk.finding(Finding(rule7, o.name, name, "aes-rounds:len=%d" % bad7[0], "with len = %d: %s" % (bad7[0], bad7[1][1]), loc=o.line_of(f.sec, bad7[1][0].addr)))
        # R04.6 in-place hazard
        inr = [r for r, n_ in bufs.items() if n_ == "in"][0]
        outr = [r for r, n_ in bufs.items() if n_ == "out"][0]
        try:
            ipr = inplace.analyse(f, inr, outr, p1)
            npairs += ipr.compared
            chk.obligation("R04.6", not ipr.hazards, key=(name, "in-place"), sample={"function": name, "pairs_compared": ipr.compared})
            if ipr.hazards:
                l, st_, d = ipr.hazards[0]
                chk.finding(Finding("R04.6", o.name, name, "in-place", "`%s` reads the input at an address that `%s` (%s) has already written through the output pointer when in == out (%s; %d such pair(s)): an in-place call processes its own output instead of the caller's data" % (l.text.strip(), st_.text.strip(), o.line_of(f.sec, st_.addr), d, len(ipr.hazards)), loc=o.line_of(f.sec, l.addr)))
        except RuntimeError as e:
            chk.broke(str(e))
        chk.obligation("R04.3", badi is None, key=(name, "align"), sample={"function": name, "buffers": bufs})
        if badi:
            i, r, nd = badi
            chk.finding(Finding("R04.3", o.name, name, "align:%s" % (bufs[r] if r else "unknown-address"),
                                "`%s` demands %d-byte alignment of %s; CBC promises any data alignment" % (i.text.strip(), nd, "memory addressed through the caller's %s pointer (%s)" % (bufs[r], r.lower()) if r else "an address the provenance analysis cannot classify"),
                                loc=o.line_of(f.sec, i.addr)))
    chk.floor("CBC output-store / input-load pairs compared for in-place hazards", npairs, 300)
    chk.floor("CBC output blocks judged for the round typestate", n_lanes, 10000)
    chk.floor("AES round instructions (per lane) matched with their round key in the CBC bodies", n_rounds, 100000)
    chk.extra["cbc_round_typestate"] = {"output_blocks_judged": n_lanes, "output_blocks_not_judged": n_unl, "round_steps_in_order": n_rounds, "round_steps_not_judged": n_unk}
    chk.floor("key-schedule stores seen", nstores, 150)
    chk.floor("CBC accesses through in/out", nacc, 300)
    chk.floor("CBC alignment-demanding instructions classified", nsinks, 1000)
    for c in list(kcand) + list(ccand):
        chk.distinct.add(("body", c))
    chk.trusted += ["LLVM 14 MC decoding", "the argument order of _aes_keyexp_* / _aes_cbc_* as used by aes/aes_keyexp.c and aes/aes_cbc.c"]
    chk.assumptions += ["term equality is syntactic: two stores are taken to hold the same value only when the same instruction sequence produced it (sound for equality, may miss nothing: unequal terms are reported)",
                        "the IV and the key structure are 16-byte aligned as documented in include/aes_cbc.h"]
    chk.extra.update({"keyexp_bodies": sorted(kcand), "cbc_bodies": sorted(ccand), "schedule_slots_checked": nterms, "keyexp_stores": nstores, "cbc_alignment_demanding_instructions": nsinks, "cbc_accesses_through_in_out": nacc,
                      "not_decided": "the round-key values themselves (FIPS-197 arithmetic), CBC chaining values, in-place operation, identical bytes across CPU-specific implementations"})
    return ("%d key-expansion bodies: every decryption-schedule slot Nr-i holds round key i (identity for i in {0,Nr}, aesimc otherwise), round constants follow FIPS-197; "
            "%d CBC bodies: none of %d alignment-demanding instructions addresses the in/out buffers (%d accesses through them)." % (len(kcand), len(ccand), nsinks, nacc))
