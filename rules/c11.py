"""C11 - a rejected hash submit changes nothing and poisons no later call.

Engine: IR (default build), every `_<algo>_ctx_mgr_submit_<family>` of the built *_ctx_*.c units and the
five isal_<algo>_ctx_mgr_submit wrappers.

R11.1 reject paths are effect-free: a path that stores a non-NONE constant into ctx->error and returns ctx
      performs no other store and no call.
R11.2 every accepted path stores ERROR_NONE into the submitted context's error field (directly or through
      a local callee that does so on all its paths) before the context can be handed to the manager.
R11.3 in each isal_ wrapper a non-zero code mapped from an `error` field must be about the submitted
      context: the field is read from ctx_in, or the path carries the fact (*ctx_out == ctx_in).
R11.4 the mapping is total and injective: every non-NONE enumerator of the context error enum maps to a
      distinct non-zero API code.
R11.5 decision table: for every (flags, status) class the submit function takes the documented decision
      (invalid flags -> INVALID_FLAGS; PROCESSING -> ALREADY_PROCESSING; COMPLETE and not FIRST ->
      ALREADY_COMPLETED; otherwise accepted), obtained by constant-folding the guard conditions.
"""
import re

import build
import ir
from report import Finding
from c13 import is_dbg, is_effect

LEVEL = "proof"
RULE_TEXT = __doc__.split("\n\n", 2)[2].replace("\n      ", " ")

SUBMIT_RE = re.compile(r"^_(sha1|sha256|sha512|md5|sm3)_ctx_mgr_submit_(\w+)$")
WRAP_RE = re.compile(r"^isal_(sha1|sha256|sha512|md5|sm3)_ctx_mgr_submit$")


def field_store(F, I, field, root_pred):
    """I is a store to <root>.<...>.<field> with root satisfying root_pred -> stored value ref, else None."""
    if I.op != "store":
        return None
    fld = F.field(I.ops[1])
    if not fld:
        return None
    root, names = fld
    if not names or names[-1][1] != field or len(names) != 1:
        return None
    if not root_pred(root):
        return None
    return I.ops[0]


def is_arg_root(n):
    return lambda r: isinstance(r, dict) and r.get("k") == "a" and r["n"] == n


def must_clear_error(F, argn, fnmap, depth=0, memo=None):
    """Every entry->exit path of F stores constant 0 into arg[argn]->error (directly or via callee)."""
    memo = memo if memo is not None else {}
    key = (F.name, argn)
    if key in memo:
        return memo[key]
    memo[key] = False
    try:
        res = True
        for P in ir.paths_with_facts(F, max_paths=4000):
            if not path_clears_error(F, P.insts, argn, fnmap, depth, memo):
                res = False
                break
    except ir.PathLimit:
        res = False
    memo[key] = res
    return res


def path_clears_error(F, insts, argn, fnmap, depth, memo, upto=None):
    for I in insts:
        if upto is not None and I.id == upto:
            return False
        v = field_store(F, I, "error", is_arg_root(argn))
        if v is not None and F.const_int(v) == 0:
            return True
        if I.op == "call" and not is_dbg(I) and depth < 3:
            G = fnmap.get(I.callee)
            if G is not None and not G.decl and G.local:
                for j, o in enumerate(I.ops[:I.raw.get("nargs", 0)]):
                    r = F.resolve(o)
                    if isinstance(r, dict) and r.get("k") == "a" and r["n"] == argn:
                        if must_clear_error(G, j, fnmap, depth + 1, memo):
                            return True
    return False


def decision_walk(F, flags_n, ctx_n, flags, status):
    """Follow the CFG from entry, folding branch conditions under arg flags = flags and every load of
    ctx->status = status.  Returns ('reject', code) | ('accept', why) | ('unknown', why)."""
    path = []
    stores_err = None

    def leaf(I):
        if isinstance(I, dict):
            if I.get("k") == "a" and I["n"] == flags_n:
                return flags & 0xffffffff
            return None
        if I.op == "load":
            fld = F.field(I.ops[0])
            if fld and is_arg_root(ctx_n)(fld[0]) and len(fld[1]) == 1 and fld[1][0][1] == "status":
                return status
        if I.op == "phi":
            bid = I.block.id
            idx = [k for k, b in enumerate(path) if b == bid]
            if idx and idx[-1] > 0:
                prev = path[idx[-1] - 1]
                for inc in I.incoming:
                    if inc["b"] == prev:
                        return ir.eval_expr(F, inc["v"], leaf)
        return None

    b = F.entry.id
    for _ in range(200):
        path.append(b)
        B = F.bmap[b]
        for I in B.insts:
            v = field_store(F, I, "error", is_arg_root(ctx_n))
            if v is not None:
                c = F.const_int(v)
                if c is None:
                    c = ir.eval_expr(F, v, leaf)
                    if c is not None and c >= 1 << 31:
                        c -= 1 << 32
                if c is not None and c != 0:
                    stores_err = c
                elif c == 0:
                    return ("accept", "error cleared")
            elif I.op == "store" and is_effect(F, I):
                return ("accept", "first store")
            elif I.op == "call" and not is_dbg(I):
                return ("accept", "first call " + str(I.callee))
        T = B.insts[-1]
        if T.op == "ret":
            if stores_err is not None:
                rv = F.resolve(T.ops[0])
                return ("reject", stores_err)
            return ("unknown", "returned without decision")
        if T.op == "br":
            if not T.raw.get("cond"):
                b = T.raw["succ"][0]
                continue
            c = ir.eval_expr(F, T.ops[0], leaf)
            if c is None:
                if stores_err is not None:
                    return ("unknown", "undecidable branch after error store")
                return ("accept", "data-dependent branch")
            b = T.raw["succ"][0] if c else T.raw["succ"][1]
            continue
        return ("unknown", "terminator " + T.op)
    return ("unknown", "walk too long")


def run(chk):
    units, stats = build.build("default", only=lambda u: u["kind"] == "c")
    mods = ir.load_modules(units)
    chk.extra["build"] = stats
    chk.trusted += ["clang-14 -O0 + mem2reg IR reflects the C source", "DWARF enumerators give the error / status / flag constants"]
    chk.assumptions += ["digest correctness of the other jobs after a rejection is C01 (not decided)",
                        "manager state is untouched because the reject paths contain no call (the manager is only reachable through calls)",
                        "for the synchronous base variants a context is never PROCESSING between calls, so that row of the decision table is not judged"]
    submits = []
    for src, M in sorted(mods.items()):
        for F in M.defined():
            m = SUBMIT_RE.match(F.name)
            if m and not F.local:
                submits.append((src, M, F, m.group(1), m.group(2)))
    chk.floor("_ctx_mgr_submit functions", len(submits), 28)

    for src, M, F, algo, fam in submits:
        fnmap = M.functions
        ctx_n = F.arg_index("ctx")
        flags_n = F.arg_index("flags")
        if ctx_n is None or flags_n is None:
            chk.broke("%s: parameters ctx/flags not found" % F.name)
            continue
        E_NONE = M.enum_value("ISAL_HASH_CTX_ERROR_NONE")
        errs = {M.enum_value("ISAL_HASH_CTX_ERROR_INVALID_FLAGS"): "INVALID_FLAGS",
                M.enum_value("ISAL_HASH_CTX_ERROR_ALREADY_PROCESSING"): "ALREADY_PROCESSING",
                M.enum_value("ISAL_HASH_CTX_ERROR_ALREADY_COMPLETED"): "ALREADY_COMPLETED"}
        if None in errs or E_NONE != 0:
            chk.broke("%s: error enumerators not found in DWARF" % F.name)
            continue
        try:
            paths = list(ir.paths_with_facts(F, max_paths=50000))
        except ir.PathLimit:
            chk.broke("path limit in %s" % F.name)
            continue
        rejects = {}
        memo = {}
        for P in paths:
            if P.contradictory(F):
                continue
            errstores = []
            for pos, I in enumerate(P.insts):
                v = field_store(F, I, "error", is_arg_root(ctx_n))
                if v is not None:
                    c = F.const_int(v)
                    if c is None:
                        # a value chosen earlier on this path (e.g. the verdict of an inlined validation helper)
                        r = P.at(F, v, P.bidx[pos])
                        c = r if isinstance(r, int) else (F.const_int(r) if isinstance(r, dict) else None)
                    if c is not None and c != 0:
                        errstores.append((I, c))
            rv = F.resolve(P.retinst.ops[0]) if P.retinst.op == "ret" and P.retinst.ops else None
            rroot = ir.eval_on_path(F, P.retinst.ops[0], P.blocks) if rv is not None else None
            returns_ctx = isinstance(rroot, dict) and rroot.get("k") == "a" and rroot["n"] == ctx_n
            if errstores:
                # ---- R11.1
                S, code = errstores[0]
                others = [I for I in P.insts if is_effect(F, I) and I.id != S.id]
                ok = not others and returns_ctx and len(errstores) == 1
                rejects.setdefault(code, []).append(ok)
                chk.obligation("R11.1", ok, key=(F.name, code, tuple(P.blocks)), sample={"function": F.name, "error": errs.get(code, code), "path": P.blocks})
                if not ok:
                    what = (others[0].callee or others[0].op) if others else ("does not return the submitted context" if not returns_ctx else "two error stores")
                    chk.finding(Finding("R11.1", src, F.name, "reject-%s:%s" % (errs.get(code, code), what),
                                        "the path rejecting with %s also performs: %s" % (errs.get(code, code), what), loc=(others[0] if others else S).loc(), detail={"path": P.blocks}))
            else:
                # ---- R11.2 accepted path: error cleared before the first manager call / before return
                first_mgr = None
                for I in P.insts:
                    if I.op == "call" and not is_dbg(I) and ("_mb_mgr_" in (I.callee or "") or "_sb_mgr_" in (I.callee or "") or "resubmit" in (I.callee or "")):
                        first_mgr = I.id
                        break
                ok = path_clears_error(F, P.insts, ctx_n, fnmap, 0, memo, upto=first_mgr)
                chk.obligation("R11.2", ok, key=(F.name, tuple(P.blocks)))
                if not ok:
                    fl = [(ir.expr_str(F, v), p, c) for (v, p, c, _t, _b, _pos) in P.facts if "flags" in ir.expr_str(F, v)]
                    chk.finding(Finding("R11.2", src, F.name, "accept-without-clearing-error",
                                        "an accepted submit path never stores ERROR_NONE into ctx->error (a stale error of an earlier rejection survives); flag facts on the path: %s" % (fl[:4],),
                                        loc="%s:%s" % (F.file, F.line), detail={"path": P.blocks}))
        for code, nm in errs.items():
            n = len(rejects.get(code, []))
            chk.obligation("R11.1-floor", n >= 1, key=(F.name, nm))
            if n < 1:
                chk.finding(Finding("R11.1", src, F.name, "missing-reject:" + nm, "no path rejects with %s" % nm, loc="%s:%s" % (F.file, F.line)))
        # ---- R11.5 decision table
        PROC = M.enum_value("ISAL_HASH_CTX_STS_PROCESSING")
        LAST = M.enum_value("ISAL_HASH_CTX_STS_LAST")
        COMP = M.enum_value("ISAL_HASH_CTX_STS_COMPLETE")
        FIRST = M.enum_value("ISAL_HASH_FIRST")
        ENTIRE = M.enum_value("ISAL_HASH_ENTIRE")
        if None in (PROC, LAST, COMP, FIRST, ENTIRE):
            chk.broke("%s: status/flag enumerators not found" % F.name)
            continue
        is_base = fam == "base"
        flag_vals = [0, 1, 2, 3, 4, 5, 7, 8, 0x10, 0x80000000, 0xfffffffc, 0xffffffff]
        status_vals = [0, PROC, PROC | LAST, COMP, PROC | COMP, LAST]
        for fl in flag_vals:
            for stv in status_vals:
                if fl & ~ENTIRE & 0xffffffff:
                    want = ("reject", M.enum_value("ISAL_HASH_CTX_ERROR_INVALID_FLAGS"))
                elif stv & PROC:
                    if is_base:
                        continue
                    want = ("reject", M.enum_value("ISAL_HASH_CTX_ERROR_ALREADY_PROCESSING"))
                elif (stv & COMP) and not (fl & FIRST):
                    want = ("reject", M.enum_value("ISAL_HASH_CTX_ERROR_ALREADY_COMPLETED"))
                else:
                    want = ("accept", None)
                got = decision_walk(F, flags_n, ctx_n, fl, stv)
                ok = got[0] == want[0] and (want[0] == "accept" or got[1] == want[1])
                chk.obligation("R11.5", ok, key=(F.name, fl, stv), sample={"function": F.name, "flags": fl, "status": stv, "decision": [got[0], got[1] if isinstance(got[1], int) else str(got[1])]})
                if not ok:
                    chk.finding(Finding("R11.5", src, F.name, "decision(flags=%#x,status=%#x)" % (fl, stv),
                                        "submit decides %s/%s where the documented decision is %s/%s" % (got[0], errs.get(got[1], got[1]), want[0], errs.get(want[1], want[1])),
                                        loc="%s:%s" % (F.file, F.line)))

    # ---- wrappers
    wrappers = []
    for src, M in sorted(mods.items()):
        for F in M.defined():
            if WRAP_RE.match(F.name):
                wrappers.append((src, M, F))
    chk.floor("isal_ submit wrappers", len(wrappers), 5)
    for src, M, F in wrappers:
        cin = F.arg_index("ctx_in")
        cout = F.arg_index("ctx_out")
        enum_err = None
        for en, vals in M.enums.items():
            if "ISAL_HASH_CTX_ERROR_NONE" in vals:
                enum_err = vals
        if cin is None or cout is None or enum_err is None:
            chk.broke("%s: ctx_in/ctx_out/error enum not found" % F.name)
            continue
        internal = [I for I in F.calls() if SUBMIT_RE.match((I.callee or "") + "_x") or (I.callee or "").endswith("_ctx_mgr_submit")]
        if len(internal) != 1:
            chk.broke("%s: expected one internal submit call" % F.name)
            continue
        C = internal[0]
        mapping = {}
        paths = list(ir.paths_with_facts(F))
        for P in paths:
            if C.id not in {I.id for I in P.insts}:
                continue
            errfacts = []
            same_ctx_fact = False
            for (val, pred, c, _t, br, pos) in P.facts:
                e = ir.expr_str(F, val)
                if e.endswith(".error)"):
                    errfacts.append((val, pred, c, e))
                if isinstance(c, ir.ValRef) and pred == "eq":
                    ea, eb = ir.expr_str(F, val), ir.expr_str(F, c.v)
                    sides = {ea, eb}
                    if "arg:ctx_in" in sides and any(s.startswith("call:") or s == "load(arg:ctx_out)" for s in sides):
                        same_ctx_fact = True
            if isinstance(P.ret, int) and P.ret != 0:
                # R11.3
                about_in = all(e == "load(arg:ctx_in.error)" for (_v, _p, _c, e) in errfacts) and errfacts
                ok = bool(about_in) or same_ctx_fact
                chk.obligation("R11.3", ok, key=(F.name, tuple(P.blocks)), sample={"function": F.name, "returns": P.ret, "error_read_from": [e for (_v, _p, _c, e) in errfacts][:1], "same_ctx_fact": same_ctx_fact})
                if not ok:
                    chk.finding(Finding("R11.3", src, F.name, "error-of-other-context",
                                        "return code %d is mapped from the error field of whatever context the manager handed back (%s) without establishing that it is the submitted one" % (P.ret, errfacts[0][3] if errfacts else "?"),
                                        loc=P.retinst.loc(), detail={"path": P.blocks}))
                for (_v, pred, c, e) in errfacts:
                    if pred == "eq" and isinstance(c, int):
                        mapping.setdefault(c, set()).add(P.ret)
        # R11.4
        need = {v for k, v in enum_err.items() if v != 0}
        codes = [next(iter(mapping[c])) for c in mapping if len(mapping[c]) == 1]
        ok = set(mapping) >= need and all(len(v) == 1 for v in mapping.values()) and len(set(codes)) == len(codes) and 0 not in codes
        chk.obligation("R11.4", ok, key=F.name, sample={"function": F.name, "mapping": {str(k): sorted(v) for k, v in mapping.items()}})
        if not ok:
            chk.finding(Finding("R11.4", src, F.name, "error-mapping", "context error -> API code mapping is not total/injective: %s (enumerators %s)" % ({k: sorted(v) for k, v in mapping.items()}, sorted(need)), loc="%s:%s" % (F.file, F.line)))
    return ("IR path analysis of %d _ctx_mgr_submit functions and %d isal_ wrappers: effect-free reject paths, error cleared on every accepted path, "
            "decision table by constant folding over (flags,status) classes, provenance of mapped return codes." % (len(submits), len(wrappers)))
