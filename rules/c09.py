"""C09 (partial) - rolling-hash boundaries depend only on the last w bytes, not on call splitting.

Decided: the structural clauses below.  NOT decided: that the reported offset is the *first* match, and the
equivalence of the two assembly scan loops with the C loop (value properties).

R09.1 table identity: the 256 initialiser values of rolling_hash2_table1 equal the pinned table (the property
      defines the hash "by the library's constant table ... across library versions"), no code writes the
      table, and _rolling_hash2_init reads table1[i] from this global only.
R09.2 state refresh on every exit: every path of _rolling_hash2_run to its return stores *offset, stores
      state->hash and copies into state->history, so the next run resumes from exactly the window state.
R09.4 table / stream pairing: in every scan loop t1 is indexed only by bytes of the incoming stream b1 and t2 only
      by bytes of the outgoing stream b2.
R09.5 every consumed byte is tested: no path of a scan loop updates the hash from the tables and then returns
      with the index advanced past that byte without comparing (hash & mask) with the trigger.
R09.6 "otherwise consumes max_len bytes" for every max_len of the 32-bit API: the scan position and the bound are
      compared as unsigned 32-bit quantities in every scan-loop implementation - in the C loop no signed compare and
      no sign extension touches the bound parameter, in the assembly loops no signed condition follows a compare
      with the bound register.  (A signed bound makes a run of 2^31 bytes or more consume nothing.)
R09.7 one comparison domain: on every path of an assembly scan loop the two sides of each hit compare are both
      bit-compressed with pext or neither is (the BMI2 loop compares pext(hash, mask) with pext(trigger, mask); a
      path that reaches a compare before the trigger was compressed tests a different predicate).
R09.8 the reported index is the index of the byte that hit: on every path of a scan loop (a block at most twice;
      assembly: linear forms of the position register, C loop: SSA values with phis resolved along the path) the
      value stored through idx equals the index of the last byte that indexed t1 when the path leaves through the
      "equal" edge of the trigger compare, and that index + 1 when it leaves because the bound was reached.
R09.9 the mask generator on the IR skeleton (lib/irskel.py, constant propagation through _rolling_hashx_mask_gen and its
      static helpers): for every bit position k = 1..31, the means 2^k - 1, 2^k, 2^k + 1 (and 0..9, 1000, 6000) and
      the shifts 0, 1, 4, 13, 31 the returned mask is rol32(2^floor(log2(max(mean, 2))) - 1, shift).  A grid that
      visits every bit position and the carry of every rotation, not every value.
R09.3 no private tables: the scan loops (_rolling_hash2_run_until_{base,00,04}) read table entries only through
      their t1/t2 arguments, never from static storage.
"""
import json
import os

import build
import ir
import x86
import absint
import c19
from report import Finding
from c13 import is_dbg

LEVEL = "other"
RULE_TEXT = __doc__.split("\n\n", 2)[2].replace("\n      ", " ")
TABLE = "rolling_hash2_table1"
COPY_CALLS = ("llvm.memcpy", "llvm.memmove", "memcpy", "memmove", "__memcpy_chk", "__memmove_chk")


def run(chk):
    units, stats = build.build("default")
    chk.extra["build"] = stats
    mods = ir.load_modules([u for u in units if u["kind"] == "c"])
    chk.trusted += ["the pinned table /verif/tables/rolling_hash2_table1.json is the definition of the hash across versions", "clang IR global initialisers"]
    chk.assumptions += ["first-match and asm/C loop equivalence are value properties and are not decided"]
    M = mods.get("rolling_hash/rolling_hash2.c")
    if M is None:
        chk.broke("rolling_hash/rolling_hash2.c not in the build")
        return
    # ---- R09.1
    g = M.globals.get(TABLE)
    with open(os.path.join(build.VERIF, "tables", "rolling_hash2_table1.json")) as fh:
        pinned = json.load(fh)["values"]
    if g is None or "init_ints" not in g:
        chk.broke("global %s with an integer initialiser not found" % TABLE)
        return
    vals = [int(x) for x in g["init_ints"]]
    same = len(vals) == 256 and g.get("elem_bits") == 64 and vals == [int(x, 16) for x in pinned]
    ndiff = sum(1 for a, b in zip(vals, [int(x, 16) for x in pinned]) if a != b) + abs(len(vals) - len(pinned))
    chk.obligation("R09.1-values", same, key="table", sample={"entries": len(vals), "first": hex(vals[0]) if vals else None, "differing_entries": ndiff})
    if not same:
        chk.finding(Finding("R09.1", "rolling_hash/rolling_hash2_table.h", TABLE, "table-values", "%d of the table's entries differ from the pinned definition (chunk boundaries would change across versions)" % ndiff, loc="%s:%s" % (g.get("file"), g.get("line"))))
    writers = []
    readers = []
    for src, MM in mods.items():
        for F in MM.defined():
            for I in F.all_insts():
                ptrs = []
                if I.op == "store":
                    ptrs = [(I.ops[1], "w")]
                elif I.op == "load":
                    ptrs = [(I.ops[0], "r")]
                elif I.op == "call" and (I.callee or "").startswith(COPY_CALLS + ("llvm.memset", "memset")):
                    ptrs = [(I.ops[0], "w")] + ([(I.ops[1], "r")] if not (I.callee or "").endswith("memset") and "memset" not in (I.callee or "") else [])
                for p, k in ptrs:
                    root, off = F.ptr_root(p)
                    if isinstance(root, dict) and root.get("k") == "g" and root["name"] == TABLE:
                        (writers if k == "w" else readers).append((src, F.name, I))
    chk.obligation("R09.1-readonly", not writers, key="writers", sample={"writers": len(writers), "readers": sorted({r[1] for r in readers})})
    for (src, fn, I) in writers:
        chk.finding(Finding("R09.1", src, fn, "table-write", "%s writes the hash table" % fn, loc=I.loc()))
    Finit = M.functions.get("_rolling_hash2_init")
    ok_init = Finit is not None and not Finit.decl and any(r[1] == "_rolling_hash2_init" for r in readers)
    if ok_init:
        # every store into state->table1 stores a value loaded from the global
        for I in Finit.all_insts():
            if I.op == "store":
                fld = Finit.field(I.ops[1])
                if fld and fld[1] and fld[1][0][1] == "table1":
                    v = Finit.resolve(I.ops[0])
                    okv = isinstance(v, ir.Inst) and v.op == "load" and isinstance(Finit.ptr_root(v.ops[0])[0], dict) and Finit.ptr_root(v.ops[0])[0].get("name") == TABLE
                    ok_init = ok_init and okv
    chk.obligation("R09.1-init", ok_init, key="init-source")
    if not ok_init:
        chk.finding(Finding("R09.1", "rolling_hash/rolling_hash2.c", "_rolling_hash2_init", "table-source", "state->table1 is not filled from %s alone" % TABLE, loc="rolling_hash/rolling_hash2.c"))
    # ---- R09.2
    F = M.functions.get("_rolling_hash2_run")
    if F is None or F.decl:
        chk.broke("_rolling_hash2_run not found")
        return
    st_n = F.arg_index("state")
    off_n = F.arg_index("offset")
    if st_n is None or off_n is None:
        chk.broke("_rolling_hash2_run: parameters state/offset not found")
        return
    off_st, hash_st, hist_cp = set(), set(), set()
    for I in F.all_insts():
        if I.op == "store":
            root, o = F.ptr_root(I.ops[1])
            if F.is_arg(root, off_n):
                off_st.add(I.id)
            fld = F.field(I.ops[1])
            if fld and F.is_arg(fld[0], st_n) and fld[1] and fld[1][0][1] == "hash":
                hash_st.add(I.id)
        elif I.op == "call" and (I.callee or "").startswith(COPY_CALLS):
            fld = F.field(I.ops[0])
            if fld and F.is_arg(fld[0], st_n) and fld[1] and fld[1][0][1] == "history":
                hist_cp.add(I.id)
    rets = F.rets()
    exits = 0
    for R in rets:
        preds = F.breach([R])
        for kind, ids in (("*offset", off_st), ("state->hash", hash_st), ("state->history", hist_cp)):
            ok = bool(ids) and F.must_pass(R, ids)
            chk.obligation("R09.2", ok, key=(R.id, kind), sample={"function": F.name, "must_write": kind, "writers": len(ids)})
            if not ok:
                chk.finding(Finding("R09.2", "rolling_hash/rolling_hash2.c", F.name, "exit-without:" + kind, "a path returns from the run without refreshing %s; the next run would resume from a stale window" % kind, loc=R.loc()))
    # number of distinct exit edges into the return block(s)
    exits = sum(len(F.bmap[R.block.id].pred) if len(R.block.insts) <= 2 else 1 for R in rets)
    chk.floor("exits of _rolling_hash2_run", exits, 1)
    chk.floor("history copies", len(hist_cp), 1)
    # ---- R09.3
    lib = x86.Library(units)
    n_loads = 0
    scanners = [n for (k, n) in lib.entry_list if n.startswith("_rolling_hash2_run_until_") and not n.endswith(("_dispatch_init", "_mbinit", "_dispatched"))]
    chk.floor("scan loop implementations", len(scanners), 3)
    for name in scanners:
        f = lib.func_named(name)
        r = c19.analyse(lib, f.key())
        bad = []
        for b in f.blocks.values():
            for i in b:
                if i.reads_mem_operand() and i.addr in r.maddr:
                    n_loads += 1
                    v = r.maddr[i.addr][0]
                    if v[0] == "addr" or (absint.roots(v) and any(isinstance(t, tuple) and t[0] == "sym" for t in absint.roots(v))):
                        if i.memsize() and i.memsize() >= 8 and r.maddr[i.addr][1]:
                            bad.append(i)
                        elif i.memsize() == 8 and v[0] == "addr":
                            res = f.obj.resolve_symaddr(v[1], v[2], lib)
                            if res and res[3] and "__stack_chk" not in str(res[3]):
                                bad.append(i)
        # R09.4 table / stream pairing: t1 (3rd arg) is indexed only by bytes read through b1 (5th arg), t2 (4th) only
        # by bytes read through b2 (6th): h ^= t1[b1[i]] ^ t2[b2[i]]
        pair = {"RDX": "R8", "RCX": "R9"}
        npair = 0
        for b in f.blocks.values():
            for i in b:
                if not i.reads_mem_operand() or i.addr not in r.maddr:
                    continue
                v = r.maddr[i.addr][0]
                rs = absint.roots(v)
                if not rs:
                    continue
                tabs = [t for t in rs if t in pair]
                if len(tabs) != 1 or i.addr not in r.mindex:
                    continue
                irs = absint.roots(r.mindex[i.addr])
                if irs is None:
                    continue
                streams = set()
                for t in irs:
                    if isinstance(t, tuple) and t[0] == "ld":
                        streams |= {x for x in t[1] if x in ("R8", "R9")}
                if not streams:
                    continue
                npair += 1
                okp = streams == {pair[tabs[0]]}
                chk.obligation("R09.4", okp, key=(name, i.addr), sample={"function": name, "insn": i.text.strip()})
                if not okp:
                    chk.finding(Finding("R09.4", f.obj.name, name, "table-stream-pairing", "`%s` indexes table %s with a byte of stream %s (t1 pairs with the incoming bytes b1, t2 with the outgoing bytes b2)" % (
                        i.text.strip(), "t1" if tabs[0] == "RDX" else "t2", "/".join(sorted("b1" if x == "R8" else "b2" for x in streams))), loc=f.obj.line_of(f.sec, i.addr)))
        # R09.5 every hash update is tested before the function returns past it: a forward may-analysis of
        # "hash updated from the tables since the last compare against the trigger"
        ipk = absint.Interp(lib, lambda t: c19.summary_of(lib, t), keep_regs=True)
        rk = ipk.run(f)

        def has_root(v, names):
            rs = absint.roots(v)
            if not rs:
                return False
            for t in rs:
                if t in names:
                    return True
                if isinstance(t, tuple) and t[0] == "ld" and any(x in names for x in t[1]):
                    return True
            return False
        pend_in = {f.entry: False}
        work = [f.entry]
        exits_pending = []
        nupd = ntest = 0
        while work:
            bl = work.pop()
            pend = pend_in[bl]
            for i in f.blocks[bl]:
                regs = rk.reg_at.get(i.addr, {})
                if i.op.startswith(("XOR64", "XOR32")) and not (i.reg(1) == i.reg(2) and i.mem < 0):
                    src_tab = False
                    av2 = rk.maddr.get(i.addr)
                    if av2 is not None and i.reads_mem_operand() and has_root(av2[0], ("RDX", "RCX")):
                        src_tab = True
                    for u in i.reg_uses_nomem():
                        if u in x86.PARENT and has_root(ipk.val(regs, u), ()) is False:
                            rs = absint.roots(ipk.val(regs, u))
                            if rs and any(isinstance(t, tuple) and t[0] == "ld" and (("RDX" in t[1]) or ("RCX" in t[1])) for t in rs):
                                src_tab = True
                    if src_tab and not i.writes_mem_operand():
                        # only the accumulation into the hash counts: destination must not be a fresh temporary that
                        # is itself xored into the hash later; treat every table-derived xor as an update, the
                        # compare that follows clears it
                        pend = True
                        nupd += 1
                elif (i.op.startswith("CMP") and not i.op.startswith(("CMPXCHG", "CMPS"))) or i.op.startswith("TEST"):
                    ops_ = [u for u in i.reg_uses_nomem() if u in x86.PARENT]
                    vals = [ipk.val(regs, u) for u in ops_]
                    av2 = rk.maddr.get(i.addr)
                    # the hit test: compare with the trigger argument (9th, stack) or, in a trigger == 0 loop, `test mask, hash`
                    want = "ARG@24" if i.op.startswith("CMP") else "ARG@16"
                    trig = any(absint.roots(v) and want in absint.roots(v) for v in vals) or (av2 is not None and av2[0] == ("sp", 24 if want == "ARG@24" else 16))
                    if trig:
                        pend = False
                        ntest += 1
                elif i.is_ret() and pend:
                    exits_pending.append(i)
            for s2 in f.succ.get(bl, []):
                if s2 not in pend_in:
                    pend_in[s2] = pend
                    work.append(s2)
                elif pend and not pend_in[s2]:
                    pend_in[s2] = True
                    work.append(s2)
        if nupd < 1 or ntest < 1:
            chk.broke("%s: hash updates (%d) or trigger compares (%d) not recognised" % (name, nupd, ntest))
        chk.obligation("R09.5", not exits_pending, key=name, sample={"function": name, "hash_updates": nupd, "trigger_tests": ntest})
        if exits_pending:
            i = exits_pending[0]
            chk.finding(Finding("R09.5", f.obj.name, name, "untested-byte", "a path consumes a byte (updates the hash from the tables) and returns past it without comparing (hash & mask) with the trigger: a hit on that byte is reported one position late", loc=f.obj.line_of(f.sec, i.addr)))
        if npair < 2:
            chk.broke("%s: fewer than two table loads with a stream-derived index were recognised (%d)" % (name, npair))
        chk.obligation("R09.3", not bad, key=name, sample={"function": name, "instructions": f.insns})
        for i in bad[:2]:
            chk.finding(Finding("R09.3", f.obj.name, name, "static-table-load", "`%s` reads an 8-byte table entry from static storage instead of the caller-supplied tables" % i.text.strip(), loc=f.obj.line_of(f.sec, i.addr)))
    # ---- R09.7 / R09.8 (assembly scan loops)
    import hitidx
    import inplace
    n98 = n97 = 0
    for key, name in lib.entry_list:
        if name not in ("_rolling_hash2_run_until_00", "_rolling_hash2_run_until_04"):
            continue
        f = lib.func(key)
        ipk = absint.Interp(lib, lambda t, c=None: c19.summary_of(lib, t, c), keep_regs=True)
        p8 = ipk.run(f)

        def trig(i, p8=p8, ipk=ipk):
            if not ((i.op.startswith("CMP") and not i.op.startswith(("CMPXCHG", "CMPS"))) or i.op.startswith("TEST")):
                return False
            regs = p8.reg_at.get(i.addr, {})
            vals = [ipk.val(regs, u) for u in i.reg_uses_nomem() if u in x86.PARENT]
            av = p8.maddr.get(i.addr)
            want = "ARG@24" if i.op.startswith("CMP") else "ARG@16"
            return any(absint.roots(v) and want in absint.roots(v) for v in vals) or (av is not None and av[0] == ("sp", 24 if want == "ARG@24" else 16))
        try:
            res8, mism, ncmp8 = hitidx.analyse(f, p8, is_trigger_cmp=trig)
        except RuntimeError as e:
            chk.broke("%s: %s" % (name, e))
            continue
        n97 += ncmp8
        chk.obligation("R09.7", not mism, key=name, sample={"function": name, "trigger_compares_on_paths": ncmp8})
        for (ci, pth) in mism[:2]:
            chk.finding(Finding("R09.7", f.obj.name, name, "compare-domain", "`%s`: on a path through blocks %s one side of the hit compare is a pext-compressed value and the other is not: the predicate tested on this path is not (hash & mask) == trigger" % (ci.text.strip(), " -> ".join("%#x" % b for b in pth[:6])), loc=f.obj.line_of(f.sec, ci.addr)))
        judged = 0
        for (pth, kind, ll, stv) in res8:
            if ll is None:
                continue
            if ll[0] == "unknown" or stv is None or stv[0] is None or kind not in ("hit", "miss"):
                chk.broke("%s: path %s: consumed byte, exit kind (%s) or idx store not recognised" % (name, " -> ".join("%#x" % b for b in pth[:8]), kind))
                continue
            d = inplace.lf_add(stv[0], ll[0], -1)
            if d is None or d[1]:
                chk.broke("%s: stored index and consumed-byte index are not comparable on path %s" % (name, " -> ".join("%#x" % b for b in pth[:8])))
                continue
            judged += 1
            want = 0 if kind == "hit" else 1
            ok = d[0] == want
            chk.obligation("R09.8", ok, key=(name, pth), sample={"function": name, "exit": kind, "stored_minus_last_consumed": d[0]})
            if not ok:
                chk.finding(Finding("R09.8", f.obj.name, name, "hit-index", "on the path %s the scan leaves %s and stores idx = (index of the last byte hashed) %+d; the contract is %+d: the caller's offset, hash and history go out of step" % (
                    " -> ".join("%#x" % b for b in pth[:8]), "through the hit edge" if kind == "hit" else "at the bound", d[0], want), loc=f.obj.line_of(f.sec, stv[1].addr)))
        n98 += judged
    chk.floor("assembly scan-loop paths judged for the stored index", n98, 16)
    chk.floor("trigger compares on assembly scan-loop paths", n97, 16)
    # ---- R09.8 (C scan loop, IR)
    nir = 0
    for src, MM in sorted(mods.items()):
        F8 = MM.functions.get("_rolling_hash2_run_until_base")
        if F8 is None or F8.decl:
            continue
        an = {a.get("name"): n for n, a in enumerate(F8.args)}
        if not {"idx", "b1", "t1", "mask"} <= set(an):
            chk.broke("%s: parameters idx/b1/t1/mask of the base scan loop not found" % src)
            continue

        def lin(P, v, k, depth=0):
            r = P.at(F8, v, k)
            if isinstance(r, int):
                return (None, r)
            if isinstance(r, ir.Inst) and r.op in ("add", "sub") and depth < 40:
                c = F8.const_int(r.ops[1])
                if c is not None:
                    ks = [q for q in range(k + 1) if P.blocks[q] == r.block.id]
                    kk = ks[-1] if ks else k
                    b_, o_ = lin(P, r.ops[0], kk, depth + 1)
                    return (b_, o_ + (c if r.op == "add" else -c))
            if isinstance(r, ir.Inst) and r.op in ("zext", "trunc", "sext", "freeze"):
                return lin(P, r.ops[0], k, depth + 1)
            return ((r.id, k if isinstance(r, ir.Inst) and r.op == "phi" else -1) if isinstance(r, ir.Inst) else repr(r), 0)
        try:
            plist = list(ir.paths_with_facts(F8))
        except ir.PathLimit:
            chk.broke("%s: too many paths in the base scan loop" % src)
            continue
        for P in plist:
            last = None
            kind = None
            stored = None
            for pos, I in enumerate(P.insts):
                k = P.bidx[pos]
                if I.op == "load":
                    root, off = F8.ptr_root(I.ops[0])
                    if F8.is_arg(root, an["t1"]):
                        # index of the t1 entry = zext(load b1[i])
                        g = F8.resolve(I.ops[0])
                        ixv = None
                        if isinstance(g, ir.Inst) and g.op == "getelementptr":
                            bv = F8.resolve(g.ops[-1])
                            while isinstance(bv, ir.Inst) and bv.op in ("zext", "sext", "trunc"):
                                bv = F8.resolve(bv.ops[0])
                            if isinstance(bv, ir.Inst) and bv.op == "load":
                                g2 = F8.resolve(bv.ops[0])
                                if isinstance(g2, ir.Inst) and g2.op == "getelementptr" and F8.is_arg(F8.ptr_root(bv.ops[0])[0], an["b1"]):
                                    ixv = lin(P, g2.ops[-1], k)
                        last = ixv or "unknown"
                        kind = None
                elif I.op == "store":
                    root, off = F8.ptr_root(I.ops[1])
                    if F8.is_arg(root, an["idx"]):
                        stored = (lin(P, I.ops[0], k), I)
                elif I.op == "br" and I.raw.get("cond") and last is not None:
                    es = ir.expr_str(F8, I.ops[0])
                    if "arg:mask" in es:
                        fk = [q for q, ft in enumerate(P.facts) if ft[4] is I and P.fact_k[q] == k]
                        if fk:
                            ft = P.facts[fk[-1]]
                            kind = "hit" if ft[1] == "eq" else "miss" if ft[1] == "ne" else "?"
            if last is None:
                continue
            if last == "unknown" or stored is None or kind not in ("hit", "miss"):
                chk.broke("%s: base scan loop path not understood (consumed byte %s, exit %s)" % (src, last, kind))
                continue
            (lb, lo), (sb, so) = last, stored[0]
            if lb != sb:
                chk.broke("%s: base scan loop: stored index and consumed-byte index have different roots on a path" % src)
                continue
            nir += 1
            want = 0 if kind == "hit" else 1
            ok = so - lo == want
            chk.obligation("R09.8", ok, key=(src, tuple(P.blocks)), sample={"function": F8.name, "unit": src, "exit": kind, "stored_minus_last_consumed": so - lo})
            if not ok:
                chk.finding(Finding("R09.8", src, F8.name, "hit-index", "on a path that leaves the scan %s the value stored to *idx is (index of the last byte hashed) %+d; the contract is %+d" % ("through the hit test" if kind == "hit" else "at the bound", so - lo, want), loc=stored[1].loc()))
    chk.floor("C scan-loop paths judged for the stored index", nir, 2)
    # ---- R09.9 mask generator
    import irskel
    Mx = mods.get("rolling_hash/rolling_hashx_base.c")
    Fg = Mx.functions.get("_rolling_hashx_mask_gen") if Mx else None
    if Fg is None or Fg.decl:
        chk.broke("_rolling_hashx_mask_gen not found in the IR")
    else:
        an9 = {a_.get("name"): n_ for n_, a_ in enumerate(Fg.args)}
        means = sorted(set(list(range(0, 10)) + [1000, 6000] + [v for k in range(1, 32) for v in ((1 << k) - 1, 1 << k, (1 << k) + 1)]))
        bad9 = None
        n9 = 0

        def enter9(cal):
            G = Mx.functions.get(cal)
            return G if G is not None and not G.decl else None
        for mean in means:
            for sh in (0, 1, 4, 13, 31):
                args9 = [None] * len(Fg.args)
                args9[an9.get("mean", 0)] = mean
                args9[an9.get("shift", 1)] = sh
                try:
                    rr9 = irskel.run(Fg, args9, enter=enter9)
                except irskel.Unknown as e:
                    chk.broke("_rolling_hashx_mask_gen: IR skeleton not followed for mean = %d, shift = %d: %s" % (mean, sh, e))
                    bad9 = bad9 or "broken"
                    break
                n9 += 1
                mm = max(mean, 2)
                e2 = 1 << (mm.bit_length() - 1)
                x = (e2 - 1) & 0xFFFFFFFF
                want = ((x << sh) | (x >> ((32 - sh) % 32))) & 0xFFFFFFFF if sh else x
                got = rr9.ret
                if not isinstance(got, int):
                    chk.broke("_rolling_hashx_mask_gen: the value returned for mean = %d, shift = %d is not determined by the IR skeleton" % (mean, sh))
                    bad9 = "broken"
                    break
                if got != want and bad9 is None:
                    bad9 = (mean, sh, got, want)
            if bad9 == "broken":
                break
        chk.obligation("R09.9", bad9 is None, key="mask_gen", sample={"function": Fg.name, "cases": n9})
        chk.floor("(mean, shift) cases of the mask generator followed", n9, 400)
        if bad9 and bad9 != "broken":
            chk.finding(Finding("R09.9", "rolling_hash/rolling_hashx_base.c", Fg.name, "mask:mean=%d,shift=%d" % bad9[:2], "mask_gen(mean = %d, shift = %d) evaluates to %s; the contract rol32(floor_pow2(max(mean, 2)) - 1, shift) gives %#x - chunk boundaries found with this mask differ from every other version of the library" % (bad9[0], bad9[1], ("%#x" % bad9[2]) if isinstance(bad9[2], int) else "an undetermined value", bad9[3]), loc="%s:%s" % (Fg.file, Fg.line)))
    # ---- R09.6 unsigned bound
    nb6 = 0
    for src, M in sorted(mods.items()):
        for F in M.defined():
            if F.name != "_rolling_hash2_run_until_base":
                continue
            bn = F.arg_index("max_idx")
            if bn is None:
                bn = 1
            nb6 += 1
            bad6 = None
            for I in F.all_insts():
                if I.op == "icmp":
                    es = [ir.expr_str(F, o) for o in I.ops]
                    if any(("arg:" + (F.args[bn].get("name") or str(bn))) in e for e in es) and I.pred in ("slt", "sle", "sgt", "sge"):
                        bad6 = bad6 or (I, "compares the position with the bound as signed integers (`icmp %s`)" % I.pred)
                if I.op == "sext":
                    r = F.resolve(I.ops[0])
                    if isinstance(r, dict) and r.get("k") == "a" and r.get("n") == bn:
                        bad6 = bad6 or (I, "sign-extends the bound")
            dt = (F.args[bn].get("dtype") or "")
            if bad6 is None and dt in ("int", "int32_t", "long"):
                bad6 = (F.first(), "declares the bound as %s" % dt)
            chk.obligation("R09.6", bad6 is None, key=(src, F.name), sample={"unit": src, "function": F.name, "bound_type": dt})
            if bad6:
                chk.finding(Finding("R09.6", src, F.name, "signed-bound", "the scan loop %s: a run with max_len >= 2^31 consumes nothing in this implementation and reports offset = w, while the assembly implementations scan the whole buffer" % bad6[1], loc=bad6[0].loc()))
    for key, name in lib.entry_list:
        if name not in ("_rolling_hash2_run_until_00", "_rolling_hash2_run_until_04"):
            continue
        f = lib.func(key)
        p6 = absint.Interp(lib, lambda t, c=None: c19.summary_of(lib, t, c), keep_regs=True).run(f)
        nb6 += 1
        bad6 = None
        ncmp = 0
        for bl in f.blocks.values():
            for k, i in enumerate(bl):
                if not i.op.startswith("CMP") or i.mem >= 0:
                    continue
                st = p6.reg_at.get(i.addr) or {}
                isb = False
                for rr in i.reg_uses_nomem():
                    v = st.get(x86.PARENT.get(rr))
                    rs = absint.roots(v) if v is not None else None
                    if rs is not None and rs == frozenset(("RSI",)):
                        isb = True
                if not isb:
                    continue
                ncmp += 1
                for j in bl[k + 1:]:
                    if j.is_cond():
                        cc = j.imm(1)
                        if cc in (12, 13, 14, 15) and x86.WIDTH.get(i.reg(0), 64) < 64:
                            bad6 = bad6 or (j, i)
                        break
                    if "EFLAGS" in j.idefs:
                        break
        chk.obligation("R09.6", bad6 is None and ncmp > 0, key=name, sample={"function": name, "compares_with_bound": ncmp})
        if ncmp == 0:
            chk.broke("%s: no compare with the bound register found" % name)
        if bad6:
            chk.finding(Finding("R09.6", f.obj.name, name, "signed-bound", "`%s` after `%s` treats the 32-bit bound as signed" % (bad6[0].text.strip(), bad6[1].text.strip()), loc=f.obj.line_of(f.sec, bad6[0].addr)))
    chk.floor("scan-loop implementations checked for an unsigned bound", nb6, 3)
    chk.extra["scan_loop_loads_classified"] = n_loads
    return ("Table identity (256 pinned 64-bit constants, no writer, init reads only this global), must-pass-through of the three state refreshes on all %d exits of "
            "_rolling_hash2_run, and load provenance in %d scan-loop implementations." % (exits, len(scanners)))
