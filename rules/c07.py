"""C07 - AES-GCM streaming == one-shot: the carry-state clauses (PARTIAL; output and tag values are not decided).

Streaming equals one-shot only if the context carries the right state from call to call.  What that state is worth
is arithmetic; that it is initialised, accounted and consumed on every path is in the shape of the code.

Engine: object code of the GCM init / update / finalize bodies of the four families (default build), phase-1
pointer provenance with the context layout from DWARF (struct isal_gcm_context_data), block-level dominance.

R07.1 length accounting: in each of the 32 update bodies exactly one instruction adds the len argument to
      ctx->in_length, and every access through in or out is dominated by it - no path consumes data without
      counting it, none counts it twice (finalize hashes in_length into the tag).
R07.2 finalize consumes the carried state: in each of the 16 finalize bodies every store through auth_tag is
      dominated by loads of ctx->in_length, ctx->aad_length (the GHASH length block), ctx->aad_hash and
      ctx->orig_IV (E(K, Y0)).
R07.3 init leaves no stale carry: on every path of each of the 8 init bodies ctx->aad_hash, aad_length, in_length,
      orig_IV, current_counter and partial_block_length are stored - every byte of them, within one block - before
      returning (a 32-bit store into a 64-bit length leaves its upper half to whatever the memory held).  partial_block_enc_key is
      exempt: the VAES family never initialises it and every family writes it before partial_block_length becomes
      non-zero (confirmed by reading; its definedness is C20's).
R07.4 one family per CPU class: under the same CPU facts the dispatchers of precomp, enc, dec, enc_update and
      dec_update (plain and _nt) of one key size bind implementations of the same family - the hash-key table
      written by precomp is laid out per family.
R07.5 GHASH schedule of the streaming bodies (lib/ghash.py): for every update body, every pending partial block of
      0, 1, 8, 15 bytes (thorough: 0..15) and a set of lengths that exercises every aggregation depth, the monomial
      interpretation of the path the length selects must leave in ctx->aad_hash: the carried hash times H^n, block
      i of the data times H^(n-i) for every block completed by this call (n of them, block boundaries shifted by
      the pending bytes), and the trailing partial block un-multiplied.  The key table is what the same family's
      precomp body stores.  Over-approximating sets, presence-only demand: cannot alarm on a correct schedule.
R07.6 GHASH schedule of finalize: the tag written through auth_tag contains the carried hash times H^(1 + [a partial
      block is pending]) and the length block times H.
R07.7 the context is owned by the CPU-specific bodies: no branch of a public isal_aes_gcm_* wrapper depends on a value
      loaded through its context_data argument - the families keep different invariants there (VAES leaves
      partial_block_length = 16 after an update that ends on a block boundary), so a wrapper-level condition on a
      context field makes streaming and one-shot disagree on some family.
The update bodies' alignment, in-place and tag-extent clauses are decided under C02 (R02.1, R02.5, R02.2), the
zero-length update under C08 R08.7.
"""
import collections
import re

import absint
import ghash
import build
import c19
import cands
import ir
import par
import x86
from report import Finding

LEVEL = "other"
RULE_TEXT = __doc__.split("\n\n", 3)[3].replace("\n      ", " ")
ARGREGS = ["RDI", "RSI", "RDX", "RCX", "R8", "R9"]
INIT_FIELDS = ["aad_hash", "aad_length", "in_length", "orig_IV", "current_counter", "partial_block_length"]
FINAL_READS = ["in_length", "aad_length", "aad_hash", "orig_IV"]


def flat_roots(v):
    rs = absint.roots(v)
    if rs is None:
        return None
    out = set()
    for r in rs:
        if isinstance(r, str):
            out.add(r)
        elif isinstance(r, tuple) and r and r[0] == "ld":
            out |= {x for x in r[1] if isinstance(x, str)}
    return out


def reach_avoiding(f, start, avoid, targets):
    """True when some block of `targets` is reachable from `start` blocks without entering a block of `avoid`."""
    seen = set()
    st = list(start)
    while st:
        x = st.pop()
        if x in seen or x in avoid:
            continue
        seen.add(x)
        if x in targets:
            return True
        st.extend(f.succ.get(x, []))
    return False


_PRE = {}


def lengths_for(pb, thorough):
    if thorough:
        return list(range(1, 1150)) if pb in (0, 16) else list(range(1, 300)) + [16 * k + r for k in (31, 32, 33, 47, 48, 49, 64) for r in (0, 16 - pb, 17 - pb)]
    big = (5, 7, 8, 9, 12, 15, 16, 17, 24, 31, 32, 33, 40, 47, 48, 49, 50, 64, 65)
    if pb in (0, 16):
        return list(range(1, 81)) + [16 * k + r for k in big for r in (0, 1, 15)]
    return list(range(1, 49)) + [16 * k + r for k in (8, 16, 17, 32, 33, 48, 49) for r in (0, 16 - pb, 17 - pb)]


def gh_rule(lib, o, key, name, kind, sig, fields, extra, out, add):
    thorough = extra.get("tier") == "thorough"
    m = re.match(r"^_aes_gcm_(enc|dec)_(128|256)_(update|finalize)_(\w+?)(_nt)?$", name)
    if not m:
        out["broken"].append("%s: name not understood by the GHASH rule" % name)
        return
    pre_name = "_aes_gcm_precomp_%s_%s" % (m.group(2), m.group(4))
    if pre_name not in _PRE:
        try:
            pf = lib.func_named(pre_name)
        except Exception:
            pf = None
        km = None
        if pf is not None:
            pm = ghash.GhashMachine(lib, pf, {"RDI": ("p", "key_data", 0)}, precomp=True)
            pr = pm.run()
            if pr.returned and not pr.stopped and pm.finals:
                km = pm.finals[0].get("key_data", [])
                if not any(("K", 1) in e[2] for e in km):
                    km = None
        _PRE[pre_name] = km
    keymem = _PRE[pre_name]
    if keymem is None:
        out["broken"].append("%s: the precomp body %s could not be interpreted (no H in the key table)" % (name, pre_name))
        return
    f = lib.func(key)
    hoff = fields["aad_hash"][0]
    pboff = fields["partial_block_length"][0]
    lo_len, hi_len = fields["aad_length"][0], fields["in_length"][0] + 8
    names = {s_[0]: k for k, s_ in enumerate(sig) if s_}
    judged = notj = 0
    why = None
    bad = None
    pbs = list(range(16) if thorough else (0, 1, 8, 15)) + ([16] if "vaes" in name else [])
    for PB in pbs:
        Ls = lengths_for(PB, thorough) if kind == "update" else [0]
        for L in Ls:
            entry = {}
            for k, sg in enumerate(sig):
                if sg is None or k >= 6:
                    continue
                isptr = "*" in (sg[2] or "")
                nm_ = sg[0] or ("arg%d" % k)
                entry[ARGREGS[k]] = ("p", nm_, 0) if isptr else (L if nm_ == "len" else 16 if nm_ == "auth_tag_len" else None)

            def hook(i, a, size, _pb=PB):
                if a[0] == "p" and a[1] == "context_data" and a[2] == pboff and size == 8:
                    return _pb
                return None
            mch = ghash.GhashMachine(lib, f, entry, mem_hook=hook, pb=PB, hash_off=hoff, keymem=keymem, len_range=(lo_len, hi_len))
            rr = mch.run()
            if rr.stopped or not rr.returned or not mch.finals:
                notj += 1
                why = why or rr.stopped or "no return reached"
                continue
            judged += 1
            if bad:
                continue
            for fin, scal in zip(mch.finals, mch.final_scalars):
                if kind == "update":
                    got = set()
                    for (l, h, ss) in fin.get("context_data", []):
                        if l < hoff + 16 and hoff < h:
                            got |= ss
                    newpb = scal.get(("context_data", pboff), PB)      # not stored: the field keeps the value the call was entered with
                    if not isinstance(newpb, int):
                        judged -= 1
                        notj += 1
                        why = why or "the stored partial_block_length is not a known value"
                        break
                    if newpb > 16 or newpb > PB + L or (PB + L - newpb) % 16:
                        bad = (L, PB, "the call leaves ctx->partial_block_length = %d; with %d byte(s) pending before and %d consumed it must be congruent to %d modulo 16 and at most 16" % (newpb, PB, L, (PB + L) % 16))
                        break
                    n = (PB + L - newpb) // 16
                    want = [("A", n)] + [(("D", k), n - k) for k in range(PB // 16, n)] + ([(("D", n), 0)] if newpb else [])
                    where = "ctx->aad_hash"
                else:
                    got = set()
                    for (l, h, ss) in fin.get("auth_tag", []):
                        got |= ss
                    want = [("A", 1 + (1 if PB else 0)), ("L", 1)]
                    where = "the tag"
                miss = [w for w in want if w not in got]
                if miss:
                    w = miss[0]
                    have = sorted(e for (s_, e) in got if s_ == w[0])
                    what = "the hash carried in the context" if w[0] == "A" else "the length block" if w[0] == "L" else "block %d of this call's data" % w[0][1]
                    bad = (L, PB, "%s must reach %s multiplied by H^%d; on this path it arrives %s" % (what, where, w[1], ("multiplied by H^" + ", H^".join(map(str, have))) if have else "not at all"))
                    break
    out["gh_judged"] = out.get("gh_judged", 0) + judged
    out["gh_notjudged"] = out.get("gh_notjudged", 0) + notj
    out["gh_bodies"] = out.get("gh_bodies", 0) + 1
    if notj and len(out.setdefault("gh_why", [])) < 3:
        out["gh_why"].append("%s: %s" % (name, why))
    rule = "R07.5" if kind == "update" else "R07.6"
    if bad:
        add(rule, name, "ghash:len=%d,pb=%d" % (bad[0], bad[1]), ("with len = %d and %d pending partial-block byte(s): " % (bad[0], bad[1]) if kind == "update" else "with %d pending partial-block byte(s): " % bad[1]) + bad[2], f.entry, key[1])
    else:
        out["gh_ok_" + kind] = out.get("gh_ok_" + kind, 0) + 1
    if judged == 0:
        out["broken"].append("%s: no run of the GHASH interpretation could be followed (%s)" % (name, why))


def worker(lib, objname, extra):
    cand = extra["cand"]
    fields = extra["fields"]
    o = lib.by_name[objname]
    out = {"findings": [], "broken": [], "update": 0, "final": 0, "init": 0, "ok1": 0, "ok2": 0, "ok3": 0, "data": 0, "samples": []}

    def add(rule, fn, construct, msg, addr, sec):
        out["findings"].append({"rule": rule, "obj": objname, "function": fn, "construct": construct, "message": msg, "loc": o.line_of(sec, addr) or "%s+%#x" % (objname, addr)})
    for key, name in lib.entry_list:
        if key[0] != objname or name not in cand:
            continue
        iface, sig = cand[name]
        kind = "update" if "_update_" in name else "final" if "_finalize_" in name else "init" if "_init_" in name else None
        if kind is None:
            continue
        names = {s[0]: ARGREGS[k] for k, s in enumerate(sig) if s and k < 6}
        ctx = names.get("context_data")
        if ctx is None:
            out["broken"].append("%s: no context_data argument in %r" % (name, sig))
            continue
        f = lib.func(key)
        p1 = absint.Interp(lib, lambda t, c=None: c19.summary_of(lib, t, c), keep_regs=True).run(f)
        for b in p1.broken:
            out["broken"].append("%s::%s %s" % (objname, name, b))
        ctx_loads = collections.defaultdict(set)
        ctx_stores = collections.defaultdict(set)
        store_cov = {}
        adds = []
        data = []
        tagst = []
        for b, bl in f.blocks.items():
            for i in bl:
                if i.mem < 0 or i.op.startswith(("LEA", "PREFETCH")):
                    continue
                m = p1.maddr.get(i.addr)
                if not m:
                    continue
                v = m[0]
                fr = flat_roots(v)
                if fr and kind == "update" and (names.get("in") in fr or names.get("out") in fr):
                    data.append((b, i))
                if fr and kind == "final" and names.get("auth_tag") in fr and i.writes_mem_operand():
                    tagst.append((b, i))
                if v[0] == "init" and v[1] == ctx and not m[1]:
                    sz = i.memsize() or 8
                    for fn_, (off, fsz) in fields.items():
                        if v[2] < off + fsz and off < v[2] + sz:
                            if i.writes_mem_operand():
                                cov_ = store_cov.setdefault((fn_, b), set())
                                cov_ |= set(range(max(v[2], off), min(v[2] + sz, off + fsz)))
                                if len(cov_) >= fsz:
                                    ctx_stores[fn_].add(b)      # the block writes every byte of the field
                            if i.reads_mem_operand():
                                ctx_loads[fn_].add(b)
                            if fn_ == "in_length" and i.op.startswith("ADD64m") and i.writes_mem_operand():
                                src = i.ops[i.mem + 5] if i.mem + 5 < len(i.ops) else None
                                st = p1.reg_at.get(i.addr) or {}
                                sv = st.get(x86.PARENT.get(src[1])) if src and src[0] == "r" and src[1] in x86.PARENT else None
                                adds.append((b, i, sv))
        retb = {b for b, bl in f.blocks.items() if bl[-1].is_ret() or (bl[-1].is_branch() and bl[-1].rel)}
        if kind in ("update", "final"):
            gh_rule(lib, o, key, name, kind, sig, fields, extra, out, add)
        if kind == "update":
            out["update"] += 1
            out["data"] += len(data)
            lenreg = names.get("len")
            good = [a for a in adds if a[2] is not None and a[2][0] == "init" and a[2][1] == lenreg and a[2][2] == 0]
            bad = None
            if len(adds) != 1 or len(good) != 1:
                bad = (f.blocks[f.entry][0], "%d instruction(s) add to ctx->in_length, %d of them the unmodified len argument; exactly one is required" % (len(adds), len(good)))
            else:
                ab = {good[0][0]}
                und = [(b, i) for (b, i) in data if reach_avoiding(f, [f.entry], ab, {b})]
                # same block as the add: the add must come first
                for (b, i) in data:
                    if b == good[0][0] and i.addr < good[0][1].addr:
                        und.append((b, i))
                if und:
                    bad = (und[0][1], "`%s` accesses the data buffers on a path that has not added len to ctx->in_length (%d such access(es)): finalize would hash a length that omits these bytes" % (und[0][1].text.strip(), len(und)))
            if not data:
                out["broken"].append("%s: no access through in/out found" % name)
            if bad:
                add("R07.1", name, "in_length", bad[1], bad[0].addr, key[1])
            else:
                out["ok1"] += 1
        elif kind == "final":
            out["final"] += 1
            bad = None
            if not tagst:
                out["broken"].append("%s: no store through auth_tag found" % name)
            for fn_ in FINAL_READS:
                lb = ctx_loads.get(fn_, set())
                for (b, i) in tagst:
                    if b in lb:
                        continue
                    if reach_avoiding(f, [f.entry], lb, {b}):
                        bad = bad or (i, fn_)
            if bad:
                add("R07.2", name, "finalize-reads:" + bad[1], "`%s` writes the tag on a path that never read ctx->%s: the tag cannot depend on what the update calls carried there" % (bad[0].text.strip(), bad[1]), bad[0].addr, key[1])
            else:
                out["ok2"] += 1
        else:
            out["init"] += 1
            bad = None
            for fn_ in INIT_FIELDS:
                if reach_avoiding(f, [f.entry], ctx_stores.get(fn_, set()), retb):
                    bad = bad or fn_
            if bad:
                add("R07.3", name, "init-field:" + bad, "some path of this init body returns without storing ctx->%s: a context reused for a new message would continue with the previous message's value" % bad, f.entry, key[1])
            else:
                out["ok3"] += 1
        if len(out["samples"]) < 1:
            out["samples"].append({"function": name, "kind": kind, "context_register": ctx, "in_length_adds": len(adds), "data_accesses": len(data), "tag_stores": len(tagst)})
    return out


def run(chk):
    units, stats = build.build("default")
    lib = x86.Library(units)
    chk.extra["build"] = stats
    mods = ir.load_modules([u for u in units if u["kind"] == "c" and u["src"] in ("aes/aes_gcm.c", "aes/gcm_pre.c")])
    fields = None
    for M in mods.values():
        ds = M.distructs.get("isal_gcm_context_data")
        if ds:
            fields = {m["name"]: (m["off"], m["size"]) for m in ds["members"]}
    need = set(INIT_FIELDS) | set(FINAL_READS) | {"partial_block_enc_key"}
    if not fields or not need <= set(fields):
        chk.broke("struct isal_gcm_context_data (with members %s) not found in DWARF" % sorted(need))
        return
    chk.extra["context_layout"] = fields
    cand, ndisp = cands.candidates(chk, lib, mods, "aes/", ["_aes_gcm_enc_", "_aes_gcm_dec_", "_aes_gcm_init_"])
    sel = {c: v for c, v in cand.items() if any(t in c for t in ("_update_", "_finalize_", "_init_"))}
    objs = sorted({lib._by_name[c][0] for c in sel if c in lib._by_name})
    res = par.map_objects(lib, worker, objs, extra={"cand": sel, "fields": fields, "tier": chk.tier})
    tot = collections.Counter()
    for objname in sorted(res):
        r = res[objname]
        for k in ("update", "final", "init", "ok1", "ok2", "ok3", "data"):
            tot[k] += r[k]
        for k in ("gh_judged", "gh_notjudged", "gh_bodies", "gh_ok_update", "gh_ok_final"):
            tot[k] += r.get(k, 0)
        for w_ in r.get("gh_why", []):
            if len(chk.notes) < 6:
                chk.notes.append("GHASH interpretation not followed: " + w_)
        for b in r["broken"]:
            chk.broke(b)
        for fd in r["findings"]:
            chk.finding(Finding(fd["rule"], fd["obj"], fd["function"], fd["construct"], fd["message"], loc=fd["loc"]))
        for s in r["samples"]:
            if len(chk.samples) < 6:
                chk.samples.append(dict(rule="R07.1-3", **s))
    # ---- R07.7
    n77 = 0
    Mw = mods.get("aes/aes_gcm.c")
    if Mw is None:
        chk.broke("aes/aes_gcm.c not in the build")
    else:
        for Fw in Mw.defined():
            if not re.match(r"^isal_aes_gcm_", Fw.name):
                continue
            cn = Fw.arg_index("context_data")
            if cn is None:
                continue
            n77 += 1

            def from_ctx(v, depth=0):
                I = Fw.resolve(v)
                if not isinstance(I, ir.Inst) or depth > 12:
                    return None
                if I.op == "load":
                    root, off = Fw.ptr_root(I.ops[0])
                    if Fw.is_arg(root, cn):
                        return I
                    return None
                if I.op in ("call", "alloca", "phi"):
                    if I.op == "phi":
                        for inc in I.incoming:
                            r_ = from_ctx(inc["v"], depth + 1)
                            if r_ is not None:
                                return r_
                    return None
                for o_ in I.ops:
                    r_ = from_ctx(o_, depth + 1)
                    if r_ is not None:
                        return r_
                return None
            bad77 = None
            for B in Fw.blocks:
                T = B.insts[-1]
                if T.op == "br" and T.raw.get("cond"):
                    ld = from_ctx(T.ops[0])
                    if ld is not None:
                        bad77 = bad77 or (T, ld)
                elif T.op == "switch":
                    ld = from_ctx(T.ops[0])
                    if ld is not None:
                        bad77 = bad77 or (T, ld)
            chk.obligation("R07.7", bad77 is None, key=("wrapper", Fw.name), sample={"function": Fw.name})
            if bad77:
                fld = Fw.field(bad77[1].ops[0])
                fname = fld[1][-1][1] if fld and fld[1] else "a context field"
                chk.finding(Finding("R07.7", "aes/aes_gcm.c", Fw.name, "wrapper-reads-context:" + str(fname), "a branch of this public wrapper depends on context_data->%s; the CPU-specific bodies own the context and keep family-specific invariants there, so the wrapper's verdict differs between families and between streaming and one-shot" % fname, loc=bad77[0].loc()))
    chk.floor("public GCM wrappers with a context argument", n77, 16)
    # ---- R07.4
    def group_of(iface):
        m = re.match(r"^_aes_gcm_(precomp|enc|dec)_(128|256)(_update)?(_nt)?$", iface)
        return "gcm-%s" % m.group(2) if m else None
    ncoh = cands.coherence_rule(chk, "R07.4", lib, ["_aes_gcm_"], group_of,
                                "the hash-key table the precomp routine writes into the key data is laid out for its own family (VAES keeps different powers of H at different offsets), so an update that reads it through another family's offsets produces a wrong tag")
    chk.floor("CPU classes x GCM key sizes compared for family coherence", ncoh, 12)
    chk.obligations["R07.1"] = [tot["update"], tot["ok1"]]
    chk.obligations["R07.2"] = [tot["final"], tot["ok2"]]
    chk.obligations["R07.3"] = [tot["init"], tot["ok3"]]
    chk.obligations["R07.5"] = [tot["update"], tot["gh_ok_update"]]
    chk.obligations["R07.6"] = [tot["final"], tot["gh_ok_final"]]
    chk.floor("GHASH-schedule runs followed to a return", tot["gh_judged"], 8000 if chk.tier != "thorough" else 40000)
    chk.extra["ghash_runs"] = {"followed": tot["gh_judged"], "not_followed": tot["gh_notjudged"], "bodies": tot["gh_bodies"]}
    chk.floor("update bodies", tot["update"], 32)
    chk.floor("finalize bodies", tot["final"], 16)
    chk.floor("init bodies", tot["init"], 8)
    chk.floor("data accesses in update bodies", tot["data"], 5000)
    for c in sel:
        chk.distinct.add(("body", c))
    chk.trusted += ["LLVM 14 MC decoding", "DWARF layout of struct isal_gcm_context_data", "argument order of the _aes_gcm_* interfaces from aes/aes_gcm.c"]
    chk.assumptions += ["dominance is taken at basic-block granularity (the add is compared by address with accesses of its own block)"]
    chk.extra.update({"update_bodies": tot["update"], "finalize_bodies": tot["final"], "init_bodies": tot["init"], "data_accesses": tot["data"],
                      "not_decided": "that the carried values (GHASH state, counter, key-stream of the partial block) are the right ones: output bytes and tag for every segmentation"})
    return ("%d update bodies count every consumed byte exactly once in ctx->in_length (%d data accesses dominated); %d finalize bodies read the carried lengths, hash and IV before writing the tag; %d init bodies store all six carry fields on every path." %
            (tot["update"], tot["data"], tot["final"], tot["init"]))
