"""C07 - AES-GCM streaming == one-shot: the carry-state clauses (PARTIAL; output and tag values are not decided).

Streaming equals one-shot only if the context carries the right state from call to call.  What that state is worth
is arithmetic; that it is initialised, accounted and consumed on every path is in the shape of the code.

Engine: object code of the GCM init / update / finalize bodies of the four families (default build), phase-1
pointer provenance with the context layout from DWARF (struct isal_gcm_context_data), block-level dominance.

R07.1 length accounting: in each of the 32 update bodies exactly one instruction adds the len argument to
      ctx->in_length, and every access through in or out is dominated by it - no path consumes data without
      counting it, none counts it twice (finalize hashes in_length into the tag).
R07.2 finalize consumes the carried state: in each of the 16 finalize bodies every store through auth_tag is
      dominated by loads of ctx->in_length, ctx->aad_length (the GHASH length block), ctx->aad_hash and
      ctx->orig_IV (E(K, Y0)).
R07.3 init leaves no stale carry: on every path of each of the 8 init bodies ctx->aad_hash, aad_length, in_length,
      orig_IV, current_counter and partial_block_length are stored before returning.  partial_block_enc_key is
      exempt: the VAES family never initialises it and every family writes it before partial_block_length becomes
      non-zero (confirmed by reading; its definedness is C20's).
The update bodies' alignment, in-place and tag-extent clauses are decided under C02 (R02.1, R02.5, R02.2), the
zero-length update under C08 R08.7.
"""
import collections

import absint
import build
import c19
import cands
import ir
import par
import x86
from report import Finding

LEVEL = "other"
RULE_TEXT = __doc__.split("\n\n", 3)[3].replace("\n      ", " ")
ARGREGS = ["RDI", "RSI", "RDX", "RCX", "R8", "R9"]
INIT_FIELDS = ["aad_hash", "aad_length", "in_length", "orig_IV", "current_counter", "partial_block_length"]
FINAL_READS = ["in_length", "aad_length", "aad_hash", "orig_IV"]


def flat_roots(v):
    rs = absint.roots(v)
    if rs is None:
        return None
    out = set()
    for r in rs:
        if isinstance(r, str):
            out.add(r)
        elif isinstance(r, tuple) and r and r[0] == "ld":
            out |= {x for x in r[1] if isinstance(x, str)}
    return out


def reach_avoiding(f, start, avoid, targets):
    """True when some block of `targets` is reachable from `start` blocks without entering a block of `avoid`."""
    seen = set()
    st = list(start)
    while st:
        x = st.pop()
        if x in seen or x in avoid:
            continue
        seen.add(x)
        if x in targets:
            return True
        st.extend(f.succ.get(x, []))
    return False


def worker(lib, objname, extra):
    cand = extra["cand"]
    fields = extra["fields"]
    o = lib.by_name[objname]
    out = {"findings": [], "broken": [], "update": 0, "final": 0, "init": 0, "ok1": 0, "ok2": 0, "ok3": 0, "data": 0, "samples": []}

    def add(rule, fn, construct, msg, addr, sec):
        out["findings"].append({"rule": rule, "obj": objname, "function": fn, "construct": construct, "message": msg, "loc": o.line_of(sec, addr) or "%s+%#x" % (objname, addr)})
    for key, name in lib.entry_list:
        if key[0] != objname or name not in cand:
            continue
        iface, sig = cand[name]
        kind = "update" if "_update_" in name else "final" if "_finalize_" in name else "init" if "_init_" in name else None
        if kind is None:
            continue
        names = {s[0]: ARGREGS[k] for k, s in enumerate(sig) if s and k < 6}
        ctx = names.get("context_data")
        if ctx is None:
            out["broken"].append("%s: no context_data argument in %r" % (name, sig))
            continue
        f = lib.func(key)
        p1 = absint.Interp(lib, lambda t, c=None: c19.summary_of(lib, t, c), keep_regs=True).run(f)
        for b in p1.broken:
            out["broken"].append("%s::%s %s" % (objname, name, b))
        ctx_loads = collections.defaultdict(set)
        ctx_stores = collections.defaultdict(set)
        adds = []
        data = []
        tagst = []
        for b, bl in f.blocks.items():
            for i in bl:
                if i.mem < 0 or i.op.startswith(("LEA", "PREFETCH")):
                    continue
                m = p1.maddr.get(i.addr)
                if not m:
                    continue
                v = m[0]
                fr = flat_roots(v)
                if fr and kind == "update" and (names.get("in") in fr or names.get("out") in fr):
                    data.append((b, i))
                if fr and kind == "final" and names.get("auth_tag") in fr and i.writes_mem_operand():
                    tagst.append((b, i))
                if v[0] == "init" and v[1] == ctx and not m[1]:
                    sz = i.memsize() or 8
                    for fn_, (off, fsz) in fields.items():
                        if v[2] < off + fsz and off < v[2] + sz:
                            if i.writes_mem_operand():
                                ctx_stores[fn_].add(b)
                            if i.reads_mem_operand():
                                ctx_loads[fn_].add(b)
                            if fn_ == "in_length" and i.op.startswith("ADD64m") and i.writes_mem_operand():
                                src = i.ops[i.mem + 5] if i.mem + 5 < len(i.ops) else None
                                st = p1.reg_at.get(i.addr) or {}
                                sv = st.get(x86.PARENT.get(src[1])) if src and src[0] == "r" and src[1] in x86.PARENT else None
                                adds.append((b, i, sv))
        retb = {b for b, bl in f.blocks.items() if bl[-1].is_ret() or (bl[-1].is_branch() and bl[-1].rel)}
        if kind == "update":
            out["update"] += 1
            out["data"] += len(data)
            lenreg = names.get("len")
            good = [a for a in adds if a[2] is not None and a[2][0] == "init" and a[2][1] == lenreg and a[2][2] == 0]
            bad = None
            if len(adds) != 1 or len(good) != 1:
                bad = (f.blocks[f.entry][0], "%d instruction(s) add to ctx->in_length, %d of them the unmodified len argument; exactly one is required" % (len(adds), len(good)))
            else:
                ab = {good[0][0]}
                und = [(b, i) for (b, i) in data if reach_avoiding(f, [f.entry], ab, {b})]
                # same block as the add: the add must come first
                for (b, i) in data:
                    if b == good[0][0] and i.addr < good[0][1].addr:
                        und.append((b, i))
                if und:
                    bad = (und[0][1], "`%s` accesses the data buffers on a path that has not added len to ctx->in_length (%d such access(es)): finalize would hash a length that omits these bytes" % (und[0][1].text.strip(), len(und)))
            if not data:
                out["broken"].append("%s: no access through in/out found" % name)
            if bad:
                add("R07.1", name, "in_length", bad[1], bad[0].addr, key[1])
            else:
                out["ok1"] += 1
        elif kind == "final":
            out["final"] += 1
            bad = None
            if not tagst:
                out["broken"].append("%s: no store through auth_tag found" % name)
            for fn_ in FINAL_READS:
                lb = ctx_loads.get(fn_, set())
                for (b, i) in tagst:
                    if b in lb:
                        continue
                    if reach_avoiding(f, [f.entry], lb, {b}):
                        bad = bad or (i, fn_)
            if bad:
                add("R07.2", name, "finalize-reads:" + bad[1], "`%s` writes the tag on a path that never read ctx->%s: the tag cannot depend on what the update calls carried there" % (bad[0].text.strip(), bad[1]), bad[0].addr, key[1])
            else:
                out["ok2"] += 1
        else:
            out["init"] += 1
            bad = None
            for fn_ in INIT_FIELDS:
                if reach_avoiding(f, [f.entry], ctx_stores.get(fn_, set()), retb):
                    bad = bad or fn_
            if bad:
                add("R07.3", name, "init-field:" + bad, "some path of this init body returns without storing ctx->%s: a context reused for a new message would continue with the previous message's value" % bad, f.entry, key[1])
            else:
                out["ok3"] += 1
        if len(out["samples"]) < 1:
            out["samples"].append({"function": name, "kind": kind, "context_register": ctx, "in_length_adds": len(adds), "data_accesses": len(data), "tag_stores": len(tagst)})
    return out


def run(chk):
    units, stats = build.build("default")
    lib = x86.Library(units)
    chk.extra["build"] = stats
    mods = ir.load_modules([u for u in units if u["kind"] == "c" and u["src"] in ("aes/aes_gcm.c", "aes/gcm_pre.c")])
    fields = None
    for M in mods.values():
        ds = M.distructs.get("isal_gcm_context_data")
        if ds:
            fields = {m["name"]: (m["off"], m["size"]) for m in ds["members"]}
    need = set(INIT_FIELDS) | set(FINAL_READS) | {"partial_block_enc_key"}
    if not fields or not need <= set(fields):
        chk.broke("struct isal_gcm_context_data (with members %s) not found in DWARF" % sorted(need))
        return
    chk.extra["context_layout"] = fields
    cand, ndisp = cands.candidates(chk, lib, mods, "aes/", ["_aes_gcm_enc_", "_aes_gcm_dec_", "_aes_gcm_init_"])
    sel = {c: v for c, v in cand.items() if any(t in c for t in ("_update_", "_finalize_", "_init_"))}
    objs = sorted({lib._by_name[c][0] for c in sel if c in lib._by_name})
    res = par.map_objects(lib, worker, objs, extra={"cand": sel, "fields": fields})
    tot = collections.Counter()
    for objname in sorted(res):
        r = res[objname]
        for k in ("update", "final", "init", "ok1", "ok2", "ok3", "data"):
            tot[k] += r[k]
        for b in r["broken"]:
            chk.broke(b)
        for fd in r["findings"]:
            chk.finding(Finding(fd["rule"], fd["obj"], fd["function"], fd["construct"], fd["message"], loc=fd["loc"]))
        for s in r["samples"]:
            if len(chk.samples) < 6:
                chk.samples.append(dict(rule="R07.1-3", **s))
    chk.obligations["R07.1"] = [tot["update"], tot["ok1"]]
    chk.obligations["R07.2"] = [tot["final"], tot["ok2"]]
    chk.obligations["R07.3"] = [tot["init"], tot["ok3"]]
    chk.floor("update bodies", tot["update"], 32)
    chk.floor("finalize bodies", tot["final"], 16)
    chk.floor("init bodies", tot["init"], 8)
    chk.floor("data accesses in update bodies", tot["data"], 5000)
    for c in sel:
        chk.distinct.add(("body", c))
    chk.trusted += ["LLVM 14 MC decoding", "DWARF layout of struct isal_gcm_context_data", "argument order of the _aes_gcm_* interfaces from aes/aes_gcm.c"]
    chk.assumptions += ["dominance is taken at basic-block granularity (the add is compared by address with accesses of its own block)"]
    chk.extra.update({"update_bodies": tot["update"], "finalize_bodies": tot["final"], "init_bodies": tot["init"], "data_accesses": tot["data"],
                      "not_decided": "that the carried values (GHASH state, counter, key-stream of the partial block) are the right ones: output bytes and tag for every segmentation"})
    return ("%d update bodies count every consumed byte exactly once in ctx->in_length (%d data accesses dominated); %d finalize bodies read the carried lengths, hash and IV before writing the tag; %d init bodies store all six carry fields on every path." %
            (tot["update"], tot["data"], tot["final"], tot["init"]))
