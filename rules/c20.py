"""C20 (partial) - results depend on declared inputs only, never on stale memory or registers.

Decided:
R20.1 registers and flags: at entry only the argument registers of the interface's arity, rsp and the callee-saved
      registers are defined; every other GPR, vector byte, opmask register and flag is undefined.  Undefinedness
      propagates byte-wise through moves / shuffles / inserts, lane-wise through arithmetic and logic, all-or-
      nothing otherwise, and is reported when it reaches an address computation, a store to non-stack memory,
      a flag-consuming instruction, or an argument of a call.  Compares of undefined values only make flags undefined.
R20.2 own stack: a load from a fixed slot of a frame the function created yields undefined bytes unless a store
      to those bytes reaches it on every path.
R20.3 call boundaries: assembly kernels with private conventions are analysed in the context of each call site;
      other callees follow the SysV ABI (caller-saved state undefined afterwards, rax defined).
R20.4 a new message forgets the old one: in every _ctx_mgr_submit_*, under flags & FIRST, the stores that reset
      total_length, partial_block_buffer_length and the digest precede every read of them.
R20.6 the public initialiser macro isal_hash_ctx_init defines ctx->status and ctx->error for every context type (a
      compile-time witness: the macro expanded in a one-line function, clang IR inspected for the two stores).
R20.5 manager init covers what submit / flush assume: every byte of the manager that a family's submit / flush
      assembly may read at a fixed offset before writing it is written on every path by the init function that
      family's ctx layer calls (memset, field stores, canonical counted loops).
R20.6 init functions define the whole object: every _aes_gcm_init_* body stores to every byte of the context
      structure's defined fields on every path; the mh_* init functions memset the full context.
NOT decided: dependence on lane-indexed manager memory (idle lanes) and on output-buffer prefill.
"""
import collections
import os
import re

import build
import ir
import par
import roles
import x86
import absint
import defined
import c12
import c19
from report import Finding

LEVEL = "other"
RULE_TEXT = __doc__.split("\n\n", 1)[1].replace("\n      ", " ")

_P1 = {}
_INLINE = {}


def phase1(lib, key, ctx=None):
    mk = (key, ctx) if ctx else key
    if mk in _P1:
        return _P1[mk]
    ip = absint.Interp(lib, lambda t, c=None: c19.summary_of(lib, t, c), keep_regs="rsp", entry_facts=dict(ctx) if ctx else None)
    r = ip.run(lib.func(key))
    _P1[mk] = r
    return r


def state_key(st):
    g, v, k, fl, sl = st
    return (tuple(g[r] for r in x86.G64), tuple(sorted((i, m if not isinstance(m, tuple) else m[0]) for i, m in v.items())), tuple(sorted((a, b) for a, b in k.items() if not a.endswith("#v"))), fl["CF"], fl["AR"])


def _escape_frames(di, i, st):
    """A callee that is handed the address of (part of) this function's frame may write it: from here on, loads
    from that frame count as defined (R20.2 is about slots only this function can have written).  Without this a
    context object on the stack that the callee fills in would read as 'never written'."""
    args = None
    for (ci, t, a) in di.p1.callargs:
        if ci.addr == i.addr:
            args = a
    if not args:
        return
    for r_, v in args.items():
        if v is None:
            continue
        if v[0] in ("sp", "fr"):
            k = absint.Interp.slot_key(v)
            st[4][k[:-1] + ("*",)] = (0, 0)
        else:
            rs = absint.roots(v)
            if rs and ("stack",) in rs:
                st[4][("sp", "*")] = (0, 0)
                for fid in di.p1.frames:
                    st[4][("fr", fid, "*")] = (0, 0)


def make_call_handler(lib, priv, arity, reports_for):
    def handler(di, i, st, final):
        gpr, vec, kreg, flags, slots = st
        f = di.f
        _escape_frames(di, i, st)
        tgt = lib.resolve_reloc_target(f.obj, i) if i.rel else None
        if tgt is None:
            bt = i.branch_target()
            if bt is not None:
                tgt = ("func", (f.obj.name, f.sec, bt))
        if tgt and tgt[0] == "func" and tgt[1] in priv:
            ck = tgt[1]
            entry = defined.DefInterp.copy(st)
            entry = (entry[0], entry[1], entry[2], entry[3], {})
            ctx = di.p1.callctx.get(i.addr) or None
            mk = (ck, state_key(entry), ctx)
            if mk in _INLINE:
                ex, reps = _INLINE[mk]
            else:
                _INLINE[mk] = (None, [])
                sub = defined.DefInterp(lib, lib.func(ck), phase1(lib, ck, ctx), entry, handler)
                r = sub.run()
                ex, reps = r.exit_state, r.reports
                _INLINE[mk] = (ex, reps)
            if final:
                for (ci, kind, what) in reps:
                    reports_for.append((lib.entries_by_key.get(ck), lib.by_name[ck[0]], ck, ci, kind, what, "called from %s" % f.name))
            if ex is not None:
                for r_ in x86.G64:
                    if r_ != "RSP":
                        gpr[r_] = ex[0][r_]
                vec.clear()
                vec.update(ex[1])
                kreg.clear()
                kreg.update(ex[2])
                flags.update(ex[3])
            return
        # library callee with a computed register summary (gcc's -fipa-ra relies on it for static functions)
        if tgt and tgt[0] == "func" and not c19.is_stub(lib, tgt[1]):
            sm = c19.summary_of(lib, tgt)
            cname = lib.entries_by_key.get(tgt[1])
            n = arity.get(cname)
            if n is not None:
                if final:
                    di.res.sinks_checked += 1
                for r_ in x86.ARG_REGS[:min(n, 6)]:
                    if (gpr[r_] & 0x0F) != 0x0F:
                        di.report(i, "call-argument", "%s passed to %s" % (r_.lower(), cname), final)
            for r_ in sm.clobbers:
                if r_ != "RSP":
                    gpr[r_] = defined.FULL8        # written by the callee: a function of the callee's inputs
            flags["CF"] = False
            flags["AR"] = False
            return
        # SysV callee
        name = None
        if tgt and tgt[0] == "func":
            name = lib.entries_by_key.get(tgt[1])
        elif tgt and tgt[0] == "ext":
            name = tgt[1]
        n = arity.get(name)
        if n is not None:
            if final:
                di.res.sinks_checked += 1
            for r_ in x86.ARG_REGS[:min(n, 6)]:
                if gpr[r_] != defined.FULL8 and (gpr[r_] & 0x0F) != 0x0F:
                    di.report(i, "call-argument", "%s passed to %s" % (r_.lower(), name), final)
        for r_ in x86.CALLER_SAVED:
            gpr[r_] = 0
        gpr["RAX"] = defined.FULL8
        gpr["RDX"] = defined.FULL8     # second return register
        vec.clear()
        vec[0] = defined.FULL64
        vec[1] = defined.FULL64
        for k in list(kreg):
            kreg[k] = False if not k.endswith("#v") else kreg[k] + 1
        flags["CF"] = False
        flags["AR"] = False
    return handler


def confirm_on_skeleton(lib, f, sig, p1, entry, handler, retdef_, pboff):
    """(addresses of instructions reported on some concrete path, number of paths replayed)"""
    import lenrun
    lens = list(range(1, 81)) + [16 * k + r for k in (5, 7, 8, 9, 12, 15, 16, 17, 24, 31, 32, 33, 40, 47, 48, 49, 50, 64, 65) for r in (0, 1, 15)]
    if "cbc" in f.name.lower():
        lens = list(range(16, 641, 16))
    elif "XTS" in f.name:
        lens = list(range(16, 300))
    pbs = (0, 8) if "_update_" in f.name else (0,)
    # the other scalar arguments select paths too (a 12-byte AAD and the tag lengths have their own code)
    combos = [(L_, 20, 16) for L_ in lens]
    if "gcm" in f.name:
        combos += [(L_, A_, T_) for L_ in (1, 16, 100) for A_ in (0, 1, 12, 16, 33) for T_ in (8, 12, 16)]
    ARG = ["RDI", "RSI", "RDX", "RCX", "R8", "R9"]
    ok = set()
    npaths = 0
    for PB in pbs:
        for (L, AAD_, TAG_) in combos:
            e_ = {}
            sargs = {}
            for k, sg in enumerate(sig):
                if sg is None:
                    continue
                nm = sg[0] or ("arg%d" % k)
                isptr = "*" in (sg[2] or "")
                v = ("p", nm, 0) if isptr else (L if nm in ("len", "len_bytes", "N") else TAG_ if nm == "auth_tag_len" else AAD_ if nm == "aad_len" else None)
                if k < 6:
                    e_[ARG[k]] = v
                else:
                    sargs[8 + 8 * (k - 6)] = v

            def hook(i, a, size, _pb=PB):
                if a[0] == "p" and a[1] == "sp" and a[2] in sargs and size == 8:
                    return sargs[a[2]]
                if a[0] == "p" and a[1] == "context_data" and a[2] == pboff and size == 8:
                    return _pb
                return None
            m = lenrun.Machine(lib, f, e_, mem_hook=hook)
            m.record_paths = True
            rr = m.run()
            for path in getattr(rr, "paths", []) or []:
                npaths += 1
                di = defined.DefInterp(lib, f, p1, entry, handler, ret_defined=retdef_)
                st = di.copy(entry)
                for b in path:
                    di.block(b, st, True)
                for (i, kind, what) in di.res.reports:
                    ok.add(i.addr)
    return ok, npaths


def worker(lib, objname, extra):
    priv, arity, retdef = extra["priv"], extra["arity"], extra["retdef"]
    o = lib.by_name[objname]
    out = {"reports": [], "broken": [], "funcs": 0, "ins": 0, "sinks": 0, "unknown_arity": 0, "samples": [], "inlined": 0}
    for key, name in lib.entry_list:
        if key[0] != objname or key in priv:
            continue
        if name.endswith(("_dispatch_init", "_mbinit")):
            n = 6       # transparent trampolines run with the interface's arguments live; judged by C19/R19.6
        else:
            n = arity.get(name)
        if n is None:
            n = 6
            out["unknown_arity"] += 1
        f = lib.func(key)
        p1 = phase1(lib, key)
        for b in p1.broken:
            out["broken"].append("%s::%s %s" % (objname, name, b))
        sub_reports = []
        h = make_call_handler(lib, priv, arity, sub_reports)
        entry = defined.DefInterp.sysv_entry(n)
        if name.endswith(("_dispatch_init", "_mbinit")) or c19.is_stub(lib, key):
            # trampolines and stubs forward everything
            for r_ in x86.G64:
                entry[0][r_] = defined.FULL8
            for k in range(32):
                entry[1][k] = defined.FULL64
        di = defined.DefInterp(lib, f, p1, entry, h, ret_defined=retdef.get(name, False))
        r = di.run()
        out["funcs"] += 1
        out["ins"] += r.ins
        out["sinks"] += r.sinks_checked
        for b in r.broken:
            out["broken"].append(b)
        sigs = extra.get("aes_sig") or {}
        if r.reports and name in sigs:
            # The fixpoint joins paths.  For the AES bodies (whose control flow is decided by the length alone) a report
            # is kept only if it is reproduced on a concrete path: the length skeleton supplies the block sequence each
            # length of a dense grid selects, and the same transfer functions run along it without joins.
            okaddrs, npaths = confirm_on_skeleton(lib, f, sigs[name], p1, entry, h, retdef.get(name, False), extra.get("pblock_off", 80))
            out["skeleton_paths"] = out.get("skeleton_paths", 0) + npaths
            if npaths:
                before = len(r.reports)
                r.reports = [x for x in r.reports if x[0].addr in okaddrs]
                out["unconfirmed"] = out.get("unconfirmed", 0) + (before - len(r.reports))
        seen = set()
        for (i, kind, what) in r.reports:
            k2 = (kind, what if kind in ("address", "mask", "call-argument", "return-value") else i.addr)
            if k2 in seen:
                continue
            seen.add(k2)
            out["reports"].append({"obj": objname, "function": name, "kind": kind, "what": what, "insn": i.text.strip(), "loc": o.line_of(key[1], i.addr) or "%s+%#x" % (objname, i.addr), "via": None})
        for (cname, cobj, ck, ci, kind, what, via) in sub_reports:
            k2 = (cname, kind, what if kind in ("address", "mask") else ci.addr)
            if k2 in seen:
                continue
            seen.add(k2)
            out["reports"].append({"obj": cobj.name, "function": cname, "kind": kind, "what": what, "insn": ci.text.strip(), "loc": cobj.line_of(ck[1], ci.addr) or "%s+%#x" % (cobj.name, ci.addr), "via": via})
        out["inlined"] += len(_INLINE)
        if len(out["samples"]) < 1:
            out["samples"].append({"rule": "R20.1", "function": name, "arity": n, "instructions": r.ins, "sinks_checked": r.sinks_checked})
        _P1.pop(key, None)
    return out


def run(chk):
    units, stats = build.build("default")
    lib = x86.Library(units)
    chk.extra["build"] = stats
    mods = ir.load_modules([u for u in units if u["kind"] == "c"])
    chk.trusted += ["LLVM 14 MC operand tables", "arity of each assembly interface = number of arguments at its C call sites"]
    chk.assumptions += ["memory reached through arguments is API-defined state (lane-indexed manager memory and output prefill are NOT decided)",
                        "callee-saved registers count as defined at entry (they may only be saved)", "functions whose arity is unknown are given six defined argument registers (counted)"]
    sigs = roles.interface_signatures(mods)
    arity = {k: len(v) for k, v in sigs.items()}
    retdef = {}
    for M in mods.values():
        for F in M.functions.values():
            if F.decl and F.name.startswith("_"):
                retdef[F.name] = F.raw.get("ret") not in (None, "void")
            if not F.decl:
                arity.setdefault(F.name, len(F.args))
    for ext, n in (("memcpy", 3), ("memset", 3), ("memmove", 3), ("memcmp", 3), ("__memcpy_chk", 4), ("__memset_chk", 4), ("strlen", 1)):
        arity[ext] = n
    # candidates inherit the arity of their interface
    for key, name in lib.entry_list:
        if name.endswith("_dispatch_init"):
            iface = name[:-len("_dispatch_init")]
            n = arity.get(iface)
            if n is None:
                pref = sorted((k for k in arity if iface.startswith(k + "_")), key=len)
                n = arity.get(pref[-1]) if pref else None
            if n is None:
                continue
            try:
                for (facts, stored, addr) in c12.ladder_paths(lib, lib.func(key), None):
                    if isinstance(stored, tuple) and stored[1] and stored[1][0] == "addr":
                        arity.setdefault(stored[1][1], n)
                        if iface in retdef:
                            retdef.setdefault(stored[1][1], retdef[iface])
            except c12.Unmodelled:
                pass
    priv = c19.private_funcs(lib)
    aes_sig = {}
    try:
        import cands as _cands
        amods = ir.load_modules([u for u in units if u["kind"] == "c" and u["src"].startswith("aes/")])

        class _Q(object):
            notes = []

            def broke(self, m):
                pass
        ac, _nd = _cands.candidates(_Q(), lib, amods, "aes/", ["_aes_cbc_", "_XTS_AES", "_aes_gcm_"])
        aes_sig = {k: v[1] for k, v in ac.items()}
    except Exception:
        aes_sig = {}
    res = par.map_objects(lib, worker, [o.name for o in lib.objs], extra={"priv": priv, "arity": arity, "retdef": retdef, "aes_sig": aes_sig})
    tot = collections.Counter()
    import json, os
    with open(os.path.join(build.VERIF, "tables", "c20_infeasible.json")) as fh:
        groups = json.load(fh)["groups"]
    import re as _re2

    def canon(w):
        # the table names the instruction; how it addresses memory is not part of the identity of a reviewed report
        # (index register vs bumped pointer, displacement) - a refactoring of the address arithmetic must not turn a
        # confirmed-infeasible report into an alarm
        return _re2.sub(r"\[[^\]]*\]", "[*]", w or "")
    inf_keys = {}
    for g in groups:
        for e in g["entries"]:
            inf_keys[(e["function"], g["kind"], canon(e["what"]))] = {"reason": g["reason"]}
    used_inf = set()
    for objname in sorted(res):
        r = res[objname]
        for k in ("funcs", "ins", "sinks", "unknown_arity"):
            tot[k] += r[k]
        for b in r["broken"]:
            chk.broke(b)
        for rp in r["reports"]:
            what = rp["what"] if rp["kind"] in ("address", "mask", "call-argument", "return-value") else rp["insn"]
            ident = (rp["function"], rp["kind"], canon(what))
            if ident in inf_keys:
                used_inf.add(ident)
                tot["confirmed_infeasible"] += 1
                continue
            rule = "R20.2" if rp["kind"] == "stack" else "R20.1"
            msg = {"address": "an address is computed from %s, which holds no defined value on some path" % rp["what"],
                   "store": rp["what"], "flags": rp["what"], "mask": "opmask %s is used before it is written" % rp["what"],
                   "call-argument": "undefined %s" % rp["what"], "return-value": "the return value (rax) is undefined on some path"}.get(rp["kind"], str(rp["what"]))
            chk.finding(Finding(rule, rp["obj"], rp["function"], "%s:%s" % (rp["kind"], what), "%s [`%s`]%s" % (msg, rp["insn"], (" (" + rp["via"] + ")") if rp["via"] else ""), loc=rp["loc"]))
        for s in r["samples"]:
            if len(chk.samples) < 8:
                chk.samples.append(s)
    stale = sorted(set(inf_keys) - used_inf)
    chk.extra["infeasible_table_entries"] = len(inf_keys)
    chk.extra["infeasible_table_entries_no_longer_reported"] = [list(x) for x in stale][:20]
    nbad = len(chk.findings)
    chk.obligations["R20.1-3"] = [tot["sinks"], tot["sinks"] - nbad]
    for key, name in lib.entry_list[:3000]:
        chk.distinct.add(("fn", key))
    chk.floor("functions analysed", tot["funcs"], 700)
    chk.floor("sinks checked", tot["sinks"], 100000)
    chk.extra.update({"functions": tot["funcs"], "instructions": tot["ins"], "sinks_checked": tot["sinks"], "functions_with_unknown_arity": tot["unknown_arity"],
                      "private_kernels_analysed_in_context": len(priv), "reports_on_confirmed_infeasible_paths": tot["confirmed_infeasible"]})
    ir_rules(chk, mods)
    r20_5(chk, lib, mods)

    # ---- R20.6 the public context-initialiser macro defines both scalar fields a first submit reads
    import subprocess
    import tempfile
    import shutil
    wd = tempfile.mkdtemp(prefix="verif_w20_", dir=os.environ.get("VERIF_SCRATCH", "/var/tmp"))
    try:
        n206 = 0
        for hdr, ty in (("sha1_mb.h", "ISAL_SHA1_HASH_CTX"), ("sha256_mb.h", "ISAL_SHA256_HASH_CTX"), ("sha512_mb.h", "ISAL_SHA512_HASH_CTX"), ("md5_mb.h", "ISAL_MD5_HASH_CTX"), ("sm3_mb.h", "ISAL_SM3_HASH_CTX")):
            src_ = os.path.join(wd, "w.c")
            with open(src_, "w") as fh:
                fh.write('#include "multi_buffer.h"\n#include "%s"\nvoid verif_witness(%s *c) { isal_hash_ctx_init(c); }\n' % (hdr, ty))
            rc = subprocess.run(["clang", "-O0", "-fno-discard-value-names", "-S", "-emit-llvm", "-I", os.path.join(build.REPO, "include"), "-o", os.path.join(wd, "w.ll"), src_], capture_output=True, text=True)
            if rc.returncode != 0:
                chk.broke("R20.6: the witness for isal_hash_ctx_init does not compile with %s: %s" % (hdr, rc.stderr.strip()[:200]))
                continue
            ll = open(os.path.join(wd, "w.ll")).read()
            stored = set()
            for fld in ("error", "status"):
                mm = re.search(r"(%%%s\d*) = getelementptr inbounds %%struct\.%s" % (fld, ty), ll)
                if mm and re.search(r"store i32 [^,]+, i32\* %s\b" % re.escape(mm.group(1)), ll):
                    stored.add(fld)
            n206 += 1
            ok = stored == {"error", "status"}
            chk.obligation("R20.6", ok, key=("ctx-init-macro", ty), sample={"type": ty, "fields_stored": sorted(stored)})
            if not ok:
                chk.finding(Finding("R20.6", "include/multi_buffer.h", "isal_hash_ctx_init", "ctx-init:" + ty, "isal_hash_ctx_init(%s *) stores %s; both ctx->status and ctx->error must be defined by it - isal_hash_ctx_error() and the first submit read them before anything else writes them" % (ty, sorted(stored) or "nothing"), loc="include/multi_buffer.h"))
        chk.floor("context types checked for the initialiser macro", n206, 5)
    finally:
        shutil.rmtree(wd, ignore_errors=True)
    import selftest_x86
    ctl = selftest_x86.control_c20()
    chk.extra["positive_control"] = ctl
    if not ctl.get("ok"):
        chk.broke("positive control not flagged: %s" % ctl)
    return ("Definedness dataflow over %d functions (%d instructions, %d sinks: addresses, non-stack stores, flag consumers, call arguments) with %d private kernels analysed in the context "
            "of their call sites; IR rules for message restart and init coverage." % (tot["funcs"], tot["ins"], tot["sinks"], len(priv)))


CTX_UNIT = re.compile(r"^(sha1|sha256|sha512|md5|sm3)_mb/\w*_ctx_\w+\.c$")


def ir_rules(chk, mods):
    # ---- R20.4
    n4 = 0
    for src, M in sorted(mods.items()):
        if not CTX_UNIT.match(src):
            continue
        for F in M.defined():
            if not re.match(r"^_\w+_ctx_mgr_submit_\w+$", F.name) or F.local:
                continue
            ctx_n, flags_n = F.arg_index("ctx"), F.arg_index("flags")
            if ctx_n is None or flags_n is None:
                continue
            FIRST = M.enum_value("ISAL_HASH_FIRST")
            n4 += 1
            bad = None
            for P in ir.paths_with_facts(F, max_paths=50000):
                if P.contradictory(F):
                    continue
                outcomes = set()
                for (val, pred, c, t, br, pos) in P.facts:
                    e = ir.expr_str(F, val)
                    if e == "and(arg:flags,%d)" % FIRST and c == 0 and pred in ("eq", "ne"):
                        outcomes.add(pred == "ne")
                    if e == "arg:flags" and pred == "eq" and isinstance(c, int):
                        outcomes.add(bool(c & FIRST))
                if outcomes != {True}:
                    continue        # not a FIRST path, or an infeasible one (the same expression decided both ways)
                # on a FIRST/ENTIRE path: reads of the restart fields must follow this call's resetting stores
                written = set()
                for I in P.insts:
                    if I.op == "store":
                        fld = F.field(I.ops[1])
                        if fld and F.is_arg(fld[0], ctx_n) and fld[1]:
                            written.add(fld[1][-1][1])
                    elif I.op == "call":
                        cal = I.callee or ""
                        G = M.functions.get(cal)
                        if cal.startswith("hash_init_digest") or (G is not None and not G.decl and G.local and "init" in cal):
                            written |= {"result_digest", "job"}
                            if G is not None and not G.decl and "init" in cal and not cal.startswith("hash_init"):
                                for J in G.all_insts():
                                    if J.op == "store":
                                        fl2 = G.field(J.ops[1])
                                        if fl2 and fl2[1]:
                                            written.add(fl2[1][-1][1])
                    elif I.op == "load":
                        fld = F.field(I.ops[0])
                        if fld and F.is_arg(fld[0], ctx_n) and fld[1]:
                            nm = fld[1][-1][1]
                            if nm in ("total_length", "partial_block_buffer_length") and nm not in written:
                                bad = bad or (I, nm)
            chk.obligation("R20.4", bad is None, key=(src, F.name), sample={"unit": src, "function": F.name})
            if bad:
                chk.finding(Finding("R20.4", src, F.name, "restart:" + bad[1], "with FIRST set, %s is read before this call has reset it: the new message depends on the previous one (or on uninitialised context memory)" % bad[1], loc=bad[0].loc()))
    chk.floor("submit functions checked for restart", n4, 23)
    # ---- R20.6 (IR): mh init functions memset the whole context first
    for iname, sname in (("_mh_sha1_init", "isal_mh_sha1_ctx"), ("_mh_sha256_init", "isal_mh_sha256_ctx"), ("_mh_sha1_murmur3_x64_128_init", "isal_mh_sha1_murmur3_x64_128_ctx")):
        F = None
        M = None
        for MM in mods.values():
            G = MM.functions.get(iname)
            if G is not None and not G.decl:
                F, M = G, MM
        if F is None:
            chk.broke("%s not found" % iname)
            continue
        size = None
        for sn, ds in M.distructs.items():
            if sn == sname or sn.lower() == sname:
                size = ds["size"]
        ms = [I for I in F.all_insts() if I.op == "call" and (I.callee or "").startswith(("llvm.memset", "memset", "__memset_chk"))]
        ok = False
        for I in ms:
            root, off = F.ptr_root(I.ops[0])
            n = F.const_int(I.ops[2])
            if F.is_arg(root, 0) and off == 0 and F.const_int(I.ops[1]) == 0 and n is not None and (size is None or n >= size):
                # dominates every other access through the argument
                others = [J for J in F.all_insts() if J.id != I.id and J.op in ("load", "store") and F.is_arg(F.ptr_root(J.ops[0] if J.op == "load" else J.ops[1])[0], 0)]
                ok = all(F.must_pass(J, {I.id}) for J in others)
        chk.obligation("R20.6", ok, key=iname, sample={"function": iname, "struct_size": size})
        if not ok:
            chk.finding(Finding("R20.6", F.file or "?", iname, "init-coverage", "the init function does not zero the whole context (%s bytes) before anything else" % size, loc="%s:%s" % (F.file, F.line)))


# ---------------------------------------------------------------------------------------------------------
# R20.5 manager init covers what submit / flush assume
def init_coverage(M, F, mods_fn, depth=0):
    """(byte mask of the manager struct that F (state = arg 0) certainly writes on every path, number of indexed
    stores in loops of a shape the analysis does not understand - those contribute nothing to the mask)."""
    cov = 0
    unknown = 0
    # blocks that lie on every path to the return: those that dominate the ret
    rets = F.rets()
    for I in F.all_insts():
        if I.op == "call":
            cal = I.callee or ""
            if cal.startswith(("llvm.memset", "memset", "__memset_chk")):
                root, off = F.ptr_root(I.ops[0])
                n = F.const_int(I.ops[2])
                if F.is_arg(root, 0) and off is not None and n is not None and all(F.must_pass(R, {I.id}) for R in rets):
                    cov |= ((1 << n) - 1) << off
            elif "_mgr_init_" in cal and depth < 3:
                G = mods_fn.get(cal)
                r0 = F.ptr_root(I.ops[0])
                if G is not None and not G.decl and F.is_arg(r0[0], 0) and r0[1] == 0 and all(F.must_pass(R, {I.id}) for R in rets):
                    sub, u2 = init_coverage(G.module, G, mods_fn, depth + 1)
                    unknown += u2
                    cov |= sub
        elif I.op == "store":
            root, off = F.ptr_root(I.ops[1])
            if not F.is_arg(root, 0):
                continue
            size = I.raw.get("size") or 0
            if off is not None:
                if all(F.must_pass(R, {I.id}) for R in rets):
                    cov |= ((1 << size) - 1) << off
                continue
            # variable index: canonical counted loop  for (j = 0; j < K; j++)  a[j] = ...
            chain = []
            P = F.resolve(I.ops[1])
            base = 0
            var = None
            ok = True
            while isinstance(P, ir.Inst) and P.op in ("getelementptr", "bitcast"):
                if P.op == "getelementptr":
                    for e in P.raw.get("path", []):
                        if "struct" in e:
                            base += e["off"]
                        elif e.get("array"):
                            if e.get("index") is None:
                                if var is not None:
                                    ok = False
                                var = (P, e["esize"])
                            else:
                                base += e["index"] * e["esize"]
                P = F.resolve(P.ops[0])
            if not ok or var is None:
                unknown += 1
                continue
            G_, esize = var
            idx = None
            for o in G_.ops[1:]:
                r = F.resolve(o)
                while isinstance(r, ir.Inst) and r.op in ("zext", "sext"):
                    r = F.resolve(r.ops[0])
                if isinstance(r, ir.Inst) and r.op == "phi":
                    idx = r
            if idx is None:
                unknown += 1
                continue
            # phi [0, pre], [add phi 1, latch]; loop header compares phi ult K
            inc_ok = start_ok = False
            for inc in idx.incoming:
                v = F.resolve(inc["v"])
                if F.const_int(v) == 0:
                    start_ok = True
                elif isinstance(v, ir.Inst) and v.op == "add" and F.const_int(v.ops[1]) == 1 and isinstance(F.resolve(v.ops[0]), ir.Inst) and F.resolve(v.ops[0]).id == idx.id:
                    inc_ok = True
            K = None
            for U in F.users(idx):
                if U.op == "icmp" and U.pred in ("ult", "slt") and F.const_int(U.ops[1]) is not None:
                    K = F.const_int(U.ops[1])
            if not (inc_ok and start_ok and K is not None and 0 < K <= 64):
                unknown += 1
                continue
            for k in range(K):
                cov |= ((1 << size) - 1) << (base + k * esize)
    return cov, unknown


def exposed_reads(lib, key, limit):
    """Bytes at fixed offsets from the first argument that function `key` may read before writing them."""
    f = lib.func(key)
    r = c19.analyse(lib, key)
    written_in = {f.entry: 0}
    work = [f.entry]
    exposed = 0
    full = (1 << limit) - 1
    while work:
        b = work.pop()
        w = written_in[b]
        for i in f.blocks[b]:
            av = r.maddr.get(i.addr)
            if av is None or av[1] or av[0][0] != "init" or av[0][1] != "RDI":
                continue
            off, size = av[0][2], av[2]
            if size is None or off < 0 or off + size > limit:
                continue
            m = ((1 << size) - 1) << off
            if i.reads_mem_operand():
                exposed |= m & ~w
            if i.writes_mem_operand():
                w |= m
        for s in f.succ.get(b, []):
            if (b, s) in r.dead_edges:
                continue
            if s not in written_in:
                written_in[s] = w
                work.append(s)
            elif written_in[s] & w != written_in[s]:
                written_in[s] &= w
                work.append(s)
    return exposed & full


def r20_5(chk, lib, mods):
    mods_fn = {}
    for M in mods.values():
        for F in M.defined():
            mods_fn.setdefault(F.name, F)
    n = 0
    for src, M in sorted(mods.items()):
        if not CTX_UNIT.match(src) or "ctx_base" in src:
            continue
        inits = set()
        users = set()
        for F in M.defined():
            for I in F.calls():
                c = I.callee or ""
                if re.match(r"^_\w+_(mb|sb)_mgr_init_\w+$", c):
                    inits.add(c)
                elif re.match(r"^_\w+_(mb|sb)_mgr_(submit|flush)_\w+$", c):
                    users.add(c)
        if len(inits) != 1 or not users:
            chk.broke("R20.5: %s: expected one manager init and some submit/flush callees, found %s / %s" % (src, sorted(inits), sorted(users)))
            continue
        iname = next(iter(inits))
        G = mods_fn.get(iname)
        if G is None or G.decl:
            chk.broke("R20.5: %s not defined in the C units" % iname)
            continue
        size = None
        for sn, ds in G.module.distructs.items():
            if sn.endswith("_MB_JOB_MGR"):
                size = ds["size"]
        if size is None:
            chk.broke("R20.5: the manager struct of %s is unknown" % iname)
            continue
        cov, unknown_loops = init_coverage(G.module, G, mods_fn)
        for u in sorted(users):
            k = lib._by_name.get(u)
            if k is None:
                chk.broke("R20.5: %s not found in the object code" % u)
                continue
            ex = exposed_reads(lib, k, size)
            missing = ex & ~cov
            n += 1
            if missing and unknown_loops:
                # the bytes may be written by a loop whose shape is not understood: no verdict, and not a pass either
                chk.broke("R20.5: %s reads manager bytes that %s is not seen to write, but %d indexed store(s) of that init sit in a loop that is not a canonical counted loop" % (u, iname, unknown_loops))
                continue
            chk.obligation("R20.5", missing == 0, key=(src, u), sample={"unit": src, "init": iname, "user": u, "exposed_bytes": bin(ex).count("1"), "init_covers_bytes": bin(cov).count("1")})
            if missing:
                offs = [b for b in range(size) if missing >> b & 1]
                ranges = []
                for b in offs:
                    if ranges and ranges[-1][1] == b:
                        ranges[-1][1] = b + 1
                    else:
                        ranges.append([b, b + 1])
                names = []
                ds = [d for sn, d in G.module.distructs.items() if sn.endswith("_MB_JOB_MGR")][0]
                for lo, hi in ranges[:6]:
                    mem = [m["name"] for m in ds["members"] if m["off"] <= lo < m["off"] + m["size"]]
                    names.append("%s[+%d..+%d)" % (mem[0] if mem else "?", lo, hi))
                chk.finding(Finding("R20.5", src, u, "init-coverage:" + iname, "%s reads manager bytes that %s (the init this family uses) does not write on every path: %s" % (u, iname, ", ".join(names)), loc="%s:%s" % (G.file, G.line)))
    chk.floor("manager init / user pairs", n, 40)
